#!/bin/sh
# usage: fix_commit.sh <message-file>   -- commits the working-tree change of /repo as a fix only if the baseline passes
set -e
out=$(/venv/bin/python /verif/tools/baseline_check.py 2>&1 | tail -3)
echo "$out"
echo "$out" | grep -q "0 missing" || { echo "BASELINE BROKEN: not committing"; exit 1; }
git -C /repo commit -qa -F "$1"
git -C /repo log --oneline | head -1
