#!/usr/bin/env python3
"""Take a sub-agent's deliverable (patch.diff, demo.py, meta.json in <src>), confirm it (demo fails with the change,
passes without; the pinned test suite still passes with it), store it as /verif/seeded/<name> and run the
property's quick check against it -- all in a scratch worktree, /repo is never touched.
usage: seed_intake.py <src dir> <name, e.g. C07-3>"""
import json, os, shutil, subprocess, sys, tempfile, time

src, name = os.path.abspath(sys.argv[1]), sys.argv[2]
prop = name.split("-")[0]


def sh(cmd, **kw):
    return subprocess.run(cmd, shell=True, capture_output=True, text=True, **kw)


for f in ("patch.diff", "demo.py", "meta.json"):
    if not os.path.exists(os.path.join(src, f)):
        print(name, "INCOMPLETE: missing", f)
        sys.exit(2)
wt = tempfile.mkdtemp(prefix="hyv_wt_", dir="/tmp")
os.rmdir(wt)
ev = tempfile.mkdtemp(prefix="hyv_ev_", dir="/tmp")
if sh(f"git -C /repo worktree add --detach {wt} HEAD").returncode:
    print("WORKTREE FAILED")
    sys.exit(2)
out = {}
try:
    demo = os.path.join(src, "demo.py")
    env = "PYTHONDONTWRITEBYTECODE=1 PATH=/venv/bin:$PATH"
    r0 = sh(f"cd {wt} && {env} PYTHONPATH={wt} timeout 300 /venv/bin/python {demo}")
    a = sh(f"git -C {wt} apply {src}/patch.diff")
    if a.returncode:
        print(name, "APPLY FAILED", a.stderr[:300])
        sys.exit(2)
    r1 = sh(f"cd {wt} && {env} PYTHONPATH={wt} timeout 300 /venv/bin/python {demo}")
    t = sh(f"cd {wt} && {env} PYTHONPATH={wt} /venv/bin/python -m pytest -q -p no:cacheprovider --timeout=900 "
           f"--deselect tests/test_bin.py::test_output_buffering tests 2>&1 | tail -1")
    out.update(demo_fails_with_patch=r1.returncode != 0, demo_passes_clean=r0.returncode == 0,
               tests_with_patch=t.stdout.strip())
    ok = out["demo_fails_with_patch"] and out["demo_passes_clean"] and "failed" not in out["tests_with_patch"] \
        and "error" not in out["tests_with_patch"] and "passed" in out["tests_with_patch"]
    out["confirmed"] = ok
    print(name, "confirm:", out, flush=True)
    if not ok:
        sys.exit(3)
    t0 = time.time()
    c = sh(f"cd /verif && HY_REPO={wt} VERIF_EVIDENCE_DIR={ev} ./check {prop} --tier quick")
    lines = [l for l in c.stdout.splitlines() if l.startswith("VIOLATION")] + \
            [l for l in (c.stdout + c.stderr).splitlines() if "MACHINERY" in l]
    out["checks"] = {prop: {"rc": c.returncode, "wall_s": round(time.time() - t0, 1), "first": (lines or [""])[0][:300]}}
    dst = f"/verif/seeded/{name}"
    os.makedirs(dst, exist_ok=True)
    for f in ("patch.diff", "demo.py", "meta.json"):
        shutil.copy(os.path.join(src, f), dst)
    json.dump(out, open(f"{dst}/eval.json", "w"), indent=1)
    print(name, "DETECTED" if c.returncode == 1 and lines and lines[0].startswith("VIOLATION") else "MISSED", out["checks"][prop], flush=True)
finally:
    sh(f"git -C /repo worktree remove --force {wt}")
    shutil.rmtree(ev, ignore_errors=True)
