#!/usr/bin/env python3
"""Apply every seeded change in /verif/seeded to /repo in turn, run the property's quick check,
restore /repo, and write seeded/RESULTS.md."""
import json, os, subprocess, sys, glob, time
rows = []
only = sys.argv[1:]
subprocess.run("rm -rf /tmp/evidence_backup && cp -r /verif/evidence /tmp/evidence_backup", shell=True)
for d in sorted(glob.glob("/verif/seeded/*/")):
    name = os.path.basename(d.rstrip("/"))
    if only and name not in only:
        continue
    meta = json.load(open(d + "meta.json"))
    prop = meta["property"]
    a = subprocess.run(f"git -C /repo apply {d}patch.diff", shell=True, capture_output=True, text=True)
    if a.returncode:
        rows.append((name, prop, meta.get("summary", "")[:140].replace("|", "/"), "patch no longer applies", "", ""))
        continue
    try:
        t0 = time.time()
        c = subprocess.run(f"cd /verif && ./check {prop} --tier quick", shell=True, capture_output=True, text=True)
        v = [l for l in c.stdout.splitlines() if l.startswith("VIOLATION")]
        rows.append((name, prop, meta.get("summary", "")[:140].replace("|", "/").replace("\n", " "),
                     "DETECTED" if c.returncode == 1 and v else f"missed (rc={c.returncode})",
                     f"{time.time()-t0:.0f}s", (v or [""])[0][:160].replace("|", "/")))
    finally:
        subprocess.run("git -C /repo checkout -- .", shell=True)
    print(rows[-1], flush=True)
subprocess.run("rm -rf /verif/evidence && mv /tmp/evidence_backup /verif/evidence", shell=True)
with open("/verif/seeded/RESULTS.md", "w") as f:
    f.write("| seeded change | property | what was changed | quick check | time | first violation line |\n|---|---|---|---|---|---|\n")
    for r in rows:
        f.write("| " + " | ".join(r) + " |\n")
