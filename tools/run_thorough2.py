#!/usr/bin/env python3
"""Run thorough tiers with the evidence redirected to .work/evidence_thorough (the committed quick-tier evidence is not
touched).  usage: run_thorough2.py [-j N] [-t seconds] [ids...]   (results: .work/thorough2.log)"""
import json, os, subprocess, sys, time
from concurrent.futures import ThreadPoolExecutor
args = sys.argv[1:]
jobs, tmo = 2, 2400
while args and args[0] in ("-j", "-t"):
    if args[0] == "-j":
        jobs = int(args[1])
    else:
        tmo = int(args[1])
    args = args[2:]
m = json.load(open("/verif/MANIFEST.json"))
ids = args or [c["property_id"] for c in m["checks"]]
ev = "/verif/.work/evidence_thorough"
os.makedirs(ev, exist_ok=True)
log = open("/verif/.work/thorough2.log", "a")


def one(pid):
    t0 = time.time()
    import signal
    p = subprocess.Popen(f"cd /verif && VERIF_EVIDENCE_DIR={ev} exec ./check {pid} --tier thorough", shell=True, stdout=subprocess.PIPE,
                         stderr=subprocess.PIPE, text=True, start_new_session=True)
    try:
        out, err = p.communicate(timeout=tmo)
        v = [l for l in out.splitlines() if l.startswith("VIOLATION") or "MACHINERY" in l]
        line = f"{pid} rc={p.returncode} {time.time()-t0:6.1f}s {(v or [''])[0][:200]}"
        if p.returncode == 2:
            line += " | " + " / ".join(err.splitlines()[-2:])[:300]
    except subprocess.TimeoutExpired:
        os.killpg(p.pid, signal.SIGKILL)
        p.communicate()
        line = f"{pid} TIMEOUT after {time.time()-t0:6.1f}s"
    print(line, flush=True)
    log.write(line + "\n")
    log.flush()


with ThreadPoolExecutor(max_workers=jobs) as ex:
    list(ex.map(one, ids))
