#!/usr/bin/env python3
"""Confirm a seeded change (demo fails with it / passes without, test suite unchanged) and
run the property's checks against it.  usage: seed_eval.py <PROP> <outdir> <worktree> [--tier quick]"""
import json, os, subprocess, sys, shutil, time
prop, out, wt = sys.argv[1:4]
tier = sys.argv[5] if len(sys.argv) > 5 else "quick"
env = dict(os.environ)
def sh(cmd, **kw):
    return subprocess.run(cmd, shell=True, capture_output=True, text=True, **kw)
demo = os.path.join(out, "demo.py")
r1 = sh(f"cd /tmp && PYTHONPATH={wt} /venv/bin/python {demo}")
r0 = sh(f"cd /tmp && PYTHONPATH=/repo /venv/bin/python {demo}")
print(f"demo with patch: rc={r1.returncode} {r1.stdout.strip()[-80:]!r}; clean: rc={r0.returncode} {r0.stdout.strip()[-80:]!r}")
t = sh(f"cd {wt} && PYTHONPATH={wt} /venv/bin/python -m pytest -q -p no:cacheprovider --timeout=900 --continue-on-collection-errors tests 2>&1 | tail -1")
print("tests with patch:", t.stdout.strip())
# apply to /repo, run the checks, undo
sh("rm -rf /tmp/evidence_backup && cp -r /verif/evidence /tmp/evidence_backup")
a = sh(f"git -C /repo apply {out}/patch.diff")
if a.returncode:
    print("APPLY FAILED", a.stderr); sys.exit(2)
res = {}
try:
    for p in prop.split(","):
        t0 = time.time()
        c = sh(f"cd /verif && ./check {p} --tier {tier}")
        lines = [l for l in c.stdout.splitlines() if l.startswith("VIOLATION") or "MACHINERY" in l]
        res[p] = {"rc": c.returncode, "wall_s": round(time.time() - t0, 1), "first": (lines or [""])[0][:300]}
        print(p, res[p])
finally:
    sh("git -C /repo checkout -- .")
    sh("rm -rf /verif/evidence && mv /tmp/evidence_backup /verif/evidence")   # evidence describes the unchanged tree only
    print("repo restored:", sh("git -C /repo status --short").stdout.strip() or "clean")
json.dump({"demo_fails_with_patch": r1.returncode != 0, "demo_passes_clean": r0.returncode == 0,
           "tests_with_patch": t.stdout.strip(), "checks": res}, open(os.path.join(out, "eval.json"), "w"), indent=1)
