#!/venv/bin/python
import json, os, sys
HERE = os.path.dirname(os.path.dirname(os.path.abspath(__file__)))
sys.path.insert(0, os.path.join(HERE, "harness"))
from hyverif.registry import CHECKS, NOT_APPLICABLE

props = [json.loads(l)["id"] for l in open(os.path.join(HERE, "properties.jsonl"))]
checks = []
for pid in props:
    c = CHECKS.get(pid)
    if not c:
        continue
    checks.append({
        "property_id": pid,
        "quick_cmd": f"./check {pid} --tier quick",
        "thorough_cmd": f"./check {pid} --tier thorough",
        "evidence_file": f"/verif/evidence/{pid}.json",
        "replay_cmd_template": f"./check {pid} --replay {{path}}",
        "engine": c["engine"],
        "level_claimed": {"category": c["level"], "text": c["text"],
                          "design_ref": "DESIGN.md section " + c.get("design", "6/" + pid)},
        "level_note": c["note"],
        "technique": c["technique"],
    })
na = [{"property_id": p, "reason": NOT_APPLICABLE.get(p, "engine not built yet in this round; "
       "the property is not claimed (see DESIGN.md section 10 for build order)")}
      for p in props if p not in CHECKS]
hooks = json.load(open(os.path.join(HERE, "tools", "hooks.json")))
engines = {}
for pid, c in CHECKS.items():
    engines.setdefault(c["engine"], []).append(pid)
m = {
    "version": 1,
    "setup_cmd": "./setup.sh",
    "hooks": hooks,
    "engines": [{"name": e, "path": f"harness/hyverif/engines/{e}.py", "serves_properties": ps,
                 "kind_free_text": "TLA+ spec(s) in specs/ checked by TLC + Python conformance harness"}
                for e, ps in sorted(engines.items())],
    "checks": checks,
    "not_applicable": na,
    "notes": "All checks: ./check <id> --tier quick|thorough; exit 0 held / 1 VIOLATION / 2 machinery failure. "
             "Specs in specs/*.tla; known findings in known_findings.json.",
}
json.dump(m, open(os.path.join(HERE, "MANIFEST.json"), "w"), indent=1)
print(f"MANIFEST.json: {len(checks)} checks, {len(na)} not claimed")
