#!/usr/bin/env python3
import json, sys
for f in sys.argv[1:]:
    d = json.load(open(f))
    r = d["replay"]
    print("==", f)
    print("text    :", r.get("text"))
    print("script  :", {k: v for k, v in r.get("script", {}).items()})
    print("fault   :", r.get("fault"), "supp:", r.get("supp"))
    o = r.get("observed", {})
    print("observed:", o.get("out"), o.get("log"), o.get("globals"))
    for a in r.get("allowed", []):
        print("allowed :", a["out"], a["log"], a["globals"])
