#!/usr/bin/env python3
"""Run every claimed check (quick tier) on the current tree; print a summary.  usage: run_all.py [seed] [ids...]"""
import json, os, subprocess, sys, time
seed = sys.argv[1] if len(sys.argv) > 1 else "0"
m = json.load(open("/verif/MANIFEST.json"))
ids = sys.argv[2:] or [c["property_id"] for c in m["checks"]]
bad = 0
for pid in ids:
    t0 = time.time()
    r = subprocess.run(f"cd /verif && VERIF_SEED={seed} ./check {pid} --tier quick", shell=True, capture_output=True, text=True)
    v = [l for l in r.stdout.splitlines() if l.startswith("VIOLATION") or "MACHINERY" in l or l.startswith("KNOWN")]
    print(f"{pid} rc={r.returncode} {time.time()-t0:5.1f}s {(v or [''])[0][:150]}", flush=True)
    if r.returncode:
        bad += 1
        for l in (r.stderr.splitlines()[-3:]):
            print("    ", l[:200])
print("FAILED:", bad)
