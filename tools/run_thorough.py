#!/usr/bin/env python3
"""Run every claimed check in the thorough tier; evidence of the quick tier is restored afterwards.
usage: run_thorough.py [ids...]   (results: /verif/.work/thorough.log)"""
import json, os, shutil, subprocess, sys, time
m = json.load(open("/verif/MANIFEST.json"))
ids = sys.argv[1:] or [c["property_id"] for c in m["checks"]]
bak = "/verif/.work/evidence_quick_backup"
shutil.rmtree(bak, ignore_errors=True)
shutil.copytree("/verif/evidence", bak)
log = open("/verif/.work/thorough.log", "a")
try:
    for pid in ids:
        t0 = time.time()
        try:
            r = subprocess.run(f"cd /verif && ./check {pid} --tier thorough", shell=True, capture_output=True, text=True, timeout=5400)
            v = [l for l in r.stdout.splitlines() if l.startswith("VIOLATION") or "MACHINERY" in l]
            line = f"{pid} rc={r.returncode} {time.time()-t0:6.1f}s {(v or [''])[0][:200]}"
            if r.returncode == 2:
                line += " | " + " / ".join(r.stderr.splitlines()[-2:])[:300]
        except subprocess.TimeoutExpired:
            line = f"{pid} TIMEOUT after {time.time()-t0:6.1f}s"
        print(line, flush=True)
        log.write(line + "\n"); log.flush()
        shutil.copy(f"/verif/evidence/{pid}.json", f"/verif/.work/thorough_{pid}.json")
finally:
    shutil.rmtree("/verif/evidence", ignore_errors=True)
    shutil.copytree(bak, "/verif/evidence")
