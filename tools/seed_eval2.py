#!/usr/bin/env python3
"""Run a property's check against a seeded change WITHOUT touching /repo: the change is applied in a scratch
worktree, the check is pointed at it with HY_REPO, and its evidence goes to a scratch directory.
usage: seed_eval2.py <seeded dir or patch file> [PROP[,PROP...]] [--tier quick]   (several may run at once)"""
import json, os, subprocess, sys, time, shutil, tempfile

src = os.path.abspath(sys.argv[1])
patch = src if os.path.isfile(src) else os.path.join(src, "patch.diff")
props = sys.argv[2].split(",") if len(sys.argv) > 2 and not sys.argv[2].startswith("--") else None
tier = sys.argv[sys.argv.index("--tier") + 1] if "--tier" in sys.argv else "quick"
if props is None:
    props = [json.load(open(os.path.join(src, "meta.json")))["property"]]


def sh(cmd, **kw):
    return subprocess.run(cmd, shell=True, capture_output=True, text=True, **kw)


wt = tempfile.mkdtemp(prefix="hyv_wt_", dir="/tmp")
os.rmdir(wt)
ev = tempfile.mkdtemp(prefix="hyv_ev_", dir="/tmp")
a = sh(f"git -C /repo worktree add --detach {wt} HEAD")
if a.returncode:
    print("WORKTREE FAILED", a.stderr)
    sys.exit(2)
res = {}
try:
    a = sh(f"git -C {wt} apply {patch}")
    if a.returncode:
        print("APPLY FAILED", a.stderr)
        sys.exit(2)
    for p in props:
        t0 = time.time()
        c = sh(f"cd /verif && HY_REPO={wt} VERIF_EVIDENCE_DIR={ev} ./check {p} --tier {tier}")
        lines = [l for l in c.stdout.splitlines() if l.startswith("VIOLATION")] + \
                [l for l in (c.stdout + c.stderr).splitlines() if "MACHINERY" in l]
        res[p] = {"rc": c.returncode, "wall_s": round(time.time() - t0, 1), "first": (lines or [""])[0][:300]}
        print(os.path.basename(src), p, res[p], flush=True)
finally:
    sh(f"git -C /repo worktree remove --force {wt}")
    shutil.rmtree(ev, ignore_errors=True)
print(json.dumps(res))
