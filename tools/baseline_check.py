#!/usr/bin/env python3
"""Run the repository's pinned test suite (guard off) and compare with BASELINE.json."""
import json, os, subprocess, sys, tempfile, xml.etree.ElementTree as ET
b = json.load(open("/root/.vp/BASELINE.json"))
out = tempfile.mktemp(suffix=".xml")
env = {k: v for k, v in os.environ.items() if k != "HY_VERIF_TRACE"}
subprocess.run(f"cd /repo && /venv/bin/python -m pytest -ra -q -p no:cacheprovider --timeout=900 "
               f"--continue-on-collection-errors --junitxml={out}", shell=True, env=env,
               stdout=subprocess.DEVNULL, stderr=subprocess.DEVNULL)
passed = set()
for tc in ET.parse(out).getroot().iter("testcase"):
    if not any(c.tag in ("failure", "error", "skipped") for c in tc):
        passed.add(f"{tc.get('classname')}::{tc.get('name')}")
want = set(b["stable_pass"])
missing = sorted(want - passed)
print(f"baseline: {len(want)} expected to pass, {len(want & passed)} pass, {len(missing)} missing; "
      f"{len(passed - want)} extra passes")
for m in missing[:20]:
    print("  MISSING", m)
for m in sorted(passed - want)[:10]:
    print("  extra", m)
os.unlink(out)
sys.exit(1 if missing else 0)
