#!/usr/bin/env python3
"""Evaluate every seeded change in /verif/seeded against the quick check of its property, each in a scratch
worktree of /repo (nothing is applied to /repo itself; the committed evidence is not touched), several at a time,
and write seeded/RESULTS.md.   usage: seed_all2.py [-j N] [names...]"""
import glob, json, os, subprocess, sys, time
from concurrent.futures import ThreadPoolExecutor

args = sys.argv[1:]
jobs = 5
if args[:1] == ["-j"]:
    jobs = int(args[1])
    args = args[2:]
dirs = [d for d in sorted(glob.glob("/verif/seeded/*/")) if not args or os.path.basename(d.rstrip("/")) in args]


def one(d):
    name = os.path.basename(d.rstrip("/"))
    meta = json.load(open(d + "meta.json"))
    prop = meta["property"]
    t0 = time.time()
    c = subprocess.run(["/venv/bin/python", "/verif/tools/seed_eval2.py", d.rstrip("/"), prop], capture_output=True, text=True)
    last = (c.stdout.strip().splitlines() or [""])[-1]
    try:
        res = json.loads(last)[prop]
    except Exception:
        res = {"rc": "?", "first": (c.stdout + c.stderr)[-200:]}
    ok = res.get("rc") == 1 and res.get("first", "").startswith("VIOLATION")
    row = (name, prop, meta.get("summary", "")[:140].replace("|", "/").replace("\n", " "),
           "DETECTED" if ok else f"missed (rc={res.get('rc')})", f"{time.time() - t0:.0f}s",
           res.get("first", "")[:160].replace("|", "/").replace("\n", " "))
    print(row[0], row[3], row[4], flush=True)
    return row


with ThreadPoolExecutor(max_workers=jobs) as ex:
    rows = list(ex.map(one, dirs))
if not args:
    with open("/verif/seeded/RESULTS.md", "w") as f:
        f.write("| seeded change | property | what was changed | quick check | time | first violation line |\n|---|---|---|---|---|---|\n")
        for r in rows:
            f.write("| " + " | ".join(r) + " |\n")
print("detected", sum(1 for r in rows if r[3] == "DETECTED"), "of", len(rows))
