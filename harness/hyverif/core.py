"""Common run context: work dirs, verdicts, known findings, evidence."""
import hashlib
import json
import os
import shutil
import sys
import time
from pathlib import Path

VERIF = Path(__file__).resolve().parents[2]
SPECS = VERIF / "specs"
EVIDENCE = Path(os.environ.get("VERIF_EVIDENCE_DIR") or VERIF / "evidence")   # redirected when a seeded change is evaluated
REPLAYS = EVIDENCE / "replays"
REPO = Path(os.environ.get("HY_REPO", "/repo"))
PY = "/venv/bin/python"


class MachineryError(Exception):
    """The checking machinery itself failed (exit 2) -- never a VIOLATION."""


def load_findings():
    p = VERIF / "known_findings.json"
    if not p.exists():
        return []
    return json.loads(p.read_text())["findings"]


class Run:
    def __init__(self, pid, tier, seed):
        self.pid, self.tier, self.seed = pid, tier, seed
        self.t0 = time.time()
        self.work = VERIF / ".work" / f"{pid}-{tier}-{os.getpid()}"
        if self.work.exists():
            shutil.rmtree(self.work)
        self.work.mkdir(parents=True)
        for old in REPLAYS.glob(f"{pid}-*.json"):
            old.unlink()
        self.violations = []      # unlisted
        self.known_hit = {}       # key -> what
        self.findings = [f for f in load_findings()
                         if f["property"] == pid and f.get("status") == "open"]
        self.cov = {"states": 0, "transitions": 0,
                    "traces_validated_against_impl": 0, "samples": [],
                    "evaluations": 0, "distinct_nontrivial": 0}
        self.assumptions = []
        self.notes = []
        self.tlc_runs = []
        self._seen_cases = set()

    @property
    def quick(self):
        return self.tier == "quick"

    def log(self, *a):
        print(f"[{self.pid} {time.time()-self.t0:6.1f}s]", *a, flush=True)

    # ---- coverage bookkeeping
    def add_tlc(self, res, label):
        self.cov["states"] += res.distinct
        self.cov["transitions"] += res.generated
        self.tlc_runs.append({"label": label, "distinct_states": res.distinct,
                              "states_generated": res.generated,
                              "wall_s": round(res.wall, 2),
                              "coverage": res.coverage})

    def sample(self, s, cap=8):
        if len(self.cov["samples"]) < cap:
            self.cov["samples"].append(s)

    def case(self, key, nontrivial=True):
        """Count one implementation evaluation; key identifies distinct cases."""
        self.cov["evaluations"] += 1
        if nontrivial:
            h = hashlib.blake2b(repr(key).encode(), digest_size=8).digest()
            if h not in self._seen_cases:
                self._seen_cases.add(h)
                self.cov["distinct_nontrivial"] += 1

    # ---- verdicts
    def violation(self, key, what, replay):
        """key: stable identifier of the failing input (matched against
        known_findings.json); replay: JSON-able case for --replay."""
        for f in self.findings:
            if f["key"] == key:
                if key not in self.known_hit:
                    self.known_hit[key] = f["what"]
                return False
        if len(self.violations) < 50:
            self.violations.append({"key": key, "what": what, "replay": replay})
        else:
            self.violations.append(None)
        return True

    def finish(self, level, rule, assumptions=(), extra=None):
        REPLAYS.mkdir(parents=True, exist_ok=True)
        nv = len(self.violations)
        out = []
        for i, v in enumerate(x for x in self.violations if x):
            if i >= 10:
                break
            p = REPLAYS / f"{self.pid}-{i}.json"
            p.write_text(json.dumps({"property": self.pid, **v}, indent=1,
                                    default=str))
            out.append(f"VIOLATION property={self.pid} replay={p}  # {v['what']}")
        for key, what in self.known_hit.items():
            print(f"KNOWN-FINDING: property={self.pid} {what} [{key}]")
        cov = dict(self.cov)
        cov["rule"] = rule
        cov["tlc_runs"] = self.tlc_runs
        cov["known_findings_hit"] = sorted(self.known_hit)
        if extra:
            cov.update(extra)
        ev = {"property_id": self.pid, "tier": self.tier, "seed": self.seed,
              "level": level, "coverage": cov,
              "assumptions": list(assumptions) + self.assumptions,
              "wall_s": round(time.time() - self.t0, 2), "violations": nv,
              "notes": self.notes}
        EVIDENCE.mkdir(exist_ok=True)
        (EVIDENCE / f"{self.pid}.json").write_text(
            json.dumps(ev, indent=1, default=str) + "\n")
        for l in out:
            print(l)
        self.log(f"done: states={cov['states']} impl_runs={cov['evaluations']} "
                 f"traces={cov['traces_validated_against_impl']} "
                 f"violations={nv} known={len(self.known_hit)}")
        shutil.rmtree(self.work, ignore_errors=True)
        return 1 if nv else 0


def pmap(fn, items, procs=14, chunk=32):
    """Order-preserving parallel map over freshly spawned worker processes (fn must be a module-level
    function of an importable module; items and results must pickle).  Spawned rather than forked:
    forked children of a harness with a large heap spend their time in copy-on-write faults."""
    items = list(items)
    if len(items) < 300:
        return [fn(x) for x in items]
    import multiprocessing as mp
    ctx = mp.get_context("spawn")
    with ctx.Pool(procs) as pool:
        return pool.map(fn, items, chunksize=chunk)
