"""HyCore programs: tree representation, node tables for TLC, rendering to Hy,
execution on the real compiler, value projection."""
import json
import sys
import types

NAMES = ["a", "b", "c", "d", "g", "h"]
EXC = {1: "E1", 2: "E2", 3: "E3", 10: "NameError", 11: "TypeError", 12: "ZeroDivisionError",
       13: "UnboundLocalError", 14: "IndexError", 15: "ValueError"}


# string values of the abstract universe: id -> text (ids 2, 3 are Python keywords on purpose)
STRS = {0: "", 1: "s1", 2: "class", 3: "import"}


class T:
    """Program tree node: kind, a (int or str), children, extras."""
    __slots__ = ("k", "a", "ch", "x")

    def __init__(self, k, a=0, ch=(), **x):
        self.k, self.a, self.ch, self.x = k, a, list(ch), x

    def size(self):
        return 1 + sum(c.size() for c in self.ch)

    def __repr__(self):
        return render(self)


# ---------------------------------------------------------------- values
def lit(v):
    return T("lit", 0, (), v=v)


def pyval(v):
    """[tag,n,items] -> Hy source text"""
    tag, n, items = v
    if tag == "none":
        return "None"
    if tag == "bool":
        return "True" if n else "False"
    if tag == "int":
        return str(n)
    if tag == "str":
        return '"' + STRS[n] + '"'
    if tag == "list":
        return "[" + " ".join(pyval(x) for x in items) + "]"
    if tag == "tuple":
        return "#(" + " ".join(pyval(x) for x in items) + ")"
    if tag == "exc":
        return f"({EXC[n]})"
    raise ValueError(v)


def topy(v):
    """[tag,n,items] -> Python object (for scripts)"""
    tag, n, items = v
    if tag == "none":
        return None
    if tag == "bool":
        return bool(n)
    if tag == "int":
        return n
    if tag == "str":
        return STRS[n]
    if tag == "list":
        return [topy(x) for x in items]
    if tag == "tuple":
        return tuple(topy(x) for x in items)
    raise ValueError(v)


def proj(o, G):
    """Python object -> [tag,n,items] (the spec's Proj)"""
    if o is None:
        return ["none", 0, []]
    if o is True or o is False:
        return ["bool", int(o), []]
    if isinstance(o, int):
        return ["int", o, []]
    if isinstance(o, str):
        return ["str", next((k for k, v in STRS.items() if v == o), 99), []]
    if isinstance(o, list):
        return ["list", 0, [proj(x, G) for x in o]]
    if isinstance(o, tuple):
        return ["tuple", 0, [proj(x, G) for x in o]]
    if isinstance(o, types.FunctionType):
        return ["fn", 0, []]
    if isinstance(o, BaseException):
        return ["exc", exc_id(type(o), G), []]
    if isinstance(o, G["CM"]):
        return ["cm", o.k, []]
    if "Box" in G and isinstance(o, G["Box"]):
        return ["box", o.s, []]
    return ["other", 0, []]


def exc_id(t, G):
    for i, n in EXC.items():
        c = G.get(n) or getattr(__builtins__, n, None) or __import__("builtins").__dict__.get(n)
        if t is c:
            return i
    return 99


V_NONE = ["none", 0, []]
V_TRUE = ["bool", 1, []]
V_FALSE = ["bool", 0, []]


def V_INT(i):
    return ["int", i, []]


# ---------------------------------------------------------------- rendering
def render(t):
    k, ch = t.k, t.ch
    r = render
    if k == "lit":
        return pyval(t.x["v"])
    if k == "var":
        return NAMES[t.a - 1]
    if k == "nov":
        return "_"
    if k == "eff":
        return f"(e {t.a}" + "".join(" " + r(c) for c in ch) + ")"
    if k in ("do", "if", "when", "cond", "and", "or", "not", "setv", "setx", "return", "raise",
             "while", "else", "finally", "break", "continue", "try", "global", "nonlocal"):
        return "(" + k + "".join(" " + r(c) for c in ch) + ")"
    if k == "pat":
        return "[" + " ".join(r(c) for c in ch) + "]"
    if k == "let":
        nb = t.a
        return ("(let [" + " ".join(r(c) for c in ch[:2 * nb]) + "]" +
                "".join(" " + r(c) for c in ch[2 * nb:]) + ")")
    if k == "args":
        if t.a == "list":
            return "[" + " ".join(r(c) for c in ch) + "]"
        if t.a == "tuple":
            return "#(" + " ".join(r(c) for c in ch) + ")"
        return "(" + t.a + "".join(" " + r(c) for c in ch) + ")"
    if k == "fn":
        n = t.a
        return ("(fn [" + " ".join(r(c) for c in ch[:n]) + "]" +
                "".join(" " + r(c) for c in ch[n].ch) + ")")
    if k == "defn":
        n = t.a
        return ("(defn " + r(ch[0]) + " [" + " ".join(r(c) for c in ch[1:1 + n]) + "]" +
                "".join(" " + r(c) for c in ch[1 + n].ch) + ")")
    if k == "call":
        return "(" + " ".join(r(c) for c in ch) + ")"
    if k == "for":
        return "(for [" + r(ch[0]) + " " + r(ch[1]) + "]" + "".join(" " + r(c) for c in ch[2:]) + ")"
    if k == "except":
        ts = t.x["ts"]
        hv = t.x["hv"]
        if hv and not ts:
            raise ValueError("catch-all handler cannot bind a variable")
        if len(ts) == 0:
            spec = "[]"
        elif len(ts) == 1:
            spec = "[" + (r(ch[0]) + " " if hv else "") + EXC[ts[0]] + "]"
        else:
            spec = "[" + (r(ch[0]) + " " if hv else "") + "[" + " ".join(EXC[x] for x in ts) + "]]"
        return "(except " + spec + "".join(" " + r(c) for c in ch[(1 if hv else 0):]) + ")"
    if k == "with":
        # nested withs flagged "merge" are written as one multi-manager form (same meaning)
        pairs, cur = [], t
        while True:
            c = cur.ch
            pairs.append((r(c[0]), r(c[1])))
            if cur.x.get("merge") and len(c) == 3 and c[2].k == "with":
                cur = c[2]
            else:
                break
        if len(pairs) == 1 and cur.ch[0].k == "nov":
            head = "[" + pairs[0][1] + "]"
        else:
            head = "[" + " ".join(a + " " + b for a, b in pairs) + "]"
        return "(with " + head + "".join(" " + r(c) for c in cur.ch[2:]) + ")"
    if k == "cm":
        return f"(cm {t.a})"
    raise ValueError(k)


# ---------------------------------------------------------------- node tables
def table(t):
    """Preorder node table with parent / enclosing function links."""
    nodes = []

    def walk(t, p, f):
        i = len(nodes) + 1
        rec = {"k": t.k, "a": t.a, "ch": [], "p": p, "f": f,
               "v": t.x.get("v", V_NONE), "hv": t.x.get("hv", 0), "ts": t.x.get("ts", []),
               "cv": t.x.get("cv", [])}
        nodes.append(rec)
        f2 = i if t.k in ("fn", "defn") else f
        for c in t.ch:
            rec["ch"].append(walk(c, i, f2))
        return i

    walk(t, 0, 0)
    return nodes


def sites_of(t, out=None):
    out = [] if out is None else out
    if t.k == "eff":
        out.append(t.a)
    for c in t.ch:
        sites_of(c, out)
    return out


def cms_of(t, out=None):
    out = [] if out is None else out
    if t.k == "cm":
        out.append(t.a)
    for c in t.ch:
        cms_of(c, out)
    return out


def record(t, script, fault, supp, mode, obs=None, nv=4, maxlog=40):
    """One PROG_FILE line.  script/fault: dict site -> list."""
    ns = max(sites_of(t) + [0])
    ncm = max(cms_of(t) + [0])
    cmbase = ns
    total = ns + 2 * ncm
    sc = [script.get(k, [V_NONE]) for k in range(1, total + 1)]
    fl = [fault.get(k, [0]) for k in range(1, total + 1)]
    return {"nodes": table(t), "nv": nv, "script": sc or [[V_NONE]], "fault": fl or [[0]],
            "supp": [supp.get(c, 0) for c in range(1, ncm + 1)] or [0],
            "cmbase": cmbase, "mode": mode, "maxlog": maxlog,
            "obs": obs or {"log": [], "out": ["val", V_NONE], "globals": [V_NONE] * nv}}


# ---------------------------------------------------------------- execution on hy
class Runaway(BaseException):
    pass


def make_globals(script, fault, supp, cmbase, log, limit=400):
    """Module globals for one execution: e, cm, exception classes."""
    G = {}

    class E1(Exception):
        pass

    class E2(E1):
        pass

    class E3(Exception):
        pass

    counts = {}
    import builtins

    class Box:
        """mutable truthiness: true while site s has been called an even number of times"""
        def __init__(self, s):
            self.s = s

        def __bool__(self):
            return counts.get(self.s, 0) % 2 == 0
    boxes = {}

    def realize(v):
        if v[0] == "box":
            return boxes.setdefault(v[1], Box(v[1]))
        if v[0] in ("list", "tuple"):
            xs = [realize(x) for x in v[2]]
            return xs if v[0] == "list" else tuple(xs)
        return topy(v)

    def hit(k, given=None, has_given=False):
        if len(log) > limit:
            raise Runaway()
        i = counts.get(k, 0) + 1
        counts[k] = i
        fl = fault.get(k, [0])
        ft = fl[i - 1] if i <= len(fl) else 0
        if ft:
            log.append([k, V_NONE])
            cls = G.get(EXC[ft]) or getattr(builtins, EXC[ft])
            raise cls()
        if has_given:
            v = given
        else:
            sc = script.get(k, [V_NONE])
            v = realize(sc[i - 1] if i <= len(sc) else sc[-1])
        log.append([k, proj(v, G)])
        return v

    def e(k, *a):
        return hit(k, a[0], True) if a else hit(k)

    class CM:
        def __init__(self, k):
            self.k = k

        def __enter__(self):
            return hit(cmbase + 2 * self.k - 1)

        def __exit__(self, et, ev, tb):
            hit(cmbase + 2 * self.k, None, True)
            return bool(supp.get(self.k, 0)) and et is not None

    def cm(k):
        return CM(k)

    G.update(e=e, cm=cm, CM=CM, Box=Box, E1=E1, E2=E2, E3=E3, __name__="hyverif_prog")
    return G


_MODULE = None


def _execute(run_code, G, log, nv):
    """Run `run_code(G)` (returns the final value) under the watchdog and project the observables."""
    import signal
    import hy

    def _alarm(*a):
        raise Runaway()
    old = signal.signal(signal.SIGALRM, _alarm)
    signal.setitimer(signal.ITIMER_REAL, 2.0)
    try:
        try:
            v = run_code(G)
        finally:
            signal.setitimer(signal.ITIMER_REAL, 0)
            signal.signal(signal.SIGALRM, old)
        out = ["val", proj(v, G)]
    except Runaway:
        return {"runaway": True}
    except RecursionError:
        return {"runaway": True}
    except Exception as x:
        out = ["exc", exc_id(type(x), G)]
        G["__last_exc__"] = x
    gl = []
    for n in NAMES[:nv]:
        m = hy.mangle(n)
        gl.append(proj(G[m], G) if m in G else ["absent", 0, []])
    return {"log": list(log), "out": out, "globals": gl}


def run_hy(text, script, fault, supp, cmbase, nv=4, mode="eval", keep=None):
    """Compile `text` with the real compiler and run it.
    mode "eval":    module statements + value of the last form (hy.eval style)
    mode "module":  hy_compile as a module, executed directly (value not observed)
    mode "unparse": same module, but ast.unparse -> ast.parse -> exec (hy2py path)
    Returns the observation dict, or {'compile_error': ...} / {'runaway': True}.
    `keep`, if a dict, receives the compiled tree / source."""
    import hy
    from hy.compiler import hy_compile
    from hy.reader import read_many
    import ast as pyast
    log = []
    G = make_globals(script, fault, supp, cmbase, log)
    mod = types.ModuleType("hyverif_prog")
    mod.__dict__.update(G)
    G = mod.__dict__
    try:
        forms = hy.models.Lazy(read_many(text, filename="<prog>", skip_shebang=False))
        if mode in ("eval", "hyeval"):
            tree, expr = hy_compile(forms, mod, get_expr=True, filename="<prog>", source=text)
            c1 = compile(tree, "<prog>", "exec")
            c2 = compile(expr, "<prog>", "eval")
        else:
            tree = hy_compile(forms, mod, filename="<prog>", source=text)
            if mode == "unparse":
                src = pyast.unparse(tree)
                if keep is not None:
                    keep["py"] = src
                try:
                    tree2 = pyast.parse(src)
                except SyntaxError as x:
                    return {"unparse_error": f"{x}", "py": src}
                c1 = compile(tree2, "<prog>", "exec")
            else:
                c1 = compile(tree, "<prog>", "exec")
        if keep is not None:
            keep["tree"] = tree
    except Exception as x:  # compile-time failure
        return {"compile_error": f"{type(x).__name__}: {x}", "exc_class": type(x).__name__,
                "is_syntax_error": isinstance(x, SyntaxError)}

    def go(G):
        if mode == "hyeval":
            return hy.eval(hy.read_many(text, filename="<prog>"), G)
        exec(c1, G)
        return eval(c2, G) if mode == "eval" else None
    return _execute(go, G, log, nv)
