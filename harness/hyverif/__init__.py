"""hyverif: TLA+ model-based verification harness for hylang/hy (see /verif/DESIGN.md)."""
