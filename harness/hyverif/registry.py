"""Per-property registry: engine module, level, technique.  MANIFEST.json is
generated from this table by tools/gen_manifest.py."""

# pid -> dict(engine=<module in hyverif.engines>, level=..., text=..., note=..., technique=..., design=...)
CHECKS = {
    "C38": dict(
        engine="gensym", level="model_checking", design="5.8, 6/C38",
        technique="TLC exhaustive interleavings of the op program extracted from gensym's bytecode; "
                  "TLC schedules replayed on real threads; all real schedules enumerated by a "
                  "deterministic scheduler and trace-validated by TLC",
        text="HyGensym.tla is checked by TLC over every interleaving of the visible operations "
             "(lock acquire/release, LOAD/STORE_GLOBAL of the counter) that the harness extracts from the "
             "gensym bytecode in /repo, for 2-4 threads; every terminal schedule and any counterexample is "
             "replayed on real threads under a sys.monitoring scheduler, and every schedule the real threads "
             "can take (stateless DFS) is recorded and validated by TLC against HyGensymTrace.",
        note="Trusts CPython bytecode atomicity and that the counter is only touched via LOAD/STORE_GLOBAL "
             "in gensym's own code object; argument-string part is exhaustive over a 16-symbol alphabet."),
}

NOT_APPLICABLE = {}
