"""Per-property registry: engine module, level, technique.  MANIFEST.json is
generated from this table by tools/gen_manifest.py."""

# pid -> dict(engine=<module in hyverif.engines>, level=..., text=..., note=..., technique=..., design=...)
CHECKS = {
    "C01": dict(
        engine="core", level="model_checking", design="5.1, 6/C01",
        technique="TLC trace validation of hy executions against the HyCore small-step semantics "
                  "(nondeterministic argument-list interleaving) + TLC exploration of all allowed outcomes",
        text="Every generated program (exhaustive by size + random deep, with an exception injected at each "
             "effect call) is compiled and run by hy; TLC validates the observed effect log, result and final "
             "globals against specs/HyCore.tla, whose invariants (unselected branches silent, short-circuit, "
             "ordered forms one child at a time) are checked on every state; small programs are also explored "
             "exhaustively by TLC and the observed outcome must be in the exported set. Families with their own structure ride along: nested conditionals under every truth assignment, values whose truthiness changes, every assigning form x every value that is left in a compiler temporary x every way of consuming the assignment, temporary-needing constructs side by side in every kind of slot, and HyCompr's comprehension programs.",
        note="Trusts the renderer/projection, CPython primitives on small values; recursion, call depth > 3 and "
             "string arithmetic are out of the modelled fragment and only counted."),
    "C02": dict(
        engine="core", level="model_checking", design="5.1, 6/C02",
        technique="exhaustive and/or forms (arity x operand shape x truthiness) run on hy, trace-validated and "
                  "explored by TLC against HyCore (ShortCircuit invariant)",
        text="All and/or forms of arity 0..4 (thorough 0..5, sampled to 8) over plain, effectful, statement-producing "
             "and nested operands under every truthiness assignment are executed; TLC validates log (operand sites "
             "with returned values), value and globals against HyCore, where ShortCircuit is a checked invariant; "
             "hy.pyops.and_/or_ are compared by value on plain operands.",
        note="Truthiness of the value pool (ints, bools, None, lists, strings) as transcribed in HyCore!Truthy."),
    "C03": dict(
        engine="ops", level="model_checking", design="5.1, 6/C03",
        technique="TLC checks the operator table of HyOps (arities, fold direction and aggregator consistency on integers) "
                  "and exports the Python expansion of every (operator, arity); the macro form, the hy.pyops function, the "
                  "macro with #* and CPython on the expansion text are evaluated on the same operands and compared",
        text="25 operators x arities 0..6 plus 13 augmented assignments; operands from ints, bools, floats, strings, lists, "
             "sets, None (TypeError / ZeroDivisionError cases included), exhaustive for arity <= 2, sampled above.",
        note="Values are compared by type and repr, exceptions by class."),
    "C04": dict(
        engine="compr", level="model_checking", design="5.1, 6/C04",
        technique="TLC enumerates comprehension forms of HyCompr with their nested-loop trace (effects and yields) and the "
                  "variables left behind; every form is rendered as lfor/sfor/gfor/dfor/for in module, function and class "
                  "scope with either compilation strategy forced, compiled by hy and run, and compared with the trace",
        text="Clause lists of length <= 3 (thorough 4) over 6 iteration, 4 :if, 4 :setv and :do clauses with final parts "
             "value / tuple / #* / #** / setx (for: body, break, else); expected elements in order, effect log, values of "
             "a b z afterwards (no leak of iteration and :setv variables, setx leaks, for leaks everything) and for gfor "
             "the number of effects visible after each element.",
        note="Unspecified and skipped: forms without clauses, names read from the enclosing scope and bound later in the "
             "same form, setx or outer reads inside a comprehension in a class body (Python forbids / hides them), "
             ":async clauses."),
    "C05": dict(
        engine="bind", level="model_checking", design="5.1, 6/C05",
        technique="HyBind is Python's argument-binding algorithm in TLA+; TLC enumerates (signature, call) pairs exhaustively "
                  "for small bounds and by simulation up to 6 parameters, exporting the binding or `rejected`; the spec is "
                  "validated against CPython's def for every pair, then Hy's defn and call forms are run against it",
        text="Signatures over positional-only / ordinary / #* args / bare * / keyword-only / #** kwargs with defaults; calls "
             "over positional, keyword (anywhere among the positionals), #* and #** items; laws on the spec: positional-only "
             "never bound by keyword, keyword-only never positionally, no supplied value lost.  Docstring and implicit-return "
             "tables for fn / defn / async defn / generators.",
        note="Rejection = TypeError, or SyntaxError for a literally repeated keyword."),
    "C06": dict(
        engine="core", level="model_checking", design="5.1, 6/C06",
        technique="let/closure programs with every variable read logged, trace-validated by TLC against HyCore's "
                  "lexical environment chain",
        text="Programs nesting let, fn, defn, setv, setx and calls over a shared 3-name pool (exhaustive by size, at "
             "module and function level, plus random deep) are run with each read wrapped as (e k x); TLC accepts the "
             "run only if every read saw the value HyCore's environment chain prescribes and the final globals match. HyHoist gives what defn inside let does at every level; HyShadow gives, for 42 constructs that bind a let-bound name again (parameter kinds, nested let, assignments, loop / with / match targets, comprehension variables, their first iterable and assignments inside them, except variables, defn / defclass / import), what is read inside, after the construct and after the let.",
        note="defn of a name bound by an enclosing let is not generated (documented hoisting corner)."),
    "C07": dict(
        engine="scope", level="model_checking", design="5.1, 6/C07",
        technique="TLC enumerates nestings of HyScope with the binding each assignment must reach (or syntax error); each "
                  "nesting is rendered to Hy, compiled and run, and the values of all bindings at all levels compared",
        text="Chains of up to 3 (thorough 4) nested functions / classes / let forms under the module; every level defines "
             "any subset of {x, y}; the innermost level declares any subset nonlocal or global (or nothing) and assigns both. "
             "Laws on the spec: global reaches the module, nonlocal passes over classes and picks the nearest let / function "
             "/ module binding, exactly one binding changes.",
        note="Unspecified: nonlocal at module level, declaring a name bound by the declaring let itself."),
    "C08": dict(
        engine="match", level="model_checking", design="5.1, 6/C08",
        technique="HyMatch is Python's match semantics (PEP 634) in TLA+; TLC evaluates it on every small program and on "
                  "generated deep ones and exports case / bindings / outcome; each program is run by CPython as a match "
                  "statement (validating the spec) and by Hy as a match form at module level and in a function",
        text="Patterns: literal, capture, wildcard, value, sequences with #*, mappings with #**, class patterns (positional "
             "via __match_args__, keyword, builtin classes), |, :as; guards (plain and statement-producing, also using bound "
             "names); 1-3 cases; subjects generated to match.  Laws: irrefutable patterns match, a match binds exactly the "
             "pattern's names, strings are not sequences.",
        note="Outcome classes: case taken + bindings, no match (None), TypeError at run time, SyntaxError at compile time."),
    "C09": dict(
        engine="core", level="model_checking", design="5.1, 6/C09",
        technique="fault enumeration at every effect call of try/with programs, trace-validated and explored by TLC "
                  "against HyCore's abrupt-completion semantics",
        text="try/except/else/finally and with programs (exhaustive by size + random nesting <= 3) are run with an "
             "exception of one of three types injected at each call of each effect site (body, handler, else, finally, "
             "__enter__, __exit__), singly and in pairs; TLC validates clause order, finally-exactly-once, the escaping "
             "exception, the form's value and outer variables against HyCore.",
        note="break/continue/return inside finally, except*, empty else/finally are not generated."),
    "C10": dict(
        engine="forms", level="model_checking", design="5.2, 6/C10",
        technique="HyForms generates model trees (TLC: exhaustive over heads x atom sequences, random behaviours with nested "
                  "forms) and specifies the compile pipeline as a state machine; every tree is pushed through hy_compile, "
                  "compile() and marshal, the recorded events are validated by TLC against the state machine",
        text="All core macro heads (plus plain call, method sugar, dotted call, keyword call) x every sequence of up to 2 atoms of 46 kinds, random argument sequences up to 5 with nested "
             "forms, and mutated forms from tests/native_tests; accepted end states: marshalled code object, or rejection by "
             "a HyLanguageError / SyntaxError while Hy or Python compiles.",
        note="HyMacroExpansionError is a HyLanguageError and is accepted as user-facing even when it wraps an internal "
             "exception of a core macro (counted in the evidence as wrapped_internal). Heads that run user code at compile "
             "time (do-mac, eval-and-compile, eval-when-compile, defreader) are excluded."),
    "C11": dict(
        engine="collect", level="model_checking", design="5.2, 6/C11",
        technique="TLC enumerates (context, element sequence) programs of HyCollect with the Python construct each element "
                  "must become (or none: compilation has to fail); each is compiled and run, the compiled AST is searched for "
                  "every uniquely numbered leaf and the run-time effect log compared",
        text="25 contexts (list / tuple / set / dict displays, call, method call, dotted call, get, cut, +, and, <=, class "
             "bases, decorators, except types, if / with / return / assert / raise / setv value / not / f-string field / "
             "lfor iterable / while test) x all sequences of up to 3 (thorough 4) elements over plain, #*, #**, keyword+value.",
        note="Exception types of failed compilations are C10's subject; here any compile-time failure counts as not silent. "
             "Cells the documentation does not decide (e.g. (and #* xs)) accept either a construct or an error, never a drop."),
    "C12": dict(
        engine="riders", level="model_checking", design="5.10, 6/C12",
        technique="static scan of every compiled AST for non-reserved introduced identifiers + get_anon_var stream "
                  "validated by TLC against HyTempAlloc + final user variables validated against HyCore",
        text="On the C01 corpus with user names that resemble compiler temporaries, every identifier in the compiled AST "
             "must be a program name, hy, or _hy_-prefixed; the stream of temporaries issued by each compilation is "
             "trace-validated by TLC (fresh and reserved); user variables keep their values (HyCore trace validation). Also: deep let chains over names ending in digits, one let binding the same names repeatedly with a closure after each binding, local macros with names that need mangling, and temporary-needing constructs side by side under constructs that need temporaries.",
        note="Identifier positions scanned are listed in the evidence; attribute chains rooted at hy count as hy."),
    "C13": dict(
        engine="riders", level="model_checking", design="5.10, 6/C13",
        technique="TLC model of the set->sequence conversions in scoping (self-composition) to derive order-sensitive "
                  "shapes + differential compilation in separate processes under several PYTHONHASHSEED values",
        text="HyScopeOrder shows which program shapes make emitted name order depend on set iteration; those shapes plus "
             "the C01 corpus are compiled in separate interpreter processes under 4 (thorough 10) hash seeds and ast.dump "
             "with positions and marshalled bytecode must be byte-identical.",
        note="Only PYTHONHASHSEED varies between the processes."),
    "C14": dict(
        engine="riders", level="model_checking", design="6/C14",
        technique="translation validation (compiled AST vs ast.parse(ast.unparse(AST))) on the HyCore corpus, with the "
                  "unparsed program trace-validated by TLC against HyCore",
        text="Each corpus program (variable pool with Python keywords and a non-ASCII hyphenated name; fault at each "
             "effect) is run from the compiled AST and from the re-parsed hy2py text: the text must parse, both runs must "
             "agree on effect log (with values), globals and exception type, and the re-parsed run is validated by TLC. Also every HyBind signature with annotations, numeric literals (negative, complex, huge) in 22 operand positions and 13 Python keywords in 17 naming positions.",
        note="hy2py's printing path is exercised through hy2py_worker on a sample; CPython's ast.unparse is trusted."),
    "C39": dict(
        engine="session", level="model_checking", design="5.9, 6/C39",
        technique="TLC exhaustive histories of HyEvalApi replayed through the real hy.eval; writes to the hy key "
                  "recorded by a logging mapping and trace-validated by TLC; result value via HyCore",
        text="HyEvalApi models hy_eval_user step by step (remember, compile, implicit import, user code assigning or "
             "deleting hy, raise at any point, restore in finally); TLC checks Restored on every history and exports them; "
             "each is replayed on real dicts (globals-only, separate locals, logging locals; absent/truthy/falsy entry) and "
             "the recorded key writes are validated against the spec; the returned value is checked on HyCore programs. The raise is an ordinary exception or one that is not an Exception (KeyboardInterrupt, SystemExit, GeneratorExit, a BaseException subclass).",
        note="hy.eval with neither globals nor locals (caller-frame locals) is not covered."),
    "C40": dict(
        engine="session", level="model_checking", design="5.9, 6/C40",
        technique="TLC exhaustive input-kind histories of HyRepl replayed through REPL.runsource; recorded sessions "
                  "(*1 *2 *3 *e, printed output, continuation) trace-validated by TLC",
        text="HyRepl states NoRepeat/Recency/PrintedInOrder over all histories of ok/None/compile-fail/run-fail/print-fail "
             "inputs; every history is fed to a real REPL line by line and the recorded state after each runsource call is "
             "validated against the spec (which allows a failed input either to leave the stars or to shift None in); "
             "random programs split at every line break are checked for continuation prompts and script equivalence. Lines may be empty inside a form; sessions over values of every kind (falsy ones included) must print exactly hy.repr of each non-None result.",
        note="Completeness of accumulated text is judged by hy's own reader (property C19 covers the reader)."),
    "C41": dict(
        engine="session", level="model_checking", design="5.9, 6/C41",
        technique="TLC-enumerated command lines of HyCmdline (scanner invariants PassThrough/ModeRight/FlagsRight) "
                  "replayed as real `python -m hy` processes in all four modes",
        text="HyCmdline generates command lines from their structure and scans the flat tokens as cmdline_handler does; "
             "TLC checks that mode, options and pass-through arguments equal the structure for every line; sampled "
             "groups are executed as subprocesses under all nine designator spellings and the program's sys.argv, exit "
             "status and output are compared with the spec and across modes.",
        note="-i / REPL start-up and hy2py/hyc command lines are not covered; -m needs the module on sys.path (cwd)."),
    "C15": dict(
        engine="cache", level="model_checking", design="5.7, 6/C15",
        technique="TLC checks on HyCache that the source history (compile, then run in the module compilation filled) and "
                  "the cached history (run only) end in the same values, macro table and reader table for every module of "
                  "bounded size, and exports the expected final state; every module is imported twice in fresh processes "
                  "(second import must come from bytecode) and both observations are compared with the spec",
        text="Modules of up to 2 (thorough 3) forms over setv, defmacro, 13 shapes of require (absolute / relative / "
             "package name lists, :as, name lists with aliases, *, export lists, :readers, :macros+:readers), macro uses, "
             "reader-macro uses, local requires in functions and hy.eval; observed: x, y, the values macro uses produced, "
             "_hy_macros (name -> which macro), _hy_reader_macros.  File kinds: 9 extensions x {Hy-only text, Python-only "
             "text} through SourceFileLoader and `hy FILE`, against IsHySource with CPython's own SOURCE_SUFFIXES.",
        note="hy.eval of a macro the module defines only later differs inherently between the histories (the compile-time "
             "table is still there after a source import); the spec leaves those modules unspecified."),
    "C16": dict(
        engine="macros", level="model_checking", design="5.7, 6/C16",
        technique="TLC enumerates staging programs of HyStaging with the expected number of firings per effect site and "
                  "history; each history is run as a separate interpreter process and the firings counted",
        text="For every module of up to 2 (thorough 3) staging forms, at top level or inside a function called 0-2 times, "
             "the spec gives how often each body and each piece of do-mac-generated code runs when the module is only "
             "compiled, imported from source, and imported again from cached bytecode (laws: bytecode = run-time part; "
             "eval-when-compile contributes nothing at run time); the three histories are executed in fresh processes "
             "with a private bytecode cache and compared, together with the values eval-and-compile and do-mac yield.",
        note="HY_MESSAGE_WHEN_COMPILING distinguishes compiling from loading bytecode; no source hook is needed."),
    "C17": dict(
        engine="lines", level="model_checking", design="5.3, 6/C17",
        technique="TLC enumerates chains of enclosing constructs around a raising form and computes, from the layout of "
                  "their templates, the line span of the raising form; each program is compiled and run and the innermost "
                  "traceback frame of the module compared with the span",
        text="Chains of up to 2 (thorough 3) out of 31 enclosing constructs around "
             "29 raising forms of 1-3 lines (code generated by macro / reader macro / do-mac calls, call, division, subscript, attribute, unbound name, raise, assert, unpacking, and forms the compiler rewrites first: multi-value augmented assignment, comparison, chainc, keyword call, cut; and inline Python through py / pys: comprehension condition and iterable, lambda default, with item, call).",
        note="The harness verifies the layout the spec computed against the rendered text before trusting it."),
    "C18": dict(
        engine="reader", level="model_checking", design="5.4, 6/C18",
        technique="TLC enumerates every short text of HyReader's alphabet with the spec's outcome; the real reader "
                  "is run on each and on mutated programs validated by TLC; random token strings under a watchdog",
        text="The reader spec (recursive descent, one operator per reader method) gives every text an outcome in "
             "{models, LexException, PrematureEndOfInput}; TLC enumerates all texts <= 3 (thorough 4) characters over 30 "
             "syntax characters plus all f-string field texts and the real reader must produce the same class (never "
             "another exception, always terminating); longer mutated programs are validated through TLC's file mode. Characters outside the specification's alphabet (NUL, control characters, separators, a byte-order mark, a lone surrogate) are inserted into the enumerated texts; a reader that does not terminate is reported after 12 such texts.",
        note="Numeric-looking identifiers are left to HyReaderIdent (status unk here)."),
    "C19": dict(
        engine="reader", level="model_checking", design="5.4, 6/C19",
        technique="CutLaw is a TLC-checked invariant over every prefix of every enumerated text; the spec's cut "
                  "classes are replayed on the real reader and the REPL prompt",
        text="For every well-formed text TLC classifies every cut point (inside an unclosed construct / between top-level "
             "forms / inside a token) and checks the law on the spec; the real reader must raise PrematureEndOfInput resp. "
             "read for the first two classes; every prefix of generated programs is validated by TLC; REPL.runsource must "
             "ask for more input on the premature-end prefixes.",
        note="Cuts inside a bare token are unconstrained, as the property allows."),
    "C20": dict(
        engine="reader", level="model_checking", design="5.4, 6/C20",
        technique="SepLaw / ConcatLaw are TLC-checked invariants of the reader spec; gaps exported by TLC are used to "
                  "insert separators into texts read by the real reader; sugar/long-form pairs validated by TLC",
        text="TLC checks on every enumerated text that inserting whitespace, comments or #_ discards at any between-forms "
             "gap, and concatenating with whole-form texts, leaves the model lists unchanged; the same insertions (8 "
             "separators) are applied to the real reader at the gaps the spec exports; sugar and long forms built from one "
             "tree must read equal on the reader and are validated against the spec.",
        note="Junctions inside a token or an unterminated comment are excluded, as in DESIGN 6/C20."),
    "C21": dict(
        engine="reader", level="model_checking", design="5.4, 6/C21",
        technique="position invariants and RegionReadsBack checked by TLC on the spec; positions reported by the real "
                  "reader compared with the spec (enum + file mode); region re-read on the real reader",
        text="Every model of every enumerated text carries the positions the spec computes (compared exactly); children "
             "lie inside parents in source order; slicing the source by a model's region and re-reading gives an equal "
             "model (checked by TLC on the spec and by re-reading on the real reader, also for generated multi-line programs).",
        note="f-string components share their field's start position; only the embedded forms are position-checked."),
    "C22": dict(
        engine="literals", level="model_checking", design="5.4, 6/C22",
        technique="TLC classifies every short text of the number alphabet with HyReaderIdent (three-valued) and checks "
                  "separator/sign laws; each text is read by the real reader and compared by type and CPython value",
        text="HyReaderIdent gives Python's numeric literal grammar plus the documented extensions as a recogniser; TLC "
             "enumerates all texts <= 4 (thorough 5) over 20 characters, checks that separators and signs never change the "
             "class, and exports class and canonical text; the real reader must produce that model type with CPython's "
             "value, and non-numbers must read as symbol / dotted form / LexException; generated long literals go through "
             "TLC's file mode.",
        note="Texts only CPython's constructors accept (Infinity, 1+j, +NaN, Unicode digits) are open, decided with CPython."),
    "C23": dict(
        engine="literals", level="model_checking", design="5.4, 6/C23",
        technique="TLC enumerates every short string-literal text per prefix with the reader spec's verdict (escape "
                  "validity table, delimiter matching); real reader compared by status and by CPython's literal value",
        text="For prefixes '', r, b, br, rb all bodies <= 3 (thorough 4) over 17 characters, and all bracket-string texts, "
             "are enumerated by TLC from the reader spec, which decides accept / LexException / premature end and delimits "
             "the raw body; the value must equal ast.literal_eval of the equivalent Python literal, unrecognised escapes "
             "must be LexException, CR/CRLF read as LF, bracket content is verbatim minus one leading newline.",
        note="CPython decides escape decoding (\\N{...}, \\U) -- the property names Python as the reference."),
    "C24": dict(
        engine="literals", level="model_checking", design="5.4, 6/C24",
        technique="generated f-string structures rendered as Hy and Python source, evaluated on both; the Hy text is "
                  "validated by TLC against the reader spec's f-string machinery (also enumerated on all short field texts)",
        text="Components (literal text with brace and named escapes, fields with = debugging, conversions and nested "
             "format specs, malformed variants) are rendered both ways; hy.eval of the Hy f-string must equal eval of the "
             "Python f-string (or both be syntax errors); HyReader's field machine is checked exhaustively against the real "
             "reader on every f\"{... text <= 4 (thorough 5) characters and on the generated texts via file mode.",
        note="CPython's f-string evaluation is the reference; = debugging is compared for bare variables only."),
    "C25": dict(
        engine="models", level="model_checking", design="5.5, 6/C25",
        technique="TLC checks Read(Print(m)) = m and print idempotence on HyPrint (printer spec composed with the reader "
                  "spec) for every model readable from short texts; the real repr/read/eval round trip on the same texts",
        text="HyPrint transcribes hy.repr for models; composed with HyReader, TLC checks on every well-formed text of five "
             "alphabets that each model prints to text that reads back to an equal model and re-prints identically (and "
             "that the pre-fix printer violates this); every such text, generated programs and hand-built models are run "
             "through the real hy.repr, hy.read, hy.eval and compared node by node.",
        note="Printed text need not equal the spec's text; only the round trip is asserted (equal texts are counted)."),
    "C26": dict(
        engine="literals", level="model_checking", design="5.4, 6/C26",
        technique="constructor success vs reading the corresponding text, on every short string; the reader is bound to "
                  "the TLC-enumerated spec on the same texts",
        text="For every string <= 3 (thorough 4) characters over the 31-character reader alphabet, Symbol(s) must succeed "
             "iff reading s yields exactly that symbol and Keyword(s) iff reading ':'+s yields that keyword; for every "
             "delimiter/content pair String(s, brackets=d) must succeed iff #[d[s]d] reads back as s.",
        note="The reader side is the real reader, compared with HyReader's verdict on every text (C18 binding)."),
    "C27": dict(
        engine="models", level="model_checking", design="5.5, 6/C27",
        technique="TLC computes the documented form skeleton (HyReprValues) for generated value shapes incl. self "
                  "references and checks Unform(Form(v)) = v; real hy.repr output is read, compared with the skeleton, "
                  "evaluated and compared with the value",
        text="Shapes over all documented container / constructor types are given to TLC, which derives the form hy.repr "
             "must print (constructor heads, nesting, placeholders) and checks the form evaluates back to the shape; the "
             "harness fills atoms (inf, nan, -0.0, huge ints, awkward strings and bytes), prints with the real hy.repr "
             "under a watchdog, reads the text, compares structure, evaluates it and compares value and type.",
        note="Atom formatting is delegated to CPython (uninterpreted in the spec), as stated in DESIGN section 7."),
    "C28": dict(
        engine="models", level="model_checking", design="5.5, 6/C28",
        technique="TLC explores HyReprState (hy.repr's _quoting/_seen machine) over all small object graphs and call "
                  "histories with raising printers; histories replayed on real objects; recorded steps trace-validated",
        text="The spec has one action per step of hy-repr (enter with seen-check, descend, printer raising, exit in "
             "finally); TLC checks on every graph/history that the state is clean between top-level calls and that each "
             "successful call prints what a fresh interpreter prints (and that dropping the finally breaks it); the "
             "histories are replayed with real containers, models and a registered raising printer, outputs compared with "
             "a clean-state reference, and the (_quoting, |_seen|) snapshots of every nested call validated by TLC.",
        note="Graphs whose cycles pass only through immutable models cannot be built and are skipped."),
    "C29": dict(
        engine="models", level="model_checking", design="5.5, 6/C29",
        technique="TLC explores HyAsModel (as_model's _seen guard) over all small value graphs and promotion histories; "
                  "histories replayed on real values; random nested values round-tripped through hy.eval",
        text="The spec models as_model/recwrap step by step (self-reference check, unpromotable objects, id added and "
             "removed in finally); TLC checks that _seen is empty between top-level promotions whatever was raised and that "
             "the outcome depends on the value only (and that dropping the finally breaks this); histories are replayed on "
             "real lists, dicts, models and functions, and random nested values must satisfy eval(as_model(v)) = v and "
             "idempotence. Existing model containers of every class holding unpromoted children, and cycles through them, are promoted too.",
        note="Value graphs whose cycles pass only through immutable models cannot be built and are skipped."),
    "C30": dict(
        engine="models", level="model_checking", design="5.5, 6/C30",
        technique="HyQuasi (render_quoted_form as a function on trees): QuoteIsIdentity checked by TLC per template; "
                  "hy.eval of (quote m) compared node by node with every extra attribute",
        text="For every generated template, and for models read from generated programs or assembled from constructors "
             "(FString/FComponent with brackets, conversion, expression, is_tstring; special-looking symbols; empty "
             "sequences), evaluating (quote m) must return a model of the same type, value and attributes at every node.",
        note="The spec-level law is the identity; the binding is the node-by-node comparison on the real compiler."),
    "C31": dict(
        engine="models", level="model_checking", design="5.5, 6/C31",
        technique="HyQuasi computes the reference quasiquote result in TLC for enumerated/generated templates and hole "
                  "values; hy.eval of the quasiquote form is compared node by node",
        text="Templates (exhaustive by size over expr/list/dict with ~x and ~@xs leaves; random with nested quasiquote "
             "levels and all sequence kinds) and environments (models, ints, None, lists, tuples, strings, falsy values) "
             "are given to TLC, which evaluates QQ(template, 0) -- level arithmetic, promotion, (or value []) splicing -- "
             "and checks the literal-reproduction laws; the real result must equal the expected model tree.",
        note="~x / ~@x directly under the quasiquote (no parent sequence) is outside the property and skipped."),
    "C32": dict(
        engine="mangle", level="model_checking", design="5.6, 6/C32",
        technique="TLC checks the mangling laws on all abstract class strings of HyMangle; the exported table is "
                  "concretised for every Unicode code point in positional contexts and compared with hy.mangle",
        text="HyMangle transcribes the documented mangling steps over 12 character classes; TLC checks identifier-ness, "
             "leading underscores, identity on normal identifiers, idempotence and per-part dots on every class string "
             "(<= 4, thorough 5); every code point is classified with unicodedata and the real hy.mangle is compared "
             "with the laws and with the spec's concretised token sequence in up to 8 contexts, plus random names.",
        note="unicodedata / str.isidentifier are trusted; assumption counterexamples (A1-A4) are listed in evidence."),
    "C33": dict(
        engine="mangle", level="model_checking", design="5.6, 6/C33",
        technique="TLC checks RoundTrip on HyMangle (and shows it needs assumption A3); exhaustive code-point sweep of "
                  "unmangle(mangle(s)) on the real functions against the spec",
        text="RoundTrip (mangle . unmangle . mangle = mangle) is a TLC-checked invariant of HyMangle for all class "
             "strings without class Q, and TLC demonstrates it fails with Q (NFKC image is the delimiter); the real "
             "functions are swept over every code point in up to 8 contexts and random names.",
        note="Names whose body starts with hyx_ are excluded as the property states."),
    "C34": dict(
        engine="names", level="model_checking", design="5.5, 6/C34",
        technique="HyNames is a store keyed by HyMangle!Mangle of the name; TLC enumerates (definition, optional second "
                  "definition, use) over constructs and names and exports which value the use must see; each program is "
                  "compiled and run",
        text="26 defining and 16 using constructs over module variables, macros, parameters, keyword dictionaries and "
             "attributes x 10 names (hyphen / underscore variants, leading and trailing hyphens, illegal characters); laws: "
             "hyphen = underscore except in first position, sameness is an equivalence, every identifier is an identifier.",
        note="Names are drawn over one letter plus - _ !, so the character-class string of HyMangle determines the name. "
             "Unicode normalisation of names is covered by C32/C33 on mangle itself."),
    "C35": dict(
        engine="macros", level="model_checking", design="5.7, 6/C35",
        technique="TLC enumerates (and simulates) histories of HyMacros with the documented lookup order and require "
                  "shapes; each history is rendered as a Hy module and run, expansions and warnings compared",
        text="HyMacros models module, local (per function scope), extra (hy.eval) and core macro tables with fresh tags per "
             "definition; TLC explores every history of 3 (thorough 4) events and simulated 7-event histories; the rendered "
             "modules are compiled and executed, each call site reporting which definition it expanded to, and "
             "core-shadow warnings are compared, including the pragma that disables them.",
        note="Scopes are rendered as functions, class bodies and comprehensions in rotation (all three open a local macro scope)."),
    "C36": dict(
        engine="macros", level="model_checking", design="5.7, 6/C36",
        technique="TLC enumerates every macro environment of HyExpand and checks the one-step / fixpoint laws; each is "
                  "installed in a real module and hy.macroexpand-1 / hy.macroexpand compared with the spec",
        text="HyExpand gives one expansion step and its fixpoint over chains of user macros ending in another macro, the "
             "Hy-level core macro when, the result-producing core form if, a function or an atom; TLC checks the laws for "
             "all environments and exports the expected forms; the real functions are called with module macros and with "
             "the macros argument, results compared node by node, and the input model must be unchanged. Every core macro that yields a compiler result (not only if) is tried with 7 argument shapes, directly and at the end of a macro chain: the form must come back unchanged and as a model.",
        note="Macro calls inside arguments are not expanded by these functions and are not generated."),
    "C37": dict(
        engine="macros", level="model_checking", design="5.7, 6/C37",
        technique="TLC enumerates stream pairs of HyReaderMacros (read/evaluate alternation, per-module reader tables) "
                  "with expected use results and failure points; streams written as module files, imported and compiled",
        text="For two modules and two reader-macro names every stream of definitions, None-returning definitions, uses, "
             "define-and-use-in-one-form items and require :readers is processed by the spec (a use needs an earlier "
             "definition in the same module or a require; reading fails at the first unknown #name; earlier forms have "
             "been evaluated); the real importer and hy_compile with a fresh HyReader must give the same results, errors "
             "and per-module tables, and leave no current reader behind. After module B is loaded, continuation streams are read by a fresh reader and evaluated in B: the reader table belongs to the reader (FreshReaderStartsEmpty).",
        note="If module A fails to import, module B (which may require A) is not run."),
    "C38": dict(
        engine="gensym", level="model_checking", design="5.8, 6/C38",
        technique="TLC exhaustive interleavings of the op program extracted from gensym's bytecode; "
                  "TLC schedules replayed on real threads; all real schedules enumerated by a "
                  "deterministic scheduler and trace-validated by TLC",
        text="HyGensym.tla is checked by TLC over every interleaving of the visible operations "
             "(lock acquire/release, LOAD/STORE_GLOBAL of the counter) that the harness extracts from the "
             "gensym bytecode in /repo, for 2-4 threads; every terminal schedule and any counterexample is "
             "replayed on real threads under a sys.monitoring scheduler, and every schedule the real threads "
             "can take (stateless DFS) is recorded and validated by TLC against HyGensymTrace. Labels of up to 200 characters, repeated, sequentially and from threads, must still give distinct, reserved, mangled symbols.",
        note="Trusts CPython bytecode atomicity and that the counter is only touched via LOAD/STORE_GLOBAL "
             "in gensym's own code object; argument-string part is exhaustive over a 16-symbol alphabet."),
}

NOT_APPLICABLE = {}
