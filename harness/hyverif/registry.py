"""Per-property registry: engine module, level, technique.  MANIFEST.json is
generated from this table by tools/gen_manifest.py."""

# pid -> dict(engine=<module in hyverif.engines>, level=..., text=..., note=..., technique=..., design=...)
CHECKS = {
    "C01": dict(
        engine="core", level="model_checking", design="5.1, 6/C01",
        technique="TLC trace validation of hy executions against the HyCore small-step semantics "
                  "(nondeterministic argument-list interleaving) + TLC exploration of all allowed outcomes",
        text="Every generated program (exhaustive by size + random deep, with an exception injected at each "
             "effect call) is compiled and run by hy; TLC validates the observed effect log, result and final "
             "globals against specs/HyCore.tla, whose invariants (unselected branches silent, short-circuit, "
             "ordered forms one child at a time) are checked on every state; small programs are also explored "
             "exhaustively by TLC and the observed outcome must be in the exported set.",
        note="Trusts the renderer/projection, CPython primitives on small values; recursion, call depth > 3 and "
             "string arithmetic are out of the modelled fragment and only counted."),
    "C38": dict(
        engine="gensym", level="model_checking", design="5.8, 6/C38",
        technique="TLC exhaustive interleavings of the op program extracted from gensym's bytecode; "
                  "TLC schedules replayed on real threads; all real schedules enumerated by a "
                  "deterministic scheduler and trace-validated by TLC",
        text="HyGensym.tla is checked by TLC over every interleaving of the visible operations "
             "(lock acquire/release, LOAD/STORE_GLOBAL of the counter) that the harness extracts from the "
             "gensym bytecode in /repo, for 2-4 threads; every terminal schedule and any counterexample is "
             "replayed on real threads under a sys.monitoring scheduler, and every schedule the real threads "
             "can take (stateless DFS) is recorded and validated by TLC against HyGensymTrace.",
        note="Trusts CPython bytecode atomicity and that the counter is only touched via LOAD/STORE_GLOBAL "
             "in gensym's own code object; argument-string part is exhaustive over a 16-symbol alphabet."),
}

NOT_APPLICABLE = {}
