"""Program corpora for the HyCore engines: exhaustive enumeration by size,
seeded random deep generation, site numbering, scripts and fault plans."""
import itertools
import random

from .hycore import T, lit, V_NONE, V_TRUE, V_FALSE, V_INT, sites_of, cms_of

LITS = [V_NONE, V_TRUE, V_FALSE, V_INT(0), V_INT(1), V_INT(2), ["list", 0, []],
        ["list", 0, [V_INT(1), V_INT(2)]], ["str", 0, []], ["str", 1, []], ["str", 2, []], ["str", 3, []]]
SCRIPT_POOL = [V_NONE, V_TRUE, V_FALSE, V_INT(0), V_INT(1), V_INT(2), V_INT(3), ["list", 0, []],
               ["list", 0, [V_INT(1)]], ["list", 0, [V_INT(1), V_INT(2)]], ["str", 0, []], ["str", 1, []]]
FALSY = [V_NONE, V_FALSE, V_INT(0), ["list", 0, []], ["str", 0, []]]

ALL_FORMS = {"lit", "var", "eff", "eff1", "do", "if", "when", "cond", "and", "or", "not", "setv",
             "setv2", "setvpat", "setx", "list", "tuple", "+", "-", "<", "=", "let", "let2", "fn", "defn",
             "call", "return", "raise", "while", "for", "break", "continue", "try", "with"}


class Ctx:
    def __init__(self, forms=ALL_FORMS, nv=4, in_fn=False, in_loop=False, letbound=frozenset(),
                 in_handler=False, depth_fn=0):
        self.forms, self.nv = forms, nv
        self.in_fn, self.in_loop, self.letbound = in_fn, in_loop, letbound
        self.in_handler, self.depth_fn = in_handler, depth_fn

    def but(self, **kw):
        c = Ctx(self.forms, self.nv, self.in_fn, self.in_loop, self.letbound, self.in_handler,
                self.depth_fn)
        for k, v in kw.items():
            setattr(c, k, v)
        return c


def V(i):
    return T("var", i)


# ---------------------------------------------------------------- random generation
def gen(rng, ctx, depth):
    """Random expression; statement-producing forms may appear in any slot."""
    F = ctx.forms
    leafs = [k for k in ("lit", "var", "eff") if k in F]
    if ctx.in_loop:
        leafs += [k for k in ("break", "continue") if k in F] and (["break", "continue"] if rng.random() < 0.15 else [])
    if depth <= 0 or rng.random() < 0.12:
        k = rng.choice(leafs)
    else:
        comp = sorted(k for k in F if k not in ("lit", "var", "eff", "break", "continue"))
        if not ctx.in_fn:
            comp = [k for k in comp if k != "return"]
        if ctx.depth_fn >= 2:
            comp = [k for k in comp if k not in ("fn", "defn")]
        if ctx.in_handler:
            comp = [k for k in comp if k not in ("fn", "defn")]
        k = rng.choice(comp) if comp else rng.choice(leafs)
    g = lambda c=ctx, d=depth - 1: gen(rng, c, d)
    many = lambda lo, hi, c=ctx: [gen(rng, c, depth - 1) for _ in range(rng.randint(lo, hi))]
    name = lambda: rng.randint(1, ctx.nv)
    if k == "lit":
        return lit(rng.choice(LITS))
    if k == "var":
        return V(name())
    if k == "eff":
        return T("eff", 0)
    if k == "eff1":
        return T("eff", 0, [g()])
    if k in ("break", "continue"):
        return T(k)
    if k == "do":
        return T("do", 0, many(0, 3))
    if k == "if":
        return T("if", 0, [g(), g(), g()])
    if k == "when":
        return T("when", 0, [g()] + many(0, 2))
    if k == "cond":
        return T("cond", 0, [g() for _ in range(2 * rng.randint(0, 2))])
    if k in ("and", "or"):
        return T(k, 0, many(0, 3))
    if k == "not":
        return T("not", 0, [g()])
    if k == "setv":
        return T("setv", 0, [V(name()), g()])
    if k == "setv2":
        return T("setv", 0, [V(name()), g(), V(name()), g()])
    if k == "setvpat":
        return T("setv", 0, [T("pat", 0, [V(name()), V(name())]), T("args", "list", [g(), g()])])
    if k == "setx":
        return T("setx", 0, [V(name()), g()])
    if k in ("list", "tuple", "+"):
        return T("args", k, many(0, 3))
    if k == "-":
        return T("args", k, many(1, 3))
    if k in ("<", "="):
        return T("args", k, [g(), g()])
    if k in ("let", "let2"):
        nb = 1 if k == "let" else 2
        ch, c = [], ctx
        for _ in range(nb):
            x = name()
            ch += [V(x), gen(rng, c, depth - 1)]
            c = c.but(letbound=c.letbound | {x})
        return T("let", nb, ch + [gen(rng, c, depth - 1) for _ in range(rng.randint(0, 2))])
    if k in ("fn", "defn"):
        np_ = rng.randint(0, 2)
        ps = rng.sample(range(1, ctx.nv + 1), np_)
        c = ctx.but(in_fn=True, in_loop=False, letbound=ctx.letbound - set(ps), depth_fn=ctx.depth_fn + 1)
        body = T("do", 0, [gen(rng, c, depth - 1) for _ in range(rng.randint(0, 2))])
        if k == "fn":
            return T("fn", np_, [V(p) for p in ps] + [body])
        free = [x for x in range(1, ctx.nv + 1) if x not in ctx.letbound]
        if not free:
            return T("fn", np_, [V(p) for p in ps] + [body])
        return T("defn", np_, [V(rng.choice(free))] + [V(p) for p in ps] + [body])
    if k == "call":
        callee = V(name()) if rng.random() < 0.6 else gen(rng, ctx.but(forms=ctx.forms & {"fn", "var", "if", "do"} or {"var"}), depth - 1)
        return T("call", 0, [callee] + many(0, 2))
    if k == "return":
        return T("return", 0, many(0, 1))
    if k == "raise":
        return T("raise", 0, [lit(["exc", rng.choice([1, 2, 3]), []])])
    if k == "while":
        c = ctx.but(in_loop=True)
        cc = ctx.but(in_loop=False)   # break/continue in the condition could loop without effects
        cond = rng.choice([
            lambda: T("eff", 0),
            lambda: T("do", 0, [gen(rng, cc, depth - 1), T("eff", 0)]),
            lambda: T("and", 0, [T("eff", 0), gen(rng, cc, depth - 1)])])()
        body = [gen(rng, c, depth - 1) for _ in range(rng.randint(0, 2))]
        if rng.random() < 0.3:
            body.append(T("else", 0, [gen(rng, ctx, depth - 1) for _ in range(rng.randint(1, 2))]))
        return T("while", 0, [cond] + body)
    if k == "for":
        c = ctx.but(in_loop=True)
        body = [gen(rng, c, depth - 1) for _ in range(rng.randint(0, 2))]
        if rng.random() < 0.3:
            body.append(T("else", 0, [gen(rng, ctx, depth - 1) for _ in range(rng.randint(1, 2))]))
        it = lit(rng.choice([["list", 0, []], ["list", 0, [V_INT(1), V_INT(2)]]])) if rng.random() < 0.5 else g()
        return T("for", 0, [V(name()), it] + body)
    if k == "try":
        body = many(1, 2)
        cl = []
        for _ in range(rng.randint(0, 2)):
            hv = rng.random() < 0.5
            ts = rng.choice([[], [1], [2], [3], [1, 3], [10], [11]])
            if hv and not ts:
                ts = [1]     # `[v []]` means "catch nothing"; catch-all takes no variable
            x = name()
            c = ctx.but(in_handler=True, letbound=ctx.letbound | {x}) if hv else ctx
            hb = [gen(rng, c, depth - 1) for _ in range(rng.randint(0, 2))]
            cl.append(T("except", 0, ([V(x)] if hv else []) + hb, ts=ts, hv=int(hv)))
        if cl and rng.random() < 0.4:
            cl.append(T("else", 0, many(1, 2)))
        if not cl or rng.random() < 0.5:
            c = ctx.but(in_loop=False)   # no break/continue out of finally
            cl.append(T("finally", 0, [gen(rng, c, depth - 1) for _ in range(rng.randint(1, 2))]))
        return T("try", 0, body + cl)
    if k == "with":
        tgt = V(name()) if rng.random() < 0.6 else T("nov")
        if rng.random() < 0.3:
            # two managers in one form; the second may need statements
            mgr2 = T("cm", 0) if rng.random() < 0.4 else T("do", 0, [g(), T("cm", 0)])
            tgt2 = V(name()) if rng.random() < 0.6 else T("nov")
            inner = T("with", 0, [tgt2, mgr2] + many(0, 2))
            return T("with", 0, [tgt, T("cm", 0), inner], merge=1)
        return T("with", 0, [tgt, T("cm", 0)] + many(0, 2))
    raise ValueError(k)


def has_return_in_finally(t, inf=False):
    if t.k in ("return", "break", "continue") and inf:
        return True
    if t.k in ("fn", "defn"):
        inf = False
    return any(has_return_in_finally(c, inf or t.k == "finally") for c in t.ch)


def number(t):
    """Assign site ids (preorder) and cm ids; returns (nsites, ncms)."""
    cnt = [0, 0]

    def w(t):
        if t.k == "eff":
            cnt[0] += 1
            t.a = cnt[0]
        if t.k == "cm":
            cnt[1] += 1
            t.a = cnt[1]
        for c in t.ch:
            w(c)
    w(t)
    return cnt


def while_cond_sites(t, out=None, inside=False):
    out = set() if out is None else out
    if t.k == "eff" and inside:
        out.add(t.a)
    for i, c in enumerate(t.ch):
        while_cond_sites(c, out, inside or (t.k == "while" and i == 0))
    return out


def merged_outer_cms(t, out=None):
    """cm ids of managers that are followed by another manager in the same `with` form"""
    out = set() if out is None else out
    if t.k == "with" and t.x.get("merge") and t.ch[1].k == "cm":
        out.add(t.ch[1].a)
    for c in t.ch:
        merged_outer_cms(c, out)
    return out


def make_script(rng, t, ns, ncm, merged_suppress=False, boxes=True):
    wc = while_cond_sites(t)
    sc = {}
    for k in range(1, ns + 1):
        n = rng.randint(1, 3)
        vals = [rng.choice(SCRIPT_POOL) for _ in range(n)]
        if boxes and ns >= 2 and rng.random() < 0.15:
            # an object whose truthiness flips whenever some (other) site is called
            vals[rng.randrange(n)] = ["box", rng.choice([x for x in range(1, ns + 1) if x != k]), []]
        if k in wc:
            vals[-1] = rng.choice(FALSY)
        sc[k] = vals
    for c in range(1, ncm + 1):
        sc[ns + 2 * c - 1] = [rng.choice(SCRIPT_POOL)]
        sc[ns + 2 * c] = [V_NONE]
    supp = {c: rng.randint(0, 1) for c in range(1, ncm + 1)}
    if not merged_suppress:
        # known finding (C09): a later manager's __exit__ raising after the body finished, suppressed
        # by an earlier manager of the same form; only the C09 check exercises that situation
        for c in merged_outer_cms(t):
            supp[c] = 0
    return sc, supp


def random_program(rng, forms, depth, nv=4, top=(1, 3)):
    ctx = Ctx(forms=forms, nv=nv)
    while True:
        t = T("do", 0, [gen(rng, ctx, depth) for _ in range(rng.randint(*top))])
        if has_return_in_finally(t):
            continue
        if t.size() > 70:
            continue
        return t


# ---------------------------------------------------------------- exhaustive enumeration
def splits(n, k, lo=1):
    """all ways to write n as ordered sum of k parts >= lo"""
    if k == 0:
        if n == 0:
            yield ()
        return
    for first in range(lo, n - lo * (k - 1) + 1):
        for rest in splits(n - first, k - 1, lo):
            yield (first,) + rest


class Enum:
    """All expression trees with exactly n nodes over a form set (sites
    unnumbered).  Small literal / name pools keep the space meaningful."""

    def __init__(self, forms, nv=2, lits=(V_NONE, V_INT(0), V_INT(1))):
        self.forms, self.nv, self.lits = forms, nv, lits
        self.memo = {}

    def exprs(self, n, in_fn=False, in_loop=False):
        key = (n, in_fn, in_loop)
        if key not in self.memo:
            self.memo[key] = list(self._exprs(n, in_fn, in_loop))
        return self.memo[key]

    def seqs(self, n, cnt, in_fn, in_loop):
        """sequences of cnt expressions with n nodes in total"""
        for sp in splits(n, cnt):
            for combo in itertools.product(*[self.exprs(s, in_fn, in_loop) for s in sp]):
                yield list(combo)

    def _exprs(self, n, in_fn, in_loop):
        F = self.forms
        ex = lambda m: self.exprs(m, in_fn, in_loop)
        if n == 1:
            if "lit" in F:
                for v in self.lits:
                    yield lit(v)
            if "var" in F:
                for x in range(1, self.nv + 1):
                    yield V(x)
            if "eff" in F:
                yield T("eff", 0)
            if in_loop:
                for k in ("break", "continue"):
                    if k in F:
                        yield T(k)
            for k in ("do", "and", "or", "cond"):
                if k in F:
                    yield T(k)
            for k in ("list", "+"):
                if k in F:
                    yield T("args", k)
            if in_fn and "return" in F:
                yield T("return")
            return
        m = n - 1
        if "eff1" in F:
            for c in ex(m):
                yield T("eff", 0, [c])
        if "not" in F:
            for c in ex(m):
                yield T("not", 0, [c])
        for k in ("do", "and", "or"):
            if k in F:
                for cnt in range(1, min(m, 3) + 1):
                    for s in self.seqs(m, cnt, in_fn, in_loop):
                        yield T(k, 0, s)
        for k in ("list", "+", "-", "tuple"):
            if k in F:
                for cnt in range(1, min(m, 3) + 1):
                    for s in self.seqs(m, cnt, in_fn, in_loop):
                        yield T("args", k, s)
        for k in ("<", "="):
            if k in F and m >= 2:
                for s in self.seqs(m, 2, in_fn, in_loop):
                    yield T("args", k, s)
        if "if" in F and m >= 3:
            for s in self.seqs(m, 3, in_fn, in_loop):
                yield T("if", 0, s)
        if "when" in F:
            for cnt in range(1, min(m, 3) + 1):
                for s in self.seqs(m, cnt, in_fn, in_loop):
                    yield T("when", 0, s)
        if "cond" in F:
            for cnt in (2, 4):
                if m >= cnt:
                    for s in self.seqs(m, cnt, in_fn, in_loop):
                        yield T("cond", 0, s)
        if "setv" in F and m >= 2:
            for x in range(1, self.nv + 1):
                for c in ex(m - 1):
                    yield T("setv", 0, [V(x), c])
        if "setx" in F and m >= 2:
            for x in range(1, self.nv + 1):
                for c in ex(m - 1):
                    yield T("setx", 0, [V(x), c])
        if "let" in F and m >= 2:
            for x in range(1, self.nv + 1):
                for cnt in range(1, min(m - 1, 3) + 1):
                    for s in self.seqs(m - 1, cnt, in_fn, in_loop):
                        yield T("let", 1, [V(x)] + s)
        if "fn" in F and m >= 1:
            # (fn [] body...) and (fn [x] body...)
            for cnt in range(0, min(m - 1, 2) + 1):
                for s in (self.seqs(m - 1, cnt, True, False) if cnt else ([[]] if m == 1 else [])):
                    yield T("fn", 0, [T("do", 0, s)])
            for x in range(1, self.nv + 1):
                for cnt in range(0, min(m - 2, 2) + 1):
                    for s in (self.seqs(m - 2, cnt, True, False) if cnt else ([[]] if m == 2 else [])):
                        yield T("fn", 1, [V(x), T("do", 0, s)])
        if "defn" in F and m >= 2:
            for f in range(1, self.nv + 1):
                for cnt in range(0, min(m - 2, 2) + 1):
                    for s in (self.seqs(m - 2, cnt, True, False) if cnt else ([[]] if m == 2 else [])):
                        yield T("defn", 0, [V(f), T("do", 0, s)])
        if "call" in F:
            for cnt in range(1, min(m, 2) + 1):
                for s in self.seqs(m, cnt, in_fn, in_loop):
                    if s[0].k in ("var", "fn", "if", "do", "call", "let"):
                        yield T("call", 0, s)
        if "return" in F and in_fn:
            for c in ex(m):
                yield T("return", 0, [c])
        if "raise" in F and m == 1:
            for ty in (1, 3):
                yield T("raise", 0, [lit(["exc", ty, []])])
        if "while" in F:
            # condition is always an effect site so that every loop is script-driven
            for cnt in range(0, min(m - 1, 2) + 1):
                for s in (self.seqs(m - 1, cnt, in_fn, True) if cnt else ([[]] if m == 1 else [])):
                    yield T("while", 0, [T("eff", 0)] + s)
        if "for" in F and m >= 2:
            for x in range(1, self.nv + 1):
                for cnt in range(1, min(m - 1, 3) + 1):
                    for sp in splits(m - 1, cnt):
                        for it in self.exprs(sp[0], in_fn, in_loop):
                            for rest in itertools.product(*[self.exprs(z, in_fn, True) for z in sp[1:]]):
                                yield T("for", 0, [V(x), it] + list(rest))
        if "try" in F and m >= 3:
            # (try body (except [T] h)) / (try body (finally f)) / both
            for sp in splits(m, 2):
                if sp[1] < 2:
                    continue
                for b in ex(sp[0]):
                    for h in ex(sp[1] - 1):
                        yield T("try", 0, [b, T("except", 0, [h], ts=[1], hv=0)])
                        yield T("try", 0, [b, T("finally", 0, [h])])
                    if sp[1] >= 3:
                        for x in range(1, self.nv + 1):
                            for h in ex(sp[1] - 2):
                                yield T("try", 0, [b, T("except", 0, [V(x), h], ts=[1, 3], hv=1)])
        if "with" in F and m >= 2:
            for cnt in range(0, min(m - 2, 2) + 1):
                for s in (self.seqs(m - 2, cnt, in_fn, in_loop) if cnt else ([[]] if m == 2 else [])):
                    yield T("with", 0, [T("nov"), T("cm", 0)] + s)
            if m >= 3:
                for x in range(1, self.nv + 1):
                    for c in ex(m - 2):
                        yield T("with", 0, [V(x), T("cm", 0), c])


def clone(t):
    return T(t.k, t.a, [clone(c) for c in t.ch], **t.x)
