"""Real hy reader -> the JSON shape of specs/HyReader.tla models."""
import ast


def outcome(text):
    """Read `text` with the real reader: ('ok', [models]) | ('lex'|'eof'|'other', message)"""
    import hy
    from hy.reader.exceptions import LexException, PrematureEndOfInput
    try:
        return "ok", list(hy.read_many(text))
    except PrematureEndOfInput as e:
        return "eof", str(e)
    except LexException as e:
        return "lex", str(e)
    except Exception as e:  # noqa
        return "other:" + type(e).__name__, str(e)


def line_starts(text):
    out = [0]
    for i, c in enumerate(text):
        if c == "\n":
            out.append(i + 1)
    return out


def to_index(text, starts, line, col):
    """1-based (line, col) as the reader reports them -> 1-based character index"""
    if not (1 <= line <= len(starts)):
        return 10 ** 6          # a line the text does not have: reported as a position outside the text
    return starts[line - 1] + col


def conv(m, text, starts, positioned=True):
    """hy model -> spec model dict"""
    import hy.models as M
    t = type(m)
    d = {"t": None, "v": [], "x": [], "ch": [], "p": [0, 0, 0, 0], "ix": [0, 0]}
    if positioned and getattr(m, "start_line", None) is not None:
        d["p"] = [m.start_line, m.start_column, m.end_line, m.end_column]
        d["ix"] = [to_index(text, starts, m.start_line, m.start_column),
                   to_index(text, starts, m.end_line, m.end_column)]
    if t is M.Symbol:
        d["t"], d["v"] = "sym", list(str(m))
    elif t is M.Keyword:
        d["t"], d["v"] = "kw", list(m.name)
    elif t is M.Integer:
        d["t"] = "int"
        d["v"] = ["<int>", int(m)]
    elif t in (M.Float, M.Complex):
        d["t"] = "num"
    elif t is M.String:
        d["t"] = "str"
        d["v"] = ["<val>", str(m)]
        d["x"] = (["#"] + list(m.brackets)) if m.brackets is not None else []
    elif t is M.Bytes:
        d["t"] = "bytes"
        d["v"] = ["<val>", bytes(m).decode("latin-1")]
    elif t is M.FString:
        d["t"] = "fstr"
        d["x"] = (["#"] + list(m.brackets)) if m.brackets is not None else []
        d["is_t"] = bool(getattr(m, "is_tstring", False))
        d["ch"] = [conv(c, text, starts, positioned=False) for c in m]
    elif t is M.FComponent:
        d["t"] = "fcomp"
        d["x"] = [m.conversion] if m.conversion else []
        kids = list(m)
        d["ch"] = [conv(kids[0], text, starts, positioned=True)] + \
                  [conv(c, text, starts, positioned=False) for c in kids[1:]]
    else:
        d["t"] = {M.Expression: "expr", M.List: "list", M.Dict: "dict", M.Set: "set", M.Tuple: "tuple"}[t]
        d["ch"] = [conv(c, text, starts, positioned) for c in m]
    return d


def decode_body(raw, pre, fstring_part=False):
    """Value of a "..." literal body per CPython (the reference for escape decoding)."""
    s = "".join(raw).replace("\r\n", "\n").replace("\r", "\n")
    if fstring_part:
        s = s.replace("{{", "{").replace("}}", "}")
    isb = "b" in pre
    israw = "r" in pre
    lit = ("b" if isb else "") + ("r" if israw else "") + '"""' + s.replace('"""', '\\"\\"\\"') + '"""'
    # a body ending in an unescaped quote / backslash subtleties: use a safe construction
    try:
        if israw:
            v = s.encode("ascii") if isb else s
        else:
            import codecs
            v = codecs.escape_decode(s.encode("ascii"))[0] if isb else \
                s.encode("ISO-8859-1", errors="backslashreplace").decode("unicode_escape")
        return v
    except Exception as e:  # undecodable: the reader must reject it
        return ("<undecodable>", type(e).__name__)


def same(spec, real, text):
    """Compare a spec model (from TLC JSON) with the converted real model."""
    if spec["t"] != real["t"]:
        return f"type {spec['t']} vs {real['t']}"
    if spec["ix"] != [0, 0] and real["ix"] != [0, 0]:
        if spec["ix"] != real["ix"] or spec["p"] != real["p"]:
            return f"position {spec['p']} vs {real['p']} for {spec['t']}"
    t = spec["t"]
    if t in ("sym", "kw"):
        if spec["v"] != real["v"]:
            return f"text {spec['v']} vs {real['v']}"
    elif t == "int":
        if int("".join(spec["v"])) != real["v"][1]:
            return f"int {spec['v']} vs {real['v']}"
    elif t in ("str", "bytes"):
        brackets = spec["x"][1:] if spec["x"] and spec["x"][0] == "#" else None
        pre = list(spec["x"]) if brackets is None else ["r"]
        want = decode_body(spec["v"], pre if brackets is None else ["r"])
        if isinstance(want, tuple):
            return f"reader accepted an undecodable body {spec['v']}"
        if t == "bytes":
            want = want.decode("latin-1") if isinstance(want, bytes) else want
        if want != real["v"][1]:
            return f"value {want!r} vs {real['v'][1]!r}"
        if t == "str":
            rb = real["x"][1:] if real["x"] else None
            if (brackets is None) != (rb is None) or (brackets is not None and brackets != rb):
                return f"brackets {brackets} vs {rb}"
    elif t == "fcomp":
        if spec["x"] != real["x"]:
            return f"conversion {spec['x']} vs {real['x']}"
    if t in ("fstr",):
        brackets = spec["x"][1:] if spec["x"] and spec["x"][0] == "#" else None
        rb = real["x"][1:] if real["x"] else None
        if (brackets is None) != (rb is None) or (brackets is not None and brackets != rb):
            return f"brackets {brackets} vs {rb}"
    if t in ("fstr", "fcomp"):
        # literal parts are compared by decoded value
        sch, rch = spec["ch"], real["ch"]
        if len(sch) != len(rch):
            return f"{t}: {len(sch)} vs {len(rch)} components"
        for a, b in zip(sch, rch):
            if a["t"] == "str" and b["t"] == "str":
                pre = [c for c in (spec["x"] or []) if c != "#"] if t == "fstr" and not brackets else ["r"]
                want = decode_body(a["v"], ["r"] if (t == "fstr" and brackets is not None) else
                                   [c for c in (spec.get("_pre") or [])], fstring_part=True)
                # prefix of the enclosing literal is not known at fcomp level: accept either decoding
                alt = decode_body(a["v"], ["r"], fstring_part=True)
                if b["v"][1] not in (want, alt):
                    return f"f-string text {want!r} vs {b['v'][1]!r}"
            else:
                r = same(a, b, text)
                if r:
                    return r
        return None
    if len(spec["ch"]) != len(real["ch"]):
        return f"{t}: {len(spec['ch'])} vs {len(real['ch'])} children"
    for a, b in zip(spec["ch"], real["ch"]):
        r = same(a, b, text)
        if r:
            return r
    return None
