"""C32 / C33: hy.mangle and hy.unmangle against specs/HyMangle.tla.

TLC checks the laws on every abstract class string; the table it exports is
concretised for every Unicode code point in several positional contexts and
compared with the real functions; the Unicode assumptions the laws rest on are
discharged (or their counterexamples listed) over all 1,114,112 code points."""
import json
import multiprocessing as mp
import random
import re
import sys
import unicodedata

from .. import tlc
from ..core import MachineryError

ALLC = ["S", "K", "C", "M", "W", "Q", "H", "U", "V", "X", "N", "Z"]
UNDERLIKE = "_︳︴﹍﹎﹏＿"
NAME_RE = re.compile(r"[_a-z0-9H]+\Z")
# contexts: (template of fixed chars with "?" for the swept char)
CONTEXTS = ["?", "a?", "-?", "_?", "?-", "?a", "a.?", "-?-"]
FIXED = {"a": "S", "-": "H", "_": "U", ".": "D"}


def classify(c):
    if c == "_":
        return "U"
    if c in UNDERLIKE:
        return "V"
    if c == "-":
        return "H"
    if c == "X":
        return "X"
    if c == ".":
        return "D"
    nf = unicodedata.normalize("NFKC", c)
    if c.isidentifier():
        if nf == c:
            return "S"
        return "Q" if "X" in nf else "K"
    if ("S" + c).isidentifier():
        if "X" in nf:
            return "Q"
        if unicodedata.normalize("NFKC", "X" + c)[:1] != "X":
            return "W"
        return "M" if unicodedata.combining(c) or unicodedata.category(c).startswith("M") else "C"
    return "N" if unicodedata.name(c, "") else "Z"


def esc(c):
    n = unicodedata.name(c, "").lower().replace("-", "H").replace(" ", "_") or "U{:x}".format(ord(c))
    return "X" + n + "X"


def concretize(tokens, chars):
    """tokens (from the TLC table) + the concrete input characters -> string"""
    out = []
    k = 0
    for t in tokens:
        if t["t"] == "hyx":
            out.append("hyx_")
            continue
        c = chars[k]
        k += 1
        if t["t"] == "us":
            out.append("_")
        elif t["t"] == "dot":
            out.append(".")
        elif t["t"] == "x":
            out.append("X")
        elif t["t"] == "esc":
            out.append(esc(c))
        else:
            out.append(c)
    return unicodedata.normalize("NFKC", "".join(out))


_TABLE = None


def _init(table):
    global _TABLE
    _TABLE = table
    from ..core import REPO
    sys.path.insert(0, str(REPO))


def check_name(s, chars_cls, want_spec=True):
    """Returns list of (law, detail) failures for the real functions on s, and
    whether the spec table predicted the output."""
    import hy
    fails = []
    try:
        m = hy.mangle(s)
    except Exception as e:
        return [("C32:raises", f"mangle raised {type(e).__name__}: {e}")], None
    parts_ok = all(p.isidentifier() for p in m.split(".") if p) if "." in s and s.strip(".") else m.isidentifier()
    if not parts_ok:
        fails.append(("C32:identifier", f"mangle -> {m!r} is not an identifier"))
    if unicodedata.normalize("NFKC", m) != m:
        fails.append(("C32:nfkc", f"mangle -> {m!r} is not NFKC-normal"))
    if "." not in s:
        lead = len(s) - len(s.lstrip(UNDERLIKE))     # underscores and the characters NFKC maps to one
        if len(m) - len(m.lstrip("_")) != lead and s.lstrip(UNDERLIKE):
            fails.append(("C32:leading", f"mangle -> {m!r} changes the number of leading underscores"))
        if s.isidentifier() and unicodedata.normalize("NFKC", s) == s and m != s:
            fails.append(("C32:identity", f"mangle -> {m!r} changes an NFKC-normal identifier"))
    try:
        if hy.mangle(m) != m:
            fails.append(("C32:idempotent", f"mangle(mangle) = {hy.mangle(m)!r} != {m!r}"))
    except Exception as e:
        fails.append(("C32:idempotent", f"mangle(mangle) raised {e!r}"))
    if "." in s and s.strip("."):
        want = ".".join(hy.mangle(p) if p else "" for p in s.split("."))
        if m != want:
            fails.append(("C32:dots", f"mangle -> {m!r}, parts mangled separately give {want!r}"))
    # C33
    body = s.lstrip(UNDERLIKE)
    if "." not in s and not body.startswith("hyx_"):
        try:
            u = hy.unmangle(m)
            try:
                m2 = hy.mangle(u) if u else None
            except Exception as e:
                m2 = f"<raised {type(e).__name__}>"
            if m2 != m:
                fails.append(("C33:roundtrip", f"mangle={m!r} unmangle={u!r} mangle again={m2!r}"))
        except Exception as e:
            fails.append(("C33:raises", f"unmangle({m!r}) raised {type(e).__name__}: {e}"))
    predicted = None
    if want_spec:
        row = _TABLE.get("".join(chars_cls))
        if row is not None:
            predicted = concretize(row, list(s)) == m
    return fails, predicted


def sweep(args):
    lo, hi, contexts = args
    out = []       # (codepoint, context, law, detail)
    stats = {"cases": 0, "predicted": 0, "mismatch": 0}
    classes = {}
    assumption = {"A1": [], "A2": [], "A3": [], "A4": []}
    for cp in range(lo, hi):
        if 0xD800 <= cp <= 0xDFFF:
            continue
        c = chr(cp)
        cl = classify(c)
        classes[cl] = classes.get(cl, 0) + 1
        nf = unicodedata.normalize("NFKC", c)
        if cl in ("S", "K", "Q") and not nf.isidentifier():
            assumption["A1"].append(cp)
        if cl in ("C", "M") and not ("a" + nf).isidentifier():
            assumption["A1"].append(cp)
        if cl == "N" and not NAME_RE.match(unicodedata.name(c).lower().replace("-", "H").replace(" ", "_")):
            assumption["A2"].append(cp)
        if cl == "Q":
            assumption["A3"].append(cp)
        if cl == "W":
            assumption["A4"].append(cp)
        for ctx in contexts:
            s = ctx.replace("?", c)
            cls = [FIXED.get(ch, None) if ch != "?" else cl for ch in ctx]
            fails, pred = check_name(s, cls)
            stats["cases"] += 1
            if pred is True:
                stats["predicted"] += 1
            elif pred is False:
                stats["mismatch"] += 1
                if len(out) < 200:
                    out.append((cp, ctx, "spec", "real mangle differs from the concretised spec"))
            for law, d in fails:
                out.append((cp, ctx, law, d))
    return out, stats, classes, assumption


def run_engine(run, which):
    rng = random.Random(run.seed)
    q = run.quick
    # ---- TLC: the laws on abstract class strings
    laws = ["ResultIsIdentifier", "LeadingUnderscoresKept", "IdentityOnNormalIdentifiers", "Idempotent"]
    r = tlc.run("HyMangle", tlc.cfg(constants={"Classes": set(ALLC), "MaxLen": 4 if q else 5, "EscapeQ": True},
                                    invariants=laws + ["RoundTrip"]), run.work, workers=16, label="laws")
    if r.violated:
        raise MachineryError(f"HyMangle law {r.violated} fails")
    run.add_tlc(r, "HyMangle: C32 laws + RoundTrip on all class strings")
    r = tlc.run("HyMangle", tlc.cfg(constants={"Classes": set(ALLC), "MaxLen": 3, "EscapeQ": False},
                                    invariants=["RoundTrip"]), run.work, workers=16, label="rtQ")
    if r.violated != "RoundTrip":
        raise MachineryError("negative control: RoundTrip should fail when Q/W characters are not escaped")
    run.add_tlc(r, "negative control: RoundTrip must fail if characters normalising to / composing with the "
                   "delimiter are kept unescaped (behaviour before the fix)")
    r = tlc.run("HyMangle", tlc.cfg(constants={"Classes": set(ALLC) | {"D"}, "MaxLen": 3, "EscapeQ": True},
                                    invariants=["DotsPartwise", "Export"]), run.work, workers=16, label="table")
    if r.violated:
        raise MachineryError(f"HyMangle: {r.violated}")
    run.add_tlc(r, "HyMangle: table export (all class strings <= 3 incl. dots)")
    table = {"".join(row["s"]): row["m"] for row in r.ex("ROW")}
    run.log(f"spec table: {len(table)} class strings")
    # ---- all code points
    full_ctx = CONTEXTS if not q else CONTEXTS[:2]
    jobs = [(lo, min(lo + 0x2000, 0x110000), full_ctx) for lo in range(0, 0x110000, 0x2000)]
    if q:  # BMP in all contexts
        jobs += [(lo, lo + 0x1000, CONTEXTS[2:]) for lo in range(0, 0x10000, 0x1000)]
    with mp.Pool(16, initializer=_init, initargs=(table,)) as pool:
        results = pool.map(sweep, jobs, chunksize=1)
    stats = {"cases": 0, "predicted": 0, "mismatch": 0}
    classes = {}
    assumption = {"A1": set(), "A2": set(), "A3": set(), "A4": set()}
    fails = []
    for out, st, cl, asm in results:
        for k in stats:
            stats[k] += st[k]
        for k, v in cl.items():
            classes[k] = classes.get(k, 0) + v
        for k, v in asm.items():
            assumption[k] |= set(v)
        fails += out
    run.log(f"sweep: {stats}")
    run.cov["evaluations"] = stats["cases"]
    run.cov["distinct_nontrivial"] = stats["cases"]
    run.cov["traces_validated_against_impl"] = stats["predicted"]
    run.cov["spec_mismatches"] = stats["mismatch"]
    run.cov["code_points_by_class"] = classes
    run.cov["assumption_counterexamples"] = {k: [f"U+{x:04X}" for x in sorted(v)[:40]] for k, v in assumption.items()}
    run.cov["assumption_counterexample_counts"] = {k: len(v) for k, v in assumption.items()}
    want = "C32" if which == "C32" else "C33"
    nspec = 0
    for cp, ctx, law, d in fails:
        if law == "spec":
            nspec += 1
            if nspec <= 5:
                run.notes.append(f"spec mismatch U+{cp:04X} in {ctx!r}")
            continue
        if law.startswith(want):
            run.violation(f"U+{cp:04X}:{ctx}", f"{law} U+{cp:04X} in context {ctx!r}: {d}",
                          {"codepoint": cp, "context": ctx, "name": ctx.replace("?", chr(cp))})
    # ---- random multi-class names
    reps = {}
    for cp in list(range(0x20, 0x3000)) + [0xFF38, 0xFF3F, 0x1D525, 0xE000, 0x1F980, 0x2169, 0x0307, 0x0301]:
        reps.setdefault(classify(chr(cp)), []).append(chr(cp))
    _init(table)
    nrand = 0
    for _ in range(20000 if q else 400000):
        n = rng.randint(1, 6)
        cls = [rng.choice(ALLC + ["D", "H", "U", "S", "S"]) for _ in range(n)]
        s = "".join(rng.choice(reps[c]) for c in cls)
        if not s.strip("."):
            continue
        fl, pred = check_name(s, cls, want_spec=len(cls) <= 3)
        nrand += 1
        for law, d in fl:
            if law.startswith(want):
                run.violation("name:" + s, f"{law} for {s!r}: {d}", {"name": s})
    # long names: the laws are about names of any length (runs of one class, many escapes in one name)
    nlong = 0
    for _ in range(2000 if q else 40000):
        n = rng.choice([8, 15, 16, 17, 18, 24, 33, 40, 65, 100])
        if rng.random() < 0.5:
            c0 = rng.choice(ALLC + ["H", "U", "S"])
            cls = [c0] * n
            if rng.random() < 0.5:
                cls[rng.randrange(n)] = rng.choice(ALLC)
        else:
            cls = [rng.choice(ALLC + ["H", "U", "S", "S", "S"]) for _ in range(n)]
        s = "".join(rng.choice(reps[c]) for c in cls)
        if not s.strip("."):
            continue
        fl, pred = check_name(s, cls, want_spec=False)
        nlong += 1
        for law, d in fl:
            if law.startswith(want):
                run.violation("name:" + s, f"{law} for {s!r}: {d}", {"name": s})
    nrand += nlong
    run.cov["long_names"] = nlong
    run.cov["evaluations"] += nrand
    run.cov["random_names"] = nrand
    run.sample({"name": "a-" + chr(0x1F980), "classes": ["S", "H", "N"], "spec_tokens": table.get("SHN")})
    run.sample({"name": "_-x", "spec_tokens": table.get("UHS")})
    return run.finish("model_checking",
                      "every Unicode code point (exhaustive, 1,112,064 scalar values) in %d positional contexts "
                      "(quick: 2 contexts for all planes + 8 for the BMP) + random names over all classes, also 8 to 100 characters long "
                      "(runs of one class, many escapes); each case is "
                      "one name given to the real mangle/unmangle, checked against the laws and the concretised spec "
                      "table" % len(CONTEXTS),
                      assumptions=["unicodedata (names, NFKC) and str.isidentifier are the Unicode reference",
                                   "A1-A4 of HyMangle.tla: counterexample code points are listed in the evidence"],
                      extra={"exhaustive": True})


def main(run):
    return run_engine(run, run.pid)


def replay(run, path):
    import hy
    d = json.load(open(path))["replay"]
    s = d["name"]
    m = hy.mangle(s)
    print(repr(s), "->", repr(m), "->", repr(hy.unmangle(m)), "->", repr(hy.mangle(hy.unmangle(m))))
    return 0
