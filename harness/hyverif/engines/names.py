"""C34: a Hy name is the same Python identifier in every construct (HyNames.tla over HyMangle.tla)."""
import contextlib
import json
import random
import sys
import types

from .. import tlc
from ..core import MachineryError, pmap

CH = {"S": "a", "H": "-", "U": "_", "N": "!"}


LETTER = ["a"]      # the letter that stands for class S: "a", or an identifier character that NFKC changes


def text(n):
    return "".join(LETTER[0] if c == "S" else CH[c] for c in n)


def definer(c, N, V):
    return {
        "setv": f"(setv {N} {V})",
        "defn": f"(defn {N} [] {V})",
        "defclass": f"(defclass {N} [] (setv v {V}))",
        "import-as": f"(import hyv_const [c{V} :as {N}])",
        "import-module-as": f"(import hyv_const{V} :as {N})",
        "for": f"(for [{N} [{V}]])",
        "with-as": f"(with [{N} (cm {V})])",
        "setx": f"(setx {N} {V})",
        "global-setv": f"(defn hyv-g{V} [] (global {N}) (setv {N} {V}))\n(hyv-g{V})",
        "let-free-setv": f"(let [hyv-q 0] (setv {N} {V}))",
        "setv-try": f"(setv {N} (try {V} (except [ValueError] 0)))",
        "setv-if-stmt": f"(setv {N} (if True (do (setv hyv-q 0) {V}) 0))",
        "setx-try": f"(setv hyv-q (setx {N} (try {V} (except [ValueError] 0))))",
        "aug-assign": f"(setv {N} 0)\n(+= {N} {V})",
        "match-capture": f"(match {V} {N} None)",
        "del-then-setv": f"(setv {N} 0)\n(del {N})\n(setv {N} {V})",
        "nonlocal-setv": f"(defn hyv-o{V} [] (setv {N} 0) (defn hyv-i [] (nonlocal {N}) (setv {N} {V})) (hyv-i) {N})\n(setv {N} (hyv-o{V}))",
        "defmacro": f"(defmacro {N} [] {V})",
        "param": f"(defn hyv-f [{N}] {N})",
        "kwarg": f"(setv hyv-d (hyv-k :{N} {V}))",
        "dict-mangled": f'(setv hyv-d {{(hy.mangle "{N}") {V}}})',
        "setv-dotted": f"(setv o.{N} (Val {V}))",
        "setv-dot-form": f"(setv (. o {N}) (Val {V}))",
        "class-body": f"(defclass hyv-K [] (setv {N} (Val {V})))\n(setv o (hyv-K))",
        "method": f"(defclass hyv-K [] (defn {N} [self] {V}))\n(setv o (hyv-K))",
        "setattr": f'(setattr o (hy.mangle "{N}") (Val {V}))',
    }[c]


def user(c, N):
    return {
        "read": f"(setv hyv-out {N})",
        "call-arg": f"(setv hyv-out (hyv-id {N}))",
        "fstring": f'(setv hyv-out (int f"{{(hyv-r {N})}}"))',
        "dotted-head": f"(setv hyv-out {N}.real)",
        "global-read": f"(defn hyv-h [] (global {N}) {N})\n(setv hyv-out (hyv-h))",
        "del": f'(del {N})\n(setv hyv-out (if (in (hy.mangle "{N}") (globals)) "still there" "deleted"))',
        "macro-call": f"(setv hyv-out ({N}))",
        "kw-call": f"(setv hyv-out (hyv-f :{N} 1))",
        "keyword-lookup": f"(setv hyv-out (:{N} hyv-d))",
        "get-mangled": f'(setv hyv-out (get hyv-d (hy.mangle "{N}")))',
        "dotted": f"(setv hyv-out o.{N})",
        "dot-form": f"(setv hyv-out (. o {N}))",
        "method-call": f"(setv hyv-out (.{N} o))",
        "dotted-call": f"(setv hyv-out (o.{N}))",
        "dot-form-call": f"(setv hyv-out (. o ({N})))",
        "getattr": f'(setv hyv-out (getattr o (hy.mangle "{N}")))',
    }[c]


INT_VALUED = {"setv", "import-as", "for", "with-as", "setx", "global-setv", "let-free-setv", "setv-try", "setv-if-stmt",
              "setx-try", "aug-assign", "match-capture", "del-then-setv", "nonlocal-setv"}


def program(rec):
    lines = [definer(rec["d1"]["c"][0], text(rec["d1"]["n"]), rec["d1"]["v"])]
    if rec["d2"]["c"][0] != "none":
        lines.append(definer(rec["d2"]["c"][0], text(rec["d2"]["n"]), rec["d2"]["v"]))
    lines.append(user(rec["u"]["c"][0], text(rec["u"]["n"])))
    return "\n".join(lines) + "\n"


class Val(int):
    def __call__(self):
        return self


class Obj:
    pass


def recover(x):
    if isinstance(x, bool) or x is None:
        return x
    if isinstance(x, int):
        return int(x)
    if isinstance(x, type) and hasattr(x, "v"):
        return x.v
    if isinstance(x, types.ModuleType):
        return x.hyv_module_value
    if callable(x):
        return recover(x())
    return x


@contextlib.contextmanager
def cm(v):
    yield v


def run_program(text_):
    import hy
    from hy.compiler import hy_compile
    from hy.reader import read_many
    if "hyv_const" not in sys.modules:
        m = types.ModuleType("hyv_const")
        m.c1, m.c2 = 1, 2
        sys.modules["hyv_const"] = m
        for v in (1, 2):
            mv = types.ModuleType(f"hyv_const{v}")
            mv.hyv_module_value = v
            sys.modules[f"hyv_const{v}"] = mv
    mod = types.ModuleType("hyv_names")
    mod.__dict__.update(o=Obj(), cm=cm, Val=Val, hy=hy)
    mod.__dict__["hyv_id"] = lambda x: x
    mod.__dict__["hyv_r"] = recover
    mod.__dict__["hyv_k"] = lambda **kw: kw
    try:
        tree = hy_compile(hy.models.Lazy(read_many(text_, filename="<names>")), mod, filename="<names>", source=text_)
        code = compile(tree, "<names>", "exec")
    except BaseException as x:
        return {"outcome": "compile-error", "msg": f"{type(x).__name__}: {x}"[:300]}
    try:
        exec(code, mod.__dict__)
    except (NameError, AttributeError, KeyError) as x:
        return {"outcome": "missing", "msg": f"{type(x).__name__}: {x}"[:200]}
    except TypeError as x:
        if "unexpected keyword" in str(x) or "missing 1 required" in str(x):
            return {"outcome": "missing", "msg": str(x)[:200]}
        return {"outcome": "error", "msg": f"TypeError: {x}"[:300]}
    except BaseException as x:
        return {"outcome": "error", "msg": f"{type(x).__name__}: {x}"[:300]}
    out = mod.__dict__.get("hyv_out")
    try:
        return {"outcome": "value", "value": recover(out)}
    except (NameError, AttributeError, KeyError) as x:
        return {"outcome": "missing", "msg": str(x)[:200]}


def _one(rec):
    LETTER[0] = rec.get("letter", "a")
    try:
        return run_program(program(rec))
    finally:
        LETTER[0] = "a"


def visible_definer(rec):
    """the definer whose value the use is expected to see (None if nothing)"""
    if rec["expect"] == 0:
        return None
    return rec["d2"]["c"][0] if rec["expect"] == rec["d2"]["v"] and rec["d2"]["c"][0] != "none" else rec["d1"]["c"][0]


def main(run):
    rng = random.Random(run.seed)
    q = run.quick
    r = tlc.run("HyNames", tlc.cfg(invariants=["HyphenIsUnderscore", "Equivalence", "AlwaysIdentifier", "Export"]),
                run.work, workers=16, label="names", timeout=3000)
    if r.violated:
        raise MachineryError(f"HyNames: {r.violated} violated on the specification")
    run.add_tlc(r, "HyNames: 26 defining constructs x 10 names, optionally a second definition, x 16 using constructs x 10 names; "
                   "sameness of names is equality of HyMangle!Mangle")
    rows = r.ex("CASE")
    run.log(f"TLC: {len(rows)} programs")
    rows.sort(key=lambda x: json.dumps(x, sort_keys=True))
    usable = []
    for rec in rows:
        vis = visible_definer(rec)
        uc = rec["u"]["c"][0]
        if uc == "dotted-head" and vis is not None and vis not in INT_VALUED:
            continue     # `.real` only exists on the integer-valued definitions
        usable.append(rec)
    single = [x for x in usable if x["d2"]["c"][0] == "none"]
    double = [x for x in usable if x["d2"]["c"][0] != "none"]
    if q:
        rng.shuffle(double)
        double = double[:14000]
    rows = single + double
    # the same programs with a letter that is a legal identifier character but not NFKC-stable (the micro sign,
    # a fullwidth letter): the identifier of a name is its *normalized* mangling in every construct
    alt = [dict(x, letter=l) for l in ("\u00b5", "\uff58") for x in single] + \
          [dict(x, letter="\u00b5") for x in double[:: (7 if q else 2)]]
    rows = rows + alt
    stats = {"seen": 0, "missing": 0, "pairs": {}}
    for rec, got in zip(rows, pmap(_one, rows)):
        key = json.dumps([rec["d1"], rec["d2"], rec["u"]] + ([rec["letter"]] if "letter" in rec else []), sort_keys=True)
        run.case(key)
        uc = rec["u"]["c"][0]
        if rec["expect"] == 0:
            want = {"outcome": "missing"}
            stats["missing"] += 1
        else:
            want = {"outcome": "value", "value": "deleted" if uc == "del" else rec["expect"]}
            stats["seen"] += 1
        pk = f"{rec['d1']['c'][0]}>{uc}"
        stats["pairs"][pk] = stats["pairs"].get(pk, 0) + 1
        g = {k: v for k, v in got.items() if k != "msg"}
        LETTER[0] = rec.get("letter", "a")
        if g != want:
            prog = program(rec)
            run.violation(key, f"definition via {rec['d1']['c'][0]} of {text(rec['d1']['n'])!r}"
                          + (f", then {rec['d2']['c'][0]} of {text(rec['d2']['n'])!r}" if rec["d2"]["c"][0] != "none" else "")
                          + f", use via {uc} of {text(rec['u']['n'])!r}: observed {got}, specification {want}; program:\n{prog}",
                          {"program": prog, "spec": rec, "got": got, "want": want})
        else:
            run.cov["traces_validated_against_impl"] += 1
    LETTER[0] = "a"
    npairs = len(stats["pairs"])
    stats["pairs"] = npairs
    if stats["seen"] == 0 or stats["missing"] == 0:
        raise MachineryError(f"vacuous: {stats}")
    run.sample({"program": program(rows[len(rows) // 2]), "spec": rows[len(rows) // 2]})
    return run.finish("model_checking",
                      "26 defining constructs (setv, also with a value left in a compiler temporary (try, if with statements), +=, match capture, nonlocal, defn, defclass, import :as, for, with, setx, global, let-free setv, defmacro, "
                      "parameter, keyword argument, mangled dict key, dotted / (. ) / class-body / method / setattr attributes) x 16 "
                      "using constructs (read, argument, f-string field, dotted head, global, del, macro call, keyword call, (:k d), "
                      "mangled get, dotted / (. ) / method call / dotted call / getattr) of the same namespace x 10 names each "
                      "(hyphen vs underscore, leading hyphen / underscore, trailing hyphen, illegal characters; the letter an ASCII one or "
                      "one that NFKC normalization changes), with an optional "
                      "second definition in between; the use must see the last definition whose name mangles to the same "
                      "identifier, else nothing", extra=stats)
