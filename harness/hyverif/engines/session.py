"""C39 (hy.eval and the caller's `hy` entry), C40 (REPL), C41 (hy command)."""
import json
import random

from .. import tlc
from ..core import MachineryError

PROG_TEXT = {
    "value": "(+ 1 2)",
    "compile_error": "(if)",
    "raise": "(/ 1 0)",
    "assign_value": "(setv hy 5) (+ 1 2)",
    "assign_raise": "(setv hy 5) (/ 1 0)",
    "del_value": "(del hy) (+ 1 2)",
    "del_raise": "(del hy) (/ 1 0)",
    "assign_del_raise": "(setv hy 5) (del hy) (/ 1 0)",
}


class Falsy:
    """A distinguishable object that is false."""
    def __bool__(self):
        return False


class LogDict(dict):
    """locals mapping that records writes to the key 'hy'."""
    def __init__(self, *a, **k):
        super().__init__(*a, **k)
        self.ev = []

    def _name(self, v):
        import hy
        if v is hy:
            return "module"
        if v == 5 and type(v) is int:
            return "user"
        return self.names.get(id(v), "other")

    def __setitem__(self, k, v):
        if k == "hy":
            self.ev.append({"op": "set", "val": self._name(v)})
        super().__setitem__(k, v)

    def __delitem__(self, k):
        if k == "hy":
            self.ev.append({"op": "del", "val": ""})
        super().__delitem__(k)

    def pop(self, k, *d):
        if k == "hy" and k in self:
            self.ev.append({"op": "del", "val": ""})
        return super().pop(k, *d)


def main_c39(run):
    import hy
    rng = random.Random(run.seed)
    q = run.quick
    maxcalls = 2 if q else 3
    r = tlc.run("HyEvalApi", tlc.cfg(constants={"MaxCalls": maxcalls},
                                     invariants=["Restored", "ImportVisible", "Export"]),
                run.work, workers=8, coverage=True, label="evalapi")
    if r.violated:
        raise MachineryError(f"HyEvalApi: {r.violated} violated")
    run.add_tlc(r, f"HyEvalApi exhaustive, histories of {maxcalls} calls")
    hists = r.ex("HIST")
    run.log(f"TLC: {r.distinct} states, {len(hists)} complete histories")
    traces = []
    n = 0
    for h in hists:
        for shape in ("globals", "locals", "logged-locals"):
            objs = {"orig_truthy": object(), "orig_falsy": Falsy()}
            init = h["calls"][0]["before"]
            g = {"__name__": "hyverif_eval"}
            if shape == "globals":
                d = g
            elif shape == "locals":
                d = {}
            else:
                d = LogDict()
                d.names = {id(v): k for k, v in objs.items()}
            if init != "absent":
                dict.__setitem__(d, "hy", objs[init])
            for i, call in enumerate(h["calls"]):
                n += 1
                model = hy.read_many(PROG_TEXT[call["prog"]])
                before_present = "hy" in d
                before_obj = d.get("hy")
                if isinstance(d, LogDict):
                    d.ev = []
                try:
                    v = hy.eval(model, g) if shape == "globals" else hy.eval(model, g, d)
                    outcome = "returned"
                except Exception as x:
                    v = x
                    outcome = "raised"
                key = f"{shape}:{init}:" + ",".join(c["prog"] for c in h["calls"][: i + 1])
                run.case(key)
                exp_present = call["after"] != "absent"
                if outcome != call["outcome"]:
                    raise MachineryError(f"model program {call['prog']} {outcome}, spec says {call['outcome']}")
                if outcome == "returned" and v != 3:
                    run.violation("value:" + key, f"hy.eval of {PROG_TEXT[call['prog']]} returned {v!r}, "
                                  "not the last form's value 3", {"history": h, "shape": shape, "call": i})
                now_present = "hy" in d
                if now_present != before_present or (now_present and d["hy"] is not before_obj) \
                        or now_present != exp_present:
                    run.violation("hy-entry:" + key,
                                  f"after hy.eval({PROG_TEXT[call['prog']]!r}) [{outcome}] on a {shape} dict that "
                                  f"{'had' if before_present else 'had no'} hy entry: entry "
                                  f"{'present' if now_present else 'absent'}"
                                  f"{'' if not now_present or d['hy'] is before_obj else ' but a different object'}",
                                  {"history": h, "shape": shape, "call": i})
                if isinstance(d, LogDict):
                    nm = (lambda o: "absent" if o is None else d.names.get(id(o), "other"))
                    traces.append({"init": nm(before_obj) if before_present else "absent",
                                   "prog": call["prog"], "ev": list(d.ev), "outcome": outcome,
                                   "final": nm(d.get("hy")) if "hy" in d else "absent"})
    run.sample({"history": hists[len(hists) // 2]})
    # code -> spec: the writes to the key observed by a logging mapping
    neg = [dict(traces[0], ev=traces[0]["ev"][:-1]) if traces[0]["ev"] else dict(traces[0], outcome="x"),
           dict(traces[1], final="user")]
    tf = run.work / "evaltraces.ndjson"
    with open(tf, "w") as f:
        for t in traces + neg:
            f.write(json.dumps(t) + "\n")
    r = tlc.run("HyEvalApiTrace", tlc.cfg(spec="TSpec", constants={"MaxCalls": 1},
                                          invariants=["TRestored", "Accept"]),
                run.work, workers=4, env={"TRACE_FILE": str(tf)}, label="evaltrace")
    run.add_tlc(r, f"HyEvalApiTrace: {len(traces)} recorded calls")
    acc = {int(x) for x in r.ex("ACC")}
    if len(traces) + 1 in acc or len(traces) + 2 in acc:
        raise MachineryError("negative control accepted by HyEvalApiTrace")
    for i, t in enumerate(traces):
        if i + 1 in acc:
            run.cov["traces_validated_against_impl"] += 1
        else:
            run.violation("trace:" + json.dumps(t, sort_keys=True),
                          f"writes to the caller's hy entry during hy.eval do not follow HyEvalApi: {t}",
                          {"trace": t})
    run.sample({"trace": traces[-1]})
    # "the result is the value of the last evaluated form" on the HyCore corpus, through hy.eval
    from ..corpus import ALL_FORMS, random_program, Enum, clone, number, make_script
    from ..hycore import T
    from . import core as C
    en = Enum({"lit", "var", "eff", "eff1", "do", "if", "and", "or", "setv", "setx", "list", "+", "when", "let",
               "fn", "call", "try", "raise"}, nv=2, lits=(["none", 0, []], ["int", 1, []]))
    trees = [T("do", 0, [x]) for s_ in (2, 3) for x in en.exprs(s_)]
    trees += [random_program(rng, ALL_FORMS, rng.choice([3, 4]), nv=3) for _ in range(150 if q else 4000)]
    cases = C.build_cases(run, trees, rng, 4, 1 if q else 3, mode="hyeval")
    us = C.decide(run, cases, 4, "c39")
    for c in us[-1:]:
        run.sample(C.sample_of(c))
    return run.finish("model_checking",
                      "every history of 2 (thorough 3) hy.eval calls over 8 program kinds (value, compile error, raise, "
                      "assign/delete hy then value/raise) x initial entry {absent, truthy object, falsy object} x dict "
                      "shape {globals only, separate locals, logging locals}: hy entry presence/identity and outcome "
                      "compared with HyEvalApi; writes to the key trace-validated; result value on HyCore programs "
                      "through hy.eval",
                      extra={"exhaustive": True})


def main(run):
    return {"C39": main_c39}[run.pid](run)


def replay(run, path):
    print(open(path).read()[:3000])
    return 1
