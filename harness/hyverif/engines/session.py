"""C39 (hy.eval and the caller's `hy` entry), C40 (REPL), C41 (hy command)."""
import json
import random

from .. import tlc
from ..core import MachineryError

PROG_TEXT = {
    "value": "(+ 1 2)",
    "compile_error": "(if)",
    "raise": "(/ 1 0)",
    "assign_value": "(setv hy 5) (+ 1 2)",
    "assign_raise": "(setv hy 5) (/ 1 0)",
    "del_value": "(del hy) (+ 1 2)",
    "del_raise": "(del hy) (/ 1 0)",
    "assign_del_raise": "(setv hy 5) (del hy) (/ 1 0)",
}


RAISERS_C39 = ["(/ 1 0)", "(raise (KeyboardInterrupt))", "(/ 1 0)", "(raise (SystemExit 3))", "(raise (GeneratorExit))",
               "(raise ((type \"Odd\" #(BaseException) {})))"]


class Falsy:
    """A distinguishable object that is false."""
    def __bool__(self):
        return False


class LogDict(dict):
    """locals mapping that records writes to the key 'hy'."""
    def __init__(self, *a, **k):
        super().__init__(*a, **k)
        self.ev = []

    def _name(self, v):
        import hy
        if v is hy:
            return "module"
        if v == 5 and type(v) is int:
            return "user"
        return self.names.get(id(v), "other")

    def __setitem__(self, k, v):
        if k == "hy":
            self.ev.append({"op": "set", "val": self._name(v)})
        super().__setitem__(k, v)

    def __delitem__(self, k):
        if k == "hy":
            self.ev.append({"op": "del", "val": ""})
        super().__delitem__(k)

    def pop(self, k, *d):
        if k == "hy" and k in self:
            self.ev.append({"op": "del", "val": ""})
        return super().pop(k, *d)


def main_c39(run):
    import hy
    rng = random.Random(run.seed)
    q = run.quick
    maxcalls = 2 if q else 3
    r = tlc.run("HyEvalApi", tlc.cfg(constants={"MaxCalls": maxcalls},
                                     invariants=["Restored", "ImportVisible", "Export"]),
                run.work, workers=8, coverage=True, label="evalapi")
    if r.violated:
        raise MachineryError(f"HyEvalApi: {r.violated} violated")
    run.add_tlc(r, f"HyEvalApi exhaustive, histories of {maxcalls} calls")
    hists = r.ex("HIST")
    run.log(f"TLC: {r.distinct} states, {len(hists)} complete histories")
    traces = []
    n = 0
    for h in hists:
        for shape in ("globals", "locals", "logged-locals"):
            objs = {"orig_truthy": object(), "orig_falsy": Falsy()}
            init = h["calls"][0]["before"]
            g = {"__name__": "hyverif_eval"}
            if shape == "globals":
                d = g
            elif shape == "locals":
                d = {}
            else:
                d = LogDict()
                d.names = {id(v): k for k, v in objs.items()}
            if init != "absent":
                dict.__setitem__(d, "hy", objs[init])
            for i, call in enumerate(h["calls"]):
                n += 1
                # "raises at any point": the exception is an ordinary one, or one that is not an Exception at all
                ptext = PROG_TEXT[call["prog"]].replace("(/ 1 0)", RAISERS_C39[n % len(RAISERS_C39)])
                model = hy.read_many(ptext)
                before_present = "hy" in d
                before_obj = d.get("hy")
                if isinstance(d, LogDict):
                    d.ev = []
                try:
                    v = hy.eval(model, g) if shape == "globals" else hy.eval(model, g, d)
                    outcome = "returned"
                except BaseException as x:
                    v = x
                    outcome = "raised"
                key = f"{shape}:{init}:" + ",".join(c["prog"] for c in h["calls"][: i + 1]) + \
                    (f":{type(v).__name__}" if outcome == "raised" and not isinstance(v, Exception) else "")
                run.case(key)
                exp_present = call["after"] != "absent"
                if outcome != call["outcome"]:
                    raise MachineryError(f"model program {call['prog']} {outcome}, spec says {call['outcome']}")
                if outcome == "returned" and v != 3:
                    run.violation("value:" + key, f"hy.eval of {ptext} returned {v!r}, "
                                  "not the last form's value 3", {"history": h, "shape": shape, "call": i})
                now_present = "hy" in d
                if now_present != before_present or (now_present and d["hy"] is not before_obj) \
                        or now_present != exp_present:
                    run.violation("hy-entry:" + key,
                                  f"after hy.eval({ptext!r}) [{outcome}] on a {shape} dict that "
                                  f"{'had' if before_present else 'had no'} hy entry: entry "
                                  f"{'present' if now_present else 'absent'}"
                                  f"{'' if not now_present or d['hy'] is before_obj else ' but a different object'}",
                                  {"history": h, "shape": shape, "call": i})
                if isinstance(d, LogDict):
                    nm = (lambda o: "absent" if o is None else d.names.get(id(o), "other"))
                    traces.append({"init": nm(before_obj) if before_present else "absent",
                                   "prog": call["prog"], "ev": list(d.ev), "outcome": outcome,
                                   "final": nm(d.get("hy")) if "hy" in d else "absent"})
    run.sample({"history": hists[len(hists) // 2]})
    # code -> spec: the writes to the key observed by a logging mapping
    neg = [dict(traces[0], ev=traces[0]["ev"][:-1]) if traces[0]["ev"] else dict(traces[0], outcome="x"),
           dict(traces[1], final="user")]
    tf = run.work / "evaltraces.ndjson"
    with open(tf, "w") as f:
        for t in traces + neg:
            f.write(json.dumps(t) + "\n")
    r = tlc.run("HyEvalApiTrace", tlc.cfg(spec="TSpec", constants={"MaxCalls": 1},
                                          invariants=["TRestored", "Accept"]),
                run.work, workers=4, env={"TRACE_FILE": str(tf)}, label="evaltrace")
    run.add_tlc(r, f"HyEvalApiTrace: {len(traces)} recorded calls")
    acc = {int(x) for x in r.ex("ACC")}
    if len(traces) + 1 in acc or len(traces) + 2 in acc:
        raise MachineryError("negative control accepted by HyEvalApiTrace")
    for i, t in enumerate(traces):
        if i + 1 in acc:
            run.cov["traces_validated_against_impl"] += 1
        else:
            run.violation("trace:" + json.dumps(t, sort_keys=True),
                          f"writes to the caller's hy entry during hy.eval do not follow HyEvalApi: {t}",
                          {"trace": t})
    run.sample({"trace": traces[-1]})
    # "the result is the value of the last evaluated form" on the HyCore corpus, through hy.eval
    from ..corpus import ALL_FORMS, random_program, Enum, clone, number, make_script
    from ..hycore import T
    from . import core as C
    en = Enum({"lit", "var", "eff", "eff1", "do", "if", "and", "or", "setv", "setx", "list", "+", "when", "let",
               "fn", "call", "try", "raise"}, nv=2, lits=(["none", 0, []], ["int", 1, []]))
    trees = [T("do", 0, [x]) for s_ in (2, 3) for x in en.exprs(s_)]
    trees += [random_program(rng, ALL_FORMS, rng.choice([3, 4]), nv=3) for _ in range(150 if q else 4000)]
    cases = C.build_cases(run, trees, rng, 4, 1 if q else 3, mode="hyeval")
    us = C.decide(run, cases, 4, "c39")
    for c in us[-1:]:
        run.sample(C.sample_of(c))
    return run.finish("model_checking",
                      "every history of 2 (thorough 3) hy.eval calls over 8 program kinds (value, compile error, raise, "
                      "assign/delete hy then value/raise) x initial entry {absent, truthy object, falsy object} x dict "
                      "shape {globals only, separate locals, logging locals}: hy entry presence/identity and outcome "
                      "compared with HyEvalApi; writes to the key trace-validated; result value on HyCore programs "
                      "through hy.eval",
                      extra={"exhaustive": True})


# ---------------------------------------------------------------- C40
class Bad:
    """A value whose printing fails."""
    def __init__(self, i):
        self.i = i

    def __repr__(self):
        raise RuntimeError(f"cannot print {self.i}")


def input_text(kind, i, rng):
    if kind == "ok":
        return rng.choice([f"(+ 1000 {i})", f"(do (setv q{i} {i}) (+ 1000 q{i}))", f"(+ 1000\n   {i})",
                           f"[{i}] (+ 1000 {i})"])
    if kind == "none":
        return rng.choice([f"(setv z{i} {i})", "None", f"(setv z{i}\n {i})", f"(when False {i})"])
    if kind == "compilefail":
        return rng.choice(["(if)", "(setv x)", ")", f"(require nonexistent-module-{i})", "(fn)", '"' + chr(92) + 'q"'])
    if kind == "runfail":
        return rng.choice([f'(raise (ValueError {i}))', f"(/ {i} 0)", f"undefined-name-{i}",
                           f"(do (setv w{i} 1)\n (/ 1 0))"])
    if kind == "printfail":
        return f"(Bad {i})"
    raise ValueError(kind)


def star_id(v):
    if v is None:
        return 0
    if isinstance(v, Bad):
        return v.i
    if isinstance(v, int) and not isinstance(v, bool) and 1000 < v < 2000:
        return v - 1000
    return 99


def drive_repl(kinds, rng):
    """Feed one history to a fresh REPL exactly as InteractiveConsole.push does.
    Returns the recorded steps."""
    import contextlib
    import io
    import hy
    from hy.repl import REPL
    import sys
    G = {"__name__": f"hyverif_repl_{rng.randint(0, 10**9)}", "Bad": Bad}
    out, err = io.StringIO(), io.StringIO()
    steps = []
    with contextlib.redirect_stdout(out), contextlib.redirect_stderr(err):
        repl = REPL(locals=G)
        L = repl.locals
        e_id, e_obj = 0, L.get(hy.mangle("*e"))
        printed = []
        for i, kind in enumerate(kinds, 1):
            text = input_text(kind, i, rng)
            lines = text.split("\n")
            buf = []
            for j, line in enumerate(lines):
                buf.append(line)
                out.seek(0)
                out.truncate()
                more = repl.runsource("\n".join(buf), "<stdin>")
                for tok in out.getvalue().split():
                    if tok.isdigit() and 1000 < int(tok) < 2000:
                        printed.append(int(tok) - 1000)
                cur_e = L.get(hy.mangle("*e"))
                if cur_e is not e_obj:
                    e_obj, e_id = cur_e, i
                steps.append({"kind": kind, "more": bool(more), "text": "\n".join(buf),
                              "stars": [star_id(L.get(hy.mangle(f"*{k}"))) for k in (1, 2, 3)],
                              "e": e_id, "printed": list(printed)})
                if not more:
                    if j != len(lines) - 1:
                        steps[-1]["early"] = True
                    break
            else:
                steps[-1]["stuck"] = True
    sys.modules.pop(G["__name__"], None)
    return steps


def split_lines(text, rng):
    """Break a one-line program at some spaces, now and then with an empty line (or one of blanks) in between."""
    parts = text.split(" ")
    out = parts[0]
    for p in parts[1:]:
        r = rng.random()
        out += ("\n\n" if r < 0.06 else "\n  \n" if r < 0.1 else "\n" if r < 0.38 else " ") + p
    return out


def main_c40(run):
    import contextlib
    import io
    import hy
    from hy.reader.exceptions import PrematureEndOfInput
    rng = random.Random(run.seed)
    q = run.quick
    maxin = 4 if q else 6
    r = tlc.run("HyRepl", tlc.cfg(constants={"MaxInputs": maxin},
                                  invariants=["NoRepeat", "Recency", "PrintedInOrder", "Export"]),
                run.work, workers=8, coverage=True, label="repl")
    if r.violated:
        raise MachineryError(f"HyRepl: {r.violated} violated")
    run.add_tlc(r, f"HyRepl exhaustive, {maxin} inputs")
    hists = [tuple(h) for h in r.ex("HIST")]
    hists = sorted(set(hists))
    run.log(f"TLC: {r.distinct} states, {len(hists)} input-kind histories")
    if not q and len(hists) > 6000:
        hists = rng.sample(hists, 6000)
    traces = []
    for h in hists:
        steps = drive_repl(h, rng)
        run.case(("hist", h))
        for s_ in steps:
            if s_.get("early") or s_.get("stuck"):
                run.violation("continuation:" + s_["text"],
                              f"REPL {'evaluated' if s_.get('early') else 'kept asking for more after'} "
                              f"{s_['text']!r}", {"history": list(h), "step": s_})
        traces.append({"steps": [{k: s_[k] for k in ("kind", "more", "stars", "e", "printed")} for s_ in steps],
                       "hist": list(h)})
    # negative controls: the stale-star history and a wrong print order
    neg = [{"steps": [{"kind": "ok", "more": False, "stars": [1, 0, 0], "e": 0, "printed": [1]},
                      {"kind": "runfail", "more": False, "stars": [1, 1, 0], "e": 2, "printed": [1]}], "hist": []},
           {"steps": [{"kind": "ok", "more": False, "stars": [1, 0, 0], "e": 0, "printed": []}], "hist": []}]
    tf = run.work / "repl.ndjson"
    with open(tf, "w") as f:
        for t in traces + neg:
            f.write(json.dumps(t) + "\n")
    r = tlc.run("HyReplTrace", tlc.cfg(spec="TSpec", constants={"MaxInputs": 50},
                                       invariants=["TNoRepeat", "TRecency", "Accept"]),
                run.work, workers=8, env={"TRACE_FILE": str(tf)}, label="repltrace")
    run.add_tlc(r, f"HyReplTrace: {len(traces)} recorded sessions")
    acc = {int(x) for x in r.ex("ACC")}
    if len(traces) + 1 in acc or len(traces) + 2 in acc:
        raise MachineryError("negative control accepted by HyReplTrace")
    seen_kinds = set()
    for i, t in enumerate(traces):
        if i + 1 in acc:
            run.cov["traces_validated_against_impl"] += 1
            continue
        # first step at which the recorded session leaves the spec: classify by what fails
        bad = None
        stars = [0, 0, 0]
        for s_ in t["steps"]:
            st = s_["stars"]
            nz = [x for x in st if x]
            if len(set(nz)) != len(nz):
                bad = ("repeat", s_)
                break
        what = "two of *1 *2 *3 repeat one input's result" if bad else "session not allowed by HyRepl"
        # identify the finding by the shortest distinguishing suffix of kinds
        kinds = t["hist"]
        key = "repeat-after-failed-input" if bad and bad[1]["kind"] in ("compilefail", "runfail") else \
            "session:" + ",".join(kinds)
        run.violation(key, f"REPL session {kinds}: {what}; steps={t['steps']}", {"history": kinds, "steps": t["steps"]})
    run.sample({"session": traces[len(traces) // 3]})
    # incremental input: programs split at line breaks
    from ..corpus import ALL_FORMS, random_program, number, make_script, clone
    from ..hycore import render, make_globals, NAMES, proj
    from hy.repl import REPL
    import sys
    nprog = 0
    forms = ALL_FORMS - {"raise", "try", "with", "return", "break", "continue", "while"}
    for pi in range(150 if q else 3000):
        t = random_program(rng, forms, rng.choice([2, 3]), nv=3, top=(2, 4))
        t = clone(t)
        ns, ncm = number(t)
        sc, supp = make_script(rng, t, ns, ncm)
        forms_text = [split_lines(render(c), rng) for c in t.ch]
        text = "\n".join(forms_text)
        lines = text.split("\n")
        # reference: whole text in one go through the compile/exec path (validated by C01)
        from ..hycore import run_hy
        ref = run_hy(text, sc, {}, supp, ns, nv=3, mode="eval")
        if "log" not in ref or ref["out"][0] != "val":
            continue
        nprog += 1
        log = []
        G = make_globals(sc, {}, supp, ns, log)
        G["__name__"] = f"hyverif_repl_p{pi}"
        out, err = io.StringIO(), io.StringIO()
        with contextlib.redirect_stdout(out), contextlib.redirect_stderr(err):
            repl = REPL(locals=G)
            buf = []
            for line in lines:
                buf.append(line)
                acc_text = "\n".join(buf)
                try:
                    list(hy.read_many(acc_text))
                    incomplete = False
                except PrematureEndOfInput:
                    incomplete = True
                except Exception:
                    incomplete = False
                more = repl.runsource(acc_text, "<stdin>")
                run.case(("line", text, len(buf)))
                if bool(more) != incomplete:
                    run.violation("more:" + acc_text,
                                  f"after {acc_text!r} the REPL {'asks for more' if more else 'evaluates'} but the "
                                  f"text is {'incomplete' if incomplete else 'complete'}",
                                  {"text": text, "upto": acc_text})
                if not more:
                    buf = []
        sys.modules.pop(G["__name__"], None)
        gl = [proj(repl.locals[hy.mangle(n)], repl.locals) if hy.mangle(n) in repl.locals else ["absent", 0, []]
              for n in NAMES[:3]]
        if log != ref["log"] or gl != ref["globals"] or err.getvalue().strip():
            run.violation("script:" + text,
                          f"feeding {text!r} line by line gives log={log} globals={gl} stderr={err.getvalue()[-200:]!r}; "
                          f"as a script: log={ref['log']} globals={ref['globals']}", {"text": text})
    run.cov["split_programs"] = nprog
    # "prints each non-None result": values of every kind, the falsy ones included; what is printed is hy.repr's text
    pool = ["6", "0", '""', "False", "[]", "None", "10", "0.0", "#()", "{}", '"a"', "True", "(do)", "-1", "0j", "b\"\"", ":k", "'x", "'()"]
    nprint = 0
    for _ in range(40 if q else 1000):
        inputs = [rng.choice(pool) for _ in range(rng.randint(1, 6))]
        out, err = io.StringIO(), io.StringIO()
        with contextlib.redirect_stdout(out), contextlib.redirect_stderr(err):
            repl = REPL(locals={"__name__": "hyverif_repl_print"})
            for t in inputs:
                repl.runsource(t, "<stdin>")
        want = []
        for t in inputs:
            v = hy.eval(hy.read(t), {})
            if v is not None:
                want.append(hy.repr(v))
        got = out.getvalue().splitlines()
        nprint += 1
        run.case(("print", tuple(inputs)))
        if got != want or err.getvalue().strip():
            run.violation("print:" + " ".join(inputs), f"inputs {inputs}: the REPL printed {got} (stderr {err.getvalue()[-100:]!r}); "
                          f"the non-None results are {want}", {"inputs": inputs})
        else:
            run.cov["traces_validated_against_impl"] += 1
    sys.modules.pop("hyverif_repl_print", None)
    run.cov["print_sessions"] = nprint
    run.sample({"split_program": text})
    return run.finish("model_checking",
                      "every history of %d inputs over {ok, None, compile failure, run-time failure, print failure} "
                      "(TLC-enumerated), each replayed through hy.repl.REPL.runsource with multi-line inputs fed line by "
                      "line; after every call (*1,*2,*3,*e,printed) is recorded and the session is trace-validated by TLC "
                      "against HyRepl; plus random programs split at line breaks (also empty lines inside forms) compared with the reader's completeness "
                      "and with script execution; plus sessions over values of every kind (falsy ones included), whose non-None results "
                      "must be printed as hy.repr gives them" % maxin,
                      extra={"exhaustive": True})


# ---------------------------------------------------------------- C41
PROGRAMS = {
    "ok": ('(import sys) (print "A" (+ 1 2)) (print "ARGV" (cut sys.argv 1 None)) (print "ARGV0" (get sys.argv 0))', 0),
    "exit3": ('(import sys) (print "ARGV" (cut sys.argv 1 None)) (print "ARGV0" (get sys.argv 0)) (sys.exit 3) (print "no")', 3),
    "raise": ('(import sys) (print "ARGV" (cut sys.argv 1 None)) (print "ARGV0" (get sys.argv 0)) (/ 1 0) (print "no")', 1),
    "synerr": ('(print "never") (if)', 1),
}


def main_c41(run):
    import os
    import subprocess
    from concurrent.futures import ThreadPoolExecutor
    from ..core import PY
    rng = random.Random(run.seed)
    q = run.quick
    r = tlc.run("HyCmdline", tlc.cfg(constants={"MaxLead": 1 if q else 2, "MaxRest": 2},
                                     invariants=["PassThrough", "ModeRight", "FlagsRight", "Progress", "Export"]),
                run.work, workers=8, coverage=True, label="cmdline")
    if r.violated:
        raise MachineryError(f"HyCmdline: {r.violated} violated")
    run.add_tlc(r, "HyCmdline exhaustive")
    lines = r.ex("LINE")
    run.log(f"TLC: {r.distinct} states, {len(lines)} command lines")
    # group by (lead, rest): the same program/arguments under every designator
    groups = {}
    for ln in lines:
        groups.setdefault((tuple(ln["lead"]), tuple(ln["rest"])), []).append(ln)
    keys = sorted(groups)
    pick = rng.sample(keys, min(len(keys), 22 if q else 500))
    # always include the empty argument list and the option-like arguments
    for k in keys:
        if k[1] in ((), ("-B",), ("--spy", "-c"), ("--", "-m"), ("-i",), ("-x", "--foo=bar")) and k[0] == ():
            pick.append(k)
    pick = sorted(set(pick))
    wd = run.work / "cmd"
    wd.mkdir()
    jobs = []
    for pname, (ptext, code) in PROGRAMS.items():
        (wd / f"prog_{pname}.hy").write_text(ptext + "\n")
        (wd / f"modx_{pname}.hy").write_text(ptext + "\n")
    for k in pick:
        for ln in groups[k]:
            pname = rng.choice(list(PROGRAMS)) if q else None
            for pn in ([pname] if pname else list(PROGRAMS)):
                jobs.append((ln, pn))
    # the same program must be used for all designators of a group: re-draw per group
    jobs = []
    for k in pick:
        pns = [rng.choice(list(PROGRAMS))] if q else list(PROGRAMS)
        if q and k[0] == () and len(k[1]) <= 1:
            pns = list(PROGRAMS)
        for pn in pns:
            for ln in groups[k]:
                jobs.append((ln, pn))
    CONC = {"plain": "foo"}
    env = dict(os.environ, PYTHONPYCACHEPREFIX=str(run.work / "pyc"))
    env.pop("PYTHONDONTWRITEBYTECODE", None)   # cache hy/core/*.hy in a run-private directory
    env.pop("HY_VERIF_TRACE", None)
    subprocess.run([PY, "-m", "hy", "-c", "1"], cwd=wd, env=env, capture_output=True, timeout=120)

    def concretize(ln, pn):
        ptext = PROGRAMS[pn][0]
        toks = list(ln["lead"])
        d = ln["desig"]
        stdin = None
        m = {"-c CODE": ["-c", ptext], "-cCODE": ["-c" + ptext], "-Bc CODE": ["-Bc", ptext],
             "-m MOD": ["-m", f"modx_{pn}"], "-mMOD": [f"-mmodx_{pn}"], "FILE": [f"prog_{pn}.hy"],
             "-": ["-"], "-- FILE": ["--", f"prog_{pn}.hy"], "-- -": ["--", "-"]}[d]
        if d in ("-", "-- -"):
            stdin = ptext
        toks += m + [CONC.get(x, x) for x in ln["rest"]]
        return toks, stdin

    def runone(job):
        ln, pn = job
        toks, stdin = concretize(ln, pn)
        p = subprocess.run([PY, "-m", "hy"] + toks, cwd=wd, env=env, input=stdin if stdin is not None else "",
                           capture_output=True, text=True, timeout=120)
        return ln, pn, toks, p.returncode, p.stdout, p.stderr

    with ThreadPoolExecutor(max_workers=16) as ex:
        results = list(ex.map(runone, jobs))
    run.log(f"{len(results)} hy processes")
    by_group = {}
    for ln, pn, toks, rc, out, err in results:
        mode = ln["mode"]
        ptext, want_rc = PROGRAMS[pn]
        rest = [CONC.get(x, x) for x in ln["pargs"]]
        run.case((tuple(toks),))
        key = f"{ln['desig']} | lead={ln['lead']} rest={ln['rest']} prog={pn}"
        # expected stdout from the spec's decision
        argv0 = {"c": "-c", "stdin": "-", "file": f"prog_{pn}.hy"}.get(mode)
        exp = []
        if pn == "ok":
            exp.append("A 3")
        if pn != "synerr":
            exp.append("ARGV " + repr(rest).replace(",", "").replace("'", '"') if False else None)
        got_lines = out.splitlines()
        argv_line = next((x for x in got_lines if x.startswith("ARGV ")), None)
        argv0_line = next((x for x in got_lines if x.startswith("ARGV0 ")), None)
        problems = []
        if rc != want_rc:
            problems.append(f"exit status {rc}, expected {want_rc}")
        if pn == "synerr":
            if out.strip():
                problems.append(f"stdout {out!r} for a program that does not compile")
        else:
            if argv_line is None or argv_line != "ARGV " + str(rest):
                problems.append(f"program saw arguments {argv_line!r}, expected {'ARGV ' + str(rest)!r}")
            if mode == "m":
                ok0 = argv0_line is not None and argv0_line.endswith(f"modx_{pn}.hy") and os.path.isabs(argv0_line[6:])
            elif mode == "file":
                # "the script name (it is OS dependent whether this is a full pathname or not)"
                ok0 = argv0_line is not None and os.path.realpath(os.path.join(wd, argv0_line[6:])) == \
                    os.path.realpath(wd / argv0)
            else:
                ok0 = argv0_line == "ARGV0 " + argv0
            if not ok0:
                problems.append(f"sys.argv[0] is {argv0_line!r} in mode {mode}")
            if "no" in got_lines:
                problems.append("code after exit/raise ran")
            if pn == "ok" and "A 3" not in got_lines:
                problems.append("result line missing")
        if problems:
            fkey = "file-mode" if mode == "file" and "too many values to unpack" in err else key
            run.violation(fkey, f"hy {' '.join(toks)!r}: " + "; ".join(problems) + f"; stderr tail: {err[-160:]!r}",
                          {"argv": toks, "mode": mode, "program": pn})
        # mode-independent part of the output, for the cross-mode comparison
        indep = [x for x in got_lines if not x.startswith("ARGV0 ")]
        by_group.setdefault((tuple(ln["lead"]), tuple(ln["rest"]), pn), {})[ln["desig"]] = (rc, indep)
    ndis = 0
    for g, d in by_group.items():
        vals = {json.dumps(v) for v in d.values()}
        if len(vals) > 1:
            ndis += 1
            run.violation("modes-differ:" + json.dumps(g), f"lead/rest/program {g}: output or exit status differs "
                          f"between invocation modes: {d}", {"group": list(g), "by_designator": {k: list(v) for k, v in d.items()}})
    run.cov["traces_validated_against_impl"] = len(results)
    run.cov["groups_compared_across_modes"] = len(by_group)
    run.sample({"argv": results[0][2], "rc": results[0][3], "stdout": results[0][4]})
    run.sample({"argv": results[-1][2], "rc": results[-1][3], "stdout": results[-1][4]})
    return run.finish("model_checking",
                      "command lines generated by TLC from (lead options, designator in 9 spellings over 4 modes, program "
                      "arguments incl. option-like ones); HyCmdline's scanner invariants are checked on all of them; a "
                      "sample of (lead, rest) groups is run as real `python -m hy` processes under every designator with 4 "
                      "programs (ok / sys.exit 3 / raise / does not compile): arguments seen, sys.argv[0], exit status "
                      "compared with the spec and across modes")


# ---------------------------------------------------------------- dispatch
def main(run):
    return {"C39": main_c39, "C40": main_c40, "C41": main_c41}[run.pid](run)


def replay(run, path):
    print(open(path).read()[:3000])
    return 1
