"""C08: match against HyMatch.tla (Python's match semantics), validated against CPython's match statement."""
import json
import random
import types

from .. import tlc
from ..core import MachineryError, pmap

# ---------------------------------------------------------------- rendering


def hy_val(v):
    t = v[0]
    if t == "int":
        return str(v[1])
    if t == "str":
        return json.dumps(v[1])
    if t == "none":
        return "None"
    if t == "list":
        return "[" + " ".join(map(hy_val, v[1])) + "]"
    if t == "tuple":
        return "#(" + " ".join(map(hy_val, v[1])) + ")"
    if t == "dict":
        return "{" + "  ".join(f"{hy_val(k)} {hy_val(x)}" for k, x in v[1]) + "}"
    if t == "pt":
        return f"(Pt {hy_val(v[1])} {hy_val(v[2])})"
    raise MachineryError(f"value {v}")


def py_val(v):
    t = v[0]
    if t == "int":
        return str(v[1])
    if t == "str":
        return repr(v[1])
    if t == "none":
        return "None"
    if t == "list":
        return "[" + ", ".join(map(py_val, v[1])) + "]"
    if t == "tuple":
        return "(" + "".join(py_val(x) + ", " for x in v[1]) + ")"
    if t == "dict":
        return "{" + ", ".join(f"{py_val(k)}: {py_val(x)}" for k, x in v[1]) + "}"
    if t == "pt":
        return f"Pt({py_val(v[1])}, {py_val(v[2])})"
    raise MachineryError(f"value {v}")


def hn(name):
    """the Hy spelling of a capture name: with a hyphen, so that only the mangled name is a Python identifier"""
    return name if name == "_" else name + "-n"


def pn(name):
    return name if name == "_" else name + "_n"


def hy_pat(p):
    t = p[0]
    if t == "lit":
        return hy_val(p[1])
    if t == "val":
        return "C.one"
    if t == "cap":
        return hn(p[1])
    if t == "wild":
        return "_"
    if t == "star":
        return f"#* {hn(p[1])}"
    if t == "seq":
        return "[" + " ".join(map(hy_pat, p[1])) + "]"
    if t == "map":
        items = [f"{hy_val(k)} {hy_pat(x)}" for k, x in p[1]]
        if p[2]:
            items.append(f"#** {hn(p[2])}")
        return "{" + "  ".join(items) + "}"
    if t == "cls":
        return "(" + " ".join([p[1]] + [hy_pat(x) for x in p[2]] + [f":{a} {hy_pat(x)}" for a, x in p[3]]) + ")"
    if t == "or":
        return "(| " + " ".join(map(hy_pat, p[1])) + ")"
    if t == "as":
        return f"{hy_pat(p[1])} :as {hn(p[2])}"
    raise MachineryError(f"pattern {p}")


def py_pat(p):
    t = p[0]
    if t == "lit":
        return py_val(p[1])
    if t == "val":
        return "C.one"
    if t == "cap":
        return pn(p[1])
    if t == "wild":
        return "_"
    if t == "star":
        return f"*{pn(p[1])}"
    if t == "seq":
        return "[" + ", ".join(map(py_pat, p[1])) + "]"
    if t == "map":
        items = [f"{py_val(k)}: {py_pat(x)}" for k, x in p[1]]
        if p[2]:
            items.append(f"**{pn(p[2])}")
        return "{" + ", ".join(items) + "}"
    if t == "cls":
        return p[1] + "(" + ", ".join([py_pat(x) for x in p[2]] + [f"{a}={py_pat(x)}" for a, x in p[3]]) + ")"
    if t == "or":
        return "(" + " | ".join(map(py_pat, p[1])) + ")"
    if t == "as":
        return f"({py_pat(p[1])} as {pn(p[2])})"
    raise MachineryError(f"pattern {p}")


def names(p):
    t = p[0]
    if t in ("lit", "wild", "val"):
        return set()
    if t == "cap":
        return {p[1]}
    if t == "star":
        return set() if p[1] == "_" else {p[1]}
    if t == "seq":
        return set().union(*[names(x) for x in p[1]]) if p[1] else set()
    if t == "map":
        s = set().union(*[names(x) for _, x in p[1]]) if p[1] else set()
        return s | ({p[2]} if p[2] else set())
    if t == "cls":
        return set().union(set(), *[names(x) for x in p[2]], *[names(x) for _, x in p[3]])
    if t == "or":
        return set().union(set(), *[names(x) for x in p[1]])
    if t == "as":
        return names(p[1]) | {p[2]}
    raise MachineryError(f"pattern {p}")


HY_GUARD = {"T": "True", "F": "False", "stmt-T": "(do (setv hyv-g 1) True)", "stmt-F": "(do (setv hyv-g 1) False)", "x1": "(= x-n 1)",
            "stmt-x1": "(do (setv hyv-g 1) (= x-n 1))"}
PY_GUARD = {"T": "True", "F": "False", "stmt-T": "True", "stmt-F": "False", "x1": "x_n == 1", "stmt-x1": "x_n == 1"}


def hy_program(prog, scope):
    cases = []
    for i, c in enumerate(prog["cases"], 1):
        ns = sorted(names(c["pat"]))
        body = f"#({i} {{" + "  ".join(f'"{n}" {hn(n)}' for n in ns) + "})"
        if c["guard"] == "stmt-all":
            g = " :if (do (setv hyv-g 1) (isinstance [" + " ".join(map(hn, ns)) + "] list))"
        else:
            g = "" if c["guard"] == "none" else f" :if {HY_GUARD[c['guard']]}"
        cases.append(f"  {hy_pat(c['pat'])}{g} {body}")
    m = f"(match {hy_val(prog['subject'])}\n" + "\n".join(cases) + ")"
    if scope == "fn":
        return f"(defn hyv-f []\n (setv r {m})\n r)\n(setv R (hyv-f))"
    if scope == "class":
        return f"(defclass hyv-K []\n (setv r {m}))\n(setv R hyv-K.r)"
    return f"(setv R {m})"


def py_program(prog):
    lines = ["R = None", f"match {py_val(prog['subject'])}:"]
    for i, c in enumerate(prog["cases"], 1):
        ns = sorted(names(c["pat"]))
        if c["guard"] == "stmt-all":
            g = " if isinstance([" + ", ".join(map(pn, ns)) + "], list)"
        else:
            g = "" if c["guard"] == "none" else f" if {PY_GUARD[c['guard']]}"
        lines.append(f"    case {py_pat(c['pat'])}{g}:")
        lines.append(f"        R = ({i}, {{" + ", ".join(f"{n!r}: {pn(n)}" for n in ns) + "})")
    return "\n".join(lines) + "\n"


class Pt:
    __match_args__ = ("x", "y")

    def __init__(self, x, y):
        self.x, self.y = x, y


class C:
    one = 1


def enc(v):
    if v is None:
        return ["none"]
    if isinstance(v, bool):
        return ["bool", v]
    if isinstance(v, int):
        return ["int", v]
    if isinstance(v, str):
        return ["str", v]
    if isinstance(v, list):
        return ["list", [enc(x) for x in v]]
    if isinstance(v, tuple):
        return ["tuple", [enc(x) for x in v]]
    if isinstance(v, dict):
        return ["dict", [[enc(k), enc(x)] for k, x in v.items()]]
    if isinstance(v, Pt):
        return ["pt", enc(v.x), enc(v.y)]
    return ["other", repr(v)]


def observe(R):
    if R is None:
        return {"kind": "nomatch"}
    if not (isinstance(R, tuple) and len(R) == 2 and isinstance(R[1], dict)):
        return {"kind": "odd-result", "msg": repr(R)[:100]}
    return {"kind": "case", "idx": R[0], "binds": {k: enc(v) for k, v in R[1].items()}}


def run_hy(text):
    import hy
    from hy.compiler import hy_compile
    from hy.reader import read_many
    mod = types.ModuleType("hyv_match")
    mod.__dict__.update(Pt=Pt, C=C)
    try:
        tree = hy_compile(hy.models.Lazy(read_many(text, filename="<match>")), mod, filename="<match>", source=text)
        code = compile(tree, "<match>", "exec")
    except SyntaxError as x:
        return {"kind": "syntax", "msg": str(x)[:120]}
    except BaseException as x:
        return {"kind": "crash", "msg": f"{type(x).__name__}: {x}"[:200]}
    try:
        exec(code, mod.__dict__)
    except TypeError as x:
        return {"kind": "typeerror", "msg": str(x)[:120]}
    except BaseException as x:
        return {"kind": "raised", "msg": f"{type(x).__name__}: {x}"[:200]}
    return observe(mod.__dict__.get("R"))


def run_py(text):
    ns = {"Pt": Pt, "C": C}
    try:
        code = compile(text, "<pymatch>", "exec")
    except SyntaxError as x:
        return {"kind": "syntax", "msg": str(x)[:120]}
    try:
        exec(code, ns)
    except TypeError as x:
        return {"kind": "typeerror", "msg": str(x)[:120]}
    return observe(ns.get("R"))


def spec_out(rec):
    o = rec["out"]
    if o["kind"] == "case":
        return {"kind": "case", "idx": o["idx"], "binds": {n: v for n, v in o["binds"]}}
    return {"kind": o["kind"]}


def strip(o):
    return {k: v for k, v in o.items() if k != "msg"}


def _one(rec):
    prog = {"subject": rec["subject"], "cases": rec["cases"]}
    return (run_py(py_program(prog)), run_hy(hy_program(prog, "module")), run_hy(hy_program(prog, "fn")),
            run_hy(hy_program(prog, "class")))


# ---------------------------------------------------------------- generated programs (file mode)
ATOMS = [["lit", ["int", 1]], ["lit", ["int", 2]], ["lit", ["str", "a"]], ["lit", ["none"]], ["cap", "x"], ["cap", "y"],
         ["cap", "w"], ["wild"], ["val", ["int", 1]]]


def gen_pat(rng, depth, caps):
    """random pattern; caps: names still free to bind (kept distinct most of the time)"""
    def cap():
        free = [n for n in ("x", "y", "w", "v") if n not in caps] or ["x"]
        n = rng.choice(free) if rng.random() < 0.9 else "x"
        caps.add(n)
        return ["cap", n]
    r = rng.random()
    if depth == 0 or r < 0.3:
        a = rng.choice(ATOMS)
        return cap() if a[0] == "cap" else a
    k = rng.choice(["seq", "seq", "map", "cls", "clsb", "or", "as"])
    if k == "seq":
        n = rng.randrange(0, 4)
        items = [gen_pat(rng, depth - 1, caps) for _ in range(n)]
        if rng.random() < 0.4:
            nm = rng.choice(["r", "_", "r2"])
            if nm != "_":
                caps.add(nm)
            items.insert(rng.randrange(0, len(items) + 1), ["star", nm])
        if rng.random() < 0.03:
            items.append(["star", "q"])
        return ["seq", items]
    if k == "map":
        keys = rng.sample([["str", "k"], ["str", "m"], ["int", 1]], rng.randrange(0, 3))
        if keys and rng.random() < 0.04:
            keys.append(keys[0])
        return ["map", [[key, gen_pat(rng, depth - 1, caps)] for key in keys], rng.choice(["", "", "rest"])]
    if k == "cls":
        pos = [gen_pat(rng, depth - 1, caps) for _ in range(rng.choice([0, 1, 1, 2, 2, 3]))]
        kw = [[a, gen_pat(rng, depth - 1, caps)] for a in rng.sample(["x", "y", "z"], rng.choice([0, 0, 1, 2]))]
        return ["cls", "Pt", pos, kw]
    if k == "clsb":
        return ["cls", rng.choice(["int", "str", "list", "dict"]), [gen_pat(rng, depth - 1, caps)] if rng.random() < 0.7 else [], []]
    if k == "or":
        # alternatives have to bind the same names: mostly name-free alternatives, sometimes the same capture
        if rng.random() < 0.7:
            alts = [gen_pat(rng, depth - 1, set(("x", "y", "w", "v"))) for _ in range(rng.choice([2, 2, 3]))]
            alts = [a for a in alts if not names(a)] or [["lit", ["int", 1]], ["lit", ["int", 2]]]
            if len(alts) == 1:
                alts.append(["lit", ["int", 2]])
            return ["or", alts]
        c = cap()
        return ["or", [["seq", [c]], ["seq", [["lit", ["int", 1]], c]]]] if rng.random() < 0.7 else ["or", [c, ["lit", ["int", 1]]]]
    inner = gen_pat(rng, depth - 1, caps)
    if inner[0] == "as":
        return inner          # Hy's pattern syntax has one :as per pattern
    free = [n for n in ("z", "z2") if n not in caps] or ["z"]
    caps.add(free[0])
    return ["as", inner, free[0]]


def gen_value(rng, depth):
    r = rng.random()
    if depth == 0 or r < 0.35:
        return rng.choice([["int", 1], ["int", 2], ["str", "a"], ["none"], ["int", 3]])
    k = rng.choice(["list", "list", "tuple", "dict", "pt"])
    if k in ("list", "tuple"):
        return [k, [gen_value(rng, depth - 1) for _ in range(rng.randrange(0, 4))]]
    if k == "dict":
        keys = rng.sample([["str", "k"], ["str", "m"], ["int", 1], ["str", "n"]], rng.randrange(0, 4))
        return ["dict", [[key, gen_value(rng, depth - 1)] for key in keys]]
    return ["pt", gen_value(rng, depth - 1), gen_value(rng, depth - 1)]


def value_for(rng, p, depth=3):
    """a value built to match p (mostly), so that deep patterns are exercised"""
    t = p[0]
    if rng.random() < 0.12:
        return gen_value(rng, 2)
    if t in ("lit", "val"):
        return p[1]
    if t in ("cap", "wild"):
        return gen_value(rng, 1)
    if t == "seq":
        out = []
        for it in p[1]:
            if it[0] == "star":
                out += [gen_value(rng, 1) for _ in range(rng.randrange(0, 3))]
            else:
                out.append(value_for(rng, it, depth - 1))
        return [rng.choice(["list", "list", "tuple"]), out]
    if t == "map":
        items = [[k, value_for(rng, x, depth - 1)] for k, x in p[1]]
        seen, uniq = set(), []
        for k, x in items:
            if json.dumps(k) not in seen:
                seen.add(json.dumps(k))
                uniq.append([k, x])
        if rng.random() < 0.5 and json.dumps(["str", "n"]) not in seen:
            uniq.append([["str", "n"], ["int", 3]])
        return ["dict", uniq]
    if t == "cls":
        if p[1] == "Pt":
            attrs = {"x": gen_value(rng, 1), "y": gen_value(rng, 1)}
            for i, x in enumerate(p[2][:2]):
                attrs["xy"[i]] = value_for(rng, x, depth - 1)
            for a, x in p[3]:
                if a in attrs:
                    attrs[a] = value_for(rng, x, depth - 1)
            return ["pt", attrs["x"], attrs["y"]]
        base = {"int": ["int", 1], "str": ["str", "a"], "list": ["list", [["int", 1]]], "dict": ["dict", []]}[p[1]]
        if p[2] and p[2][0][0] in ("lit", "val") and p[2][0][1][0] == base[0]:
            return p[2][0][1]
        return base
    if t == "or":
        return value_for(rng, rng.choice(p[1]), depth - 1)
    if t == "as":
        return value_for(rng, p[1], depth - 1)
    raise MachineryError(str(p))


def gen_programs(rng, n):
    out = []
    for i in range(n):
        ncases = rng.choice([1, 2, 2, 3])
        cases = []
        for _ in range(ncases):
            p = gen_pat(rng, rng.choice([1, 2, 2, 3]), set())
            g = rng.choice(["none", "none", "none", "T", "F", "stmt-T", "stmt-F", "x1", "stmt-x1", "stmt-all", "stmt-all"])
            if g in ("x1", "stmt-x1") and "x" not in names(p):
                g = "stmt-T"
            cases.append({"pat": p, "guard": g})
        subject = value_for(rng, rng.choice(cases)["pat"])
        out.append({"id": i + 1, "subject": subject, "cases": cases})
    return out


def main(run):
    rng = random.Random(run.seed)
    q = run.quick
    invs = ["IrrefutableMatches", "BindsExactlyNames", "StringsAreNotSequences", "Export"]
    r = tlc.run("HyMatch", tlc.cfg(constants={"Mode": "enum"}, invariants=invs), run.work, workers=16, label="match-enum",
                timeout=3000)
    if r.violated:
        raise MachineryError(f"HyMatch: {r.violated} violated on the specification")
    run.add_tlc(r, "HyMatch enum: 14 subjects x every pattern of depth <= 1 (atoms, sequences with star, mappings with rest, "
                   "class patterns, |, :as) x 6 guards")
    rows = r.ex("CASE")
    progs = gen_programs(rng, 4000 if q else 60000)
    pf = run.work / "match_progs.ndjson"
    pf.write_text("".join(json.dumps(p) + "\n" for p in progs))
    r2 = tlc.run("HyMatch", tlc.cfg(constants={"Mode": "file"}, invariants=invs), run.work, workers=16, label="match-file",
                 env={"PROG_FILE": str(pf)}, timeout=3000)
    if r2.violated:
        raise MachineryError(f"HyMatch: {r2.violated} violated on the specification (generated programs)")
    run.add_tlc(r2, f"HyMatch file: {len(progs)} generated programs, patterns of depth <= 3, 1-3 cases, subjects biased to match")
    rows2 = r2.ex("CASE")
    if len(rows2) != len(progs):
        raise MachineryError(f"TLC evaluated {len(rows2)} of {len(progs)} generated programs")
    rows += rows2
    run.log(f"TLC: {len(rows)} programs")
    kinds = {}
    for rec, (py, hm, hf, hc) in zip(rows, pmap(_one, rows)):
        want = spec_out(rec)
        prog = {"subject": rec["subject"], "cases": rec["cases"]}
        key = json.dumps(prog, sort_keys=True)
        run.case(key)
        kinds[want["kind"]] = kinds.get(want["kind"], 0) + 1
        if strip(py) != want:
            raise MachineryError(f"HyMatch disagrees with CPython's match statement:\n{py_program(prog)}CPython: {py}\nspec: {want}")
        for scope, got in (("module", hm), ("fn", hf), ("class", hc)):
            if strip(got) != want:
                text = hy_program(prog, scope)
                run.violation(f"{scope}:{key}", f"Hy match ({scope} scope) gives {got}; the equivalent Python match statement "
                              f"gives {want}; program:\n{text}\nPython:\n{py_program(prog)}",
                              {"hy": text, "python": py_program(prog), "got": got, "want": want})
            else:
                run.cov["traces_validated_against_impl"] += 1
    if min(kinds.get(k, 0) for k in ("case", "nomatch", "syntax", "typeerror")) == 0:
        raise MachineryError(f"vacuous: {kinds}")
    run.sample({"hy": hy_program(progs[0], "module"), "python": py_program(progs[0])})
    return run.finish("model_checking",
                      "HyMatch is PEP 634 in TLA+ (matching, bindings, compile-time restrictions); every program is first run as a "
                      "Python match statement by CPython to validate the spec, then as a Hy match form at module level, in a class body and inside "
                      "a function: case taken, bound names and values, None when nothing matches, TypeError / SyntaxError "
                      "outcomes, guards (also guards that compile to statements)", extra={"expected_kinds": kinds})
