"""C25 (hy.repr of models reads back), C30 (quote), C31 (quasiquote), C29 (as_model),
C28 (hy.repr state), C27 (hy.repr of values)."""
import json
import random

from .. import tlc
from ..core import MachineryError


def model_diff(a, b, path="m"):
    """None if the two models are equal node by node (type, value, brackets, conversion, is_tstring)."""
    import hy.models as M
    if type(a) is not type(b):
        return f"{path}: type {type(a).__name__} vs {type(b).__name__}"
    if isinstance(a, M.Sequence):
        for attr in ("brackets", "conversion", "is_tstring"):
            if getattr(a, attr, None) != getattr(b, attr, None):
                return f"{path}: {attr} {getattr(a, attr, None)!r} vs {getattr(b, attr, None)!r}"
        if len(a) != len(b):
            return f"{path}: length {len(a)} vs {len(b)}"
        for i, (x, y) in enumerate(zip(a, b)):
            d = model_diff(x, y, f"{path}[{i}]")
            if d:
                return d
        return None
    if isinstance(a, M.String) and a.brackets != b.brackets:
        return f"{path}: brackets {a.brackets!r} vs {b.brackets!r}"
    if isinstance(a, M.Keyword):
        return None if a.name == b.name else f"{path}: keyword {a.name!r} vs {b.name!r}"
    if isinstance(a, (M.Float, M.Complex)):
        import cmath
        ca, cb = complex(a), complex(b)
        same = all((x == y) or (x != x and y != y) for x, y in ((ca.real, cb.real), (ca.imag, cb.imag)))
        return None if same else f"{path}: value {a!r} vs {b!r}"
    return None if a == b and str(a) == str(b) else f"{path}: value {a!r} vs {b!r}"


def roundtrip(m):
    """Returns (problem or None, printed text)."""
    import hy
    try:
        r = hy.repr(m)
    except Exception as e:
        return f"hy.repr raised {type(e).__name__}: {e}", None
    try:
        m2 = hy.eval(hy.read(r))
    except Exception as e:
        return f"reading/evaluating {r!r} raised {type(e).__name__}: {e}", r
    d = model_diff(m, m2)
    if d:
        return f"{r!r} reads back differently: {d}", r
    try:
        r2 = hy.repr(m2)
    except Exception as e:
        return f"printing the re-read model raised {e!r}", r
    if r2 != r:
        return f"printing again gives {r2!r} instead of {r!r}", r
    return None, r


PRINT_RUNS = [  # label, alphabet, start, MaxLen quick, MaxLen thorough
    ("general", None, [], 3, 4),
    ("fstring", ["\"", "{", "}", "a", " ", "!", ":", "=", "r", "(", ")", "b"], ["f", "\"", "{"], 4, 5),
    ("bracket", ["[", "]", "a", "\n", "f", "{", "}"], ["#", "["], 5, 6),
    ("strings", ["\"", "\\", "a", "n", "{", "}", "\n", "\r", "'", "x", "1"], ["\""], 4, 5),
    ("sugar", ["'", "`", "~", "@", "#", "*", "a", " ", "(", ")", ".", "N", "o", "n", "e", "^"], [], 4, 5),
]


def main_c25(run):
    import hy
    from .reader import ALPHA, mutated_programs
    rng = random.Random(run.seed)
    q = run.quick
    texts = []
    for label, alpha, start, lq, lt in PRINT_RUNS:
        alpha = alpha or ALPHA
        L = lq if q else lt
        r = tlc.run("HyPrint", tlc.cfg(constants={"MaxLen": L}, invariants=["PrintReadsBack", "PrintIdempotent", "Export"]),
                    run.work, workers=16, timeout=3400, heap="16g", label=label,
                    defs={"Alphabet": tlc.tla(set(alpha)), "Start": tlc.tla(start), "FixedPrinter": "TRUE"})
        if r.violated:
            raise MachineryError(f"HyPrint: {r.violated} fails on the specification ({label})")
        run.add_tlc(r, f"HyPrint {label}: Read(Print(m)) = m and print-idempotence for every model read from a text "
                       f"{''.join(start)!r}+<={L}")
        rows = r.ex("ROW")
        if q and len(rows) > 5000:
            rows = rng.sample(rows, 5000)      # the law is checked by TLC on all; the real round trip on a sample
        texts += [("".join(row["text"]), ["".join(p) for p in row["printed"]]) for row in rows]
    # negative controls: the printer as it was before the fix must violate the law on the spec
    for label, alpha, start, L in [("fstring", PRINT_RUNS[1][1], PRINT_RUNS[1][2], 5), ("bracket", ["[", "]", "a", "\n"], ["#", "["], 5)]:
        r = tlc.run("HyPrint", tlc.cfg(constants={"MaxLen": L}, invariants=["PrintReadsBack"]), run.work, workers=16,
                    label="neg-" + label, defs={"Alphabet": tlc.tla(set(alpha)), "Start": tlc.tla(start), "FixedPrinter": "FALSE"})
        if r.violated != "PrintReadsBack":
            raise MachineryError(f"negative control: the pre-fix printer should violate PrintReadsBack ({label})")
        run.add_tlc(r, f"negative control {label}: printer as at the pinned commit violates PrintReadsBack")
    run.log(f"{len(texts)} well-formed texts with models, from TLC")
    nspec_same = 0
    for t, printed in texts:
        try:
            ms = list(hy.read_many(t))
        except Exception as e:
            run.notes.append(f"spec reads {t!r} but the reader raises {e!r}")
            continue
        for k, m in enumerate(ms):
            prob, r = roundtrip(m)
            run.case(t)
            if prob:
                run.violation("text:" + t, f"model read from {t!r}: {prob}", {"text": t})
            else:
                run.cov["traces_validated_against_impl"] += 1
                if k < len(printed) and r is not None and r.lstrip("'") == printed[k]:
                    nspec_same += 1
    run.cov["printed_text_equal_to_spec"] = nspec_same
    # longer programs and models assembled from reader-valid parts
    from hy.models import (Symbol, Keyword, String, Expression, List, FString, FComponent, Integer, Dict, Tuple, Set,
                           Bytes, Float, Complex)
    built = [Expression([Symbol("unquote"), Symbol("@a")]), Expression([Symbol("unquote-splice"), Symbol("a")]),
             Expression([Symbol("quote")]), Expression([Symbol("."), Symbol("a"), Symbol("b")]),
             Expression([Symbol("."), Symbol("None"), Symbol("a")]), Expression([Symbol(".."), Symbol("None"), Symbol("a"), Symbol("b")]),
             Expression([Symbol("."), Symbol("a")]), Expression([Symbol("."), Symbol("a"), Integer(1)]),
             String("\nx", brackets=""), String("\n\nx", brackets="d"), String("a]b", brackets="=="),
             FString([String("a{"), FComponent([Symbol("x"), String(">"), FComponent([Symbol("w")]), String("{")], conversion="r")]),
             FString([FComponent([Dict([Integer(1), Integer(2)])])]), FString([FComponent([Dict([])], conversion="s")]),
             FString([String("\nq"), FComponent([Symbol("x")])], brackets="f"),
             FString([FComponent([Symbol("x")], is_tstring=True)], is_tstring=True),
             List([Keyword(""), Keyword("a"), Symbol("..."), Symbol("None"), Symbol("True")]),
             Tuple([]), Set([]), Dict([]), Expression([]), List([Bytes(b"a\"\\\n"), String("\"'\\\n\r\t\x00é")]),
             Expression([Symbol("unpack-iterable"), Symbol("xs")]), Expression([Symbol("unpack-mapping"), Dict([])]),
             Expression([Symbol("annotate"), Symbol("a"), Symbol("int")]),
             Float("NaN"), Float("-Inf"), Complex("1+NaNj"), Float("1e300"), Integer(-5)]
    # every short expression over the symbols the printer treats specially (dots, None) and ordinary ones: the
    # dotted-identifier and method-call sugar must only be printed for the shapes that read back as them
    import itertools
    pool = [Symbol("f"), Symbol("."), Symbol(".."), Symbol("None"), Symbol("a"), Symbol("..."), Integer(1)]
    for n in (1, 2, 3, 4):
        for combo in itertools.product(pool, repeat=n):
            built.append(Expression(list(combo)))
    for m in built:
        prob, r = roundtrip(m)
        run.case(("built", repr(m)))
        if prob:
            run.violation("built:" + repr(m), f"constructed model {m!r}: {prob}", {"model": repr(m)})
        else:
            run.cov["traces_validated_against_impl"] += 1
    nprog = 0
    for t in mutated_programs(rng, 300 if q else 20000):
        try:
            ms = list(hy.read_many(t))
        except Exception:
            continue
        nprog += 1
        for m in ms:
            prob, r = roundtrip(m)
            run.case(t)
            if prob:
                run.violation("text:" + t, f"model read from {t!r}: {prob}", {"text": t})
            else:
                run.cov["traces_validated_against_impl"] += 1
    run.cov["generated_programs"] = nprog
    run.sample({"text": texts[len(texts) // 2][0], "spec_print": texts[len(texts) // 2][1]})
    run.sample({"built": repr(built[11]), "printed": hy.repr(built[11])})
    return run.finish("model_checking",
                      "HyPrint (the model printer composed with the reader spec): Read(Print(m)) = m and print idempotence "
                      "are TLC-checked for every model readable from short texts over 5 alphabets (general, f-string fields, "
                      "bracket strings, string escapes, sugar/dotted forms); the same texts, longer generated programs and "
                      "hand-assembled models (among them every expression of <= 4 elements over dots, None, ordinary symbols and a "
                      "number) go through the real hy.repr -> hy.read -> hy.eval, compared node by node "
                      "(type, value, brackets, conversion, is_tstring) and re-printed",
                      extra={"exhaustive": True})


# ---------------------------------------------------------------- C30 / C31
def tm(t, v="", ch=(), x=""):
    return {"t": t, "v": v, "x": x, "ch": list(ch)}


def build(t):
    """template tree -> real model"""
    import hy.models as M
    k = t["t"]
    if k == "sym":
        return M.Symbol(t["v"])
    if k == "kw":
        return M.Keyword(t["v"])
    if k == "int":
        return M.Integer(int(t["v"]))
    if k == "str":
        return M.String(t["v"], brackets=(t["x"][1:] if t["x"].startswith("#") else None))
    kids = [build(c) for c in t["ch"]]
    if k == "fstr":
        return M.FString(kids, brackets=(t["x"][1:] if t["x"].startswith("#") else None))
    if k == "fcomp":
        return M.FComponent(kids, conversion=(t["x"] or None))
    return {"expr": M.Expression, "list": M.List, "tuple": M.Tuple, "set": M.Set, "dict": M.Dict}[k](kids)


def pyvalue(val):
    k = val["py"]
    if k == "model":
        return build(val["m"])
    if k == "int":
        return int(val["v"])
    if k in ("none", "true", "false"):
        return {"none": None, "true": True, "false": False}[k]
    if k == "str":
        return val["v"]
    xs = [pyvalue(x) for x in val["items"]]
    return xs if k == "list" else tuple(xs)


ATOMS = [tm("sym", "a"), tm("sym", "None"), tm("kw", "k"), tm("int", "1"), tm("str", "s"), tm("sym", "unquote"),
         tm("list"), tm("kw", ""), tm("sym", "...")]
XVALS = [{"py": "model", "m": tm("sym", "b")}, {"py": "int", "v": "7"}, {"py": "none"},
         {"py": "list", "items": [{"py": "int", "v": "1"}, {"py": "none"}]},
         {"py": "model", "m": tm("list", ch=[tm("sym", "p"), tm("sym", "q")])}, {"py": "str", "v": "t"},
         {"py": "tuple", "items": [{"py": "int", "v": "1"}]}, {"py": "true"},
         {"py": "model", "m": tm("expr", ch=[tm("sym", "unquote"), tm("sym", "zz")])}]
SVALS = [{"py": "none"}, {"py": "list", "items": []},
         {"py": "list", "items": [{"py": "int", "v": "1"}, {"py": "str", "v": "u"}]},
         {"py": "model", "m": tm("list", ch=[tm("sym", "p"), tm("sym", "q")])},
         {"py": "tuple", "items": [{"py": "int", "v": "2"}]}, {"py": "model", "m": tm("expr", ch=[tm("sym", "f"), tm("sym", "g")])},
         {"py": "int", "v": "0"}, {"py": "model", "m": tm("tuple")}, {"py": "int", "v": "5"}]


def gen_template(rng, depth, level=0, holes=True):
    r = rng.random()
    if depth <= 0 or r < 0.25:
        return rng.choice(ATOMS)
    if holes and r < 0.45:
        return tm("expr", ch=[tm("sym", "unquote"), tm("sym", rng.choice(["x", "y"]))])
    if holes and r < 0.6:
        return tm("expr", ch=[tm("sym", rng.choice(["unquote-splice", "unquote-splice", "unquote_splice"])),
                              tm("sym", rng.choice(["xs", "ys"]))])
    if r < 0.7:
        return tm("expr", ch=[tm("sym", "quasiquote"), gen_template(rng, depth - 1, level + 1, holes)])
    if holes and level > 0 and r < 0.8:
        # inside a nested quasiquote an unquote / unquote-splice only lowers the level: its argument is a
        # template again (whose own holes may reach level 0)
        return tm("expr", ch=[tm("sym", rng.choice(["unquote", "unquote-splice", "unquote-splice"])),
                              gen_template(rng, depth - 1, level - 1, holes)])
    k = rng.choice(["expr", "list", "tuple", "set", "dict", "expr", "list"])
    ch = [gen_template(rng, depth - 1, level, holes) for _ in range(rng.randint(0, 3))]
    if k == "expr" and ch and ch[0]["t"] == "sym" and ch[0]["v"] in ("unquote", "unquote-splice", "quasiquote"):
        ch[0] = tm("sym", "a")      # the symbol `unquote` as plain data is generated, but not as a head
    return tm(k, ch=ch)


def enum_templates(size, pool):
    """all templates with exactly `size` nodes over a small pool (holes included)"""
    import itertools
    if size == 1:
        return list(pool)
    out = []
    for kind in ("expr", "list", "dict"):
        for n in range(1, min(size - 1, 3) + 1):
            from ..corpus import splits
            for sp in splits(size - 1, n):
                for combo in itertools.product(*[enum_templates(z, pool) for z in sp]):
                    out.append(tm(kind, ch=list(combo)))
    return out


def run_quasi(run, cases, label):
    tf = run.work / f"quasi-{label}.ndjson"
    with open(tf, "w") as f:
        for c in cases:
            f.write(json.dumps(c) + "\n")
    r = tlc.run("HyQuasi", tlc.cfg(invariants=["QuoteIsIdentity", "LiteralReproduced", "TopShapeKept", "Export"]),
                run.work, workers=16, env={"CASE_FILE": str(tf)}, label=label, timeout=3000)
    if r.violated:
        raise MachineryError(f"HyQuasi: {r.violated} fails on the specification")
    run.add_tlc(r, f"HyQuasi: {len(cases)} templates x environments ({label})")
    return {e["cid"]: e for e in r.ex("CASE")}


def quasi_cases(rng, q):
    import itertools
    hole_pool = [tm("sym", "a"), tm("int", "1"), tm("expr", ch=[tm("sym", "unquote"), tm("sym", "x")]),
                 tm("expr", ch=[tm("sym", "unquote-splice"), tm("sym", "xs")])]
    # (unquote x) counts as a leaf of the pool: its own size is 1 here
    temps = []
    for size in (2, 3, 4, 5) if q else (2, 3, 4, 5, 6):
        ts = enum_templates(size, hole_pool)
        if q and len(ts) > 1500:
            ts = rng.sample(ts, 1500)
        elif len(ts) > 8000:
            ts = rng.sample(ts, 8000)
        temps += ts
    # nested quasiquote levels
    for _ in range(1500 if q else 8000):
        temps.append(gen_template(rng, rng.choice([2, 3, 4])))
    # every chain of quasiquote / unquote / unquote-splice (<= 5 links) around a hole, in a list: the level
    # arithmetic at every depth (the template itself sits inside one quasiquote, level 1)
    for n in range(1, 6):
        for chain in itertools.product("QUS", repeat=n):
            level, ok = 1, True
            for j, c in enumerate(chain):
                if c == "Q":
                    level += 1
                else:
                    if level == 1 and j != len(chain) - 1:
                        ok = False      # this unquote evaluates its argument: it has to be the hole itself
                        break
                    level -= 1
            if not ok:
                continue
            leaf = tm("sym", "xs" if chain[-1] == "S" else "x")
            t = leaf
            for c in reversed(chain):
                t = tm("expr", ch=[tm("sym", {"Q": "quasiquote", "U": "unquote", "S": "unquote-splice"}[c]), t])
            temps.append(tm("list", ch=[tm("sym", "a"), t, tm("int", "1")]))
            if "S" in chain:
                # the same chain with the splice operator in its other spelling
                t2 = leaf
                for c in reversed(chain):
                    t2 = tm("expr", ch=[tm("sym", {"Q": "quasiquote", "U": "unquote", "S": "unquote_splice"}[c]), t2])
                temps.append(tm("list", ch=[tm("sym", "a"), t2, tm("int", "1")]))
    cases = []
    for t in temps:
        for _ in range(2 if q else 4):
            env = {"x": rng.choice(XVALS), "y": rng.choice(XVALS), "xs": rng.choice(SVALS), "ys": rng.choice(SVALS)}
            cases.append({"tmpl": t, "env": env})
    return cases


def eval_quoted(head, model, env):
    import hy
    from hy.models import Expression, Symbol
    g = {k: pyvalue(v) for k, v in env.items()}
    try:
        return "ok", hy.eval(Expression([Symbol(head), model]), g)
    except TypeError as e:
        return "typeerror", e
    except Exception as e:
        return "raised " + type(e).__name__, e


def check_quasi(run, cases, exp, which):
    import hy
    for i, c in enumerate(cases, 1):
        e = exp[i]
        m = build(c["tmpl"])
        want = e["quasi"] if which == "quasi" else e["quote"]
        run.case((which, json.dumps(c, sort_keys=True)), nontrivial=which == "quote" or json.dumps(c["tmpl"]).count("unquote") > 0)
        if want[0] in ("value", "splice"):
            continue        # an unquote directly under the quasiquote: outside the property
        st, got = eval_quoted("quasiquote" if which == "quasi" else "quote", m, c["env"])
        text = hy.repr(m)
        if want[0] == "error":
            if st == "ok":
                run.violation(f"{which}:" + text, f"(`{which}` {text}) with {c['env']} should fail ({want[1]}) but gives "
                              f"{hy.repr(got)}", {"case": c})
            else:
                run.cov["traces_validated_against_impl"] += 1
            continue
        if st != "ok":
            run.violation(f"{which}:" + text, f"({which} {text}) {st}: {got}", {"case": c})
            continue
        # substituted values may sit in the result unpromoted (models may contain non-models, which
        # Hy promotes whenever the model is used): compare after hy.as-model
        try:
            got = hy.as_model(got)
            d = model_diff(build(want[1]), got)
        except Exception as e2:
            d = f"result cannot be promoted: {e2!r}"
        if d:
            run.violation(f"{which}:" + text + json.dumps(c["env"], sort_keys=True)[:80],
                          f"({which} {text}) with x,y,xs,ys = "
                          f"{[hy.repr(pyvalue(c['env'][k])) for k in ('x', 'y', 'xs', 'ys')]} gives {got!r}, "
                          f"expected {hy.repr(build(want[1]))}: {d}", {"case": c})
        else:
            run.cov["traces_validated_against_impl"] += 1


def main_c31(run):
    rng = random.Random(run.seed)
    cases = quasi_cases(rng, run.quick)
    exp = run_quasi(run, cases, "c31")
    run.log(f"{len(cases)} template/environment cases")
    check_quasi(run, cases, exp, "quasi")
    import hy
    run.sample({"template": hy.repr(build(cases[-1]["tmpl"])), "env": {k: hy.repr(pyvalue(v)) for k, v in cases[-1]["env"].items()},
                "expected": exp[len(cases)]["quasi"]})
    return run.finish("model_checking",
                      "templates: every tree <= 4 (thorough 5) nodes over expr/list/dict with atoms, ~x and ~@xs leaves, plus "
                      "random templates with nested quasiquote levels and all sequence kinds; environments: values for the "
                      "holes (models, ints, None, lists, tuples, strings, falsy values); HyQuasi computes the reference "
                      "result in TLC (laws checked per case), hy.eval of the quasiquote form is compared node by node")


def main_c30(run):
    import hy
    from hy.models import Expression, Symbol
    from .reader import mutated_programs
    rng = random.Random(run.seed)
    q = run.quick
    # spec level: quote is the identity on every template, including ones full of unquotes
    cases = quasi_cases(rng, q)
    exp = run_quasi(run, cases, "c30")
    check_quasi(run, cases, exp, "quote")
    # models from texts and from constructors, with all extra attributes
    from hy.models import (Keyword, String, List, FString, FComponent, Integer, Dict, Tuple, Set, Bytes, Float, Complex)
    built = [FString([String("a"), FComponent([Symbol("x"), String(">5")], conversion="r", expression="x")]),
             FString([FComponent([Symbol("x")], expression="x ")], brackets="f"),
             FString([FComponent([Symbol("x")], is_tstring=True)], is_tstring=True),
             String("q", brackets=""), String("q", brackets="zz"), Bytes(b"\x00\xff"), Keyword(""), Keyword("a.b") if False else Keyword("ab"),
             Symbol("None"), Symbol("unquote"), Symbol("."), Symbol("..."), Symbol("@a"), Symbol("True"),
             List([]), Tuple([]), Set([]), Dict([]), Expression([]), Expression([Symbol("unquote"), Symbol("x")]),
             Expression([Symbol("quasiquote"), Expression([Symbol("unquote-splice"), Symbol("x")])]),
             Float("NaN"), Float("-0.0"), Complex("1-0j"), Integer(0), Dict([Integer(1)]),
             Expression([Symbol("quote"), Expression([Symbol("quote"), Symbol("a")])])]
    # every combination of the extra attributes, at top level and nested in a list, an expression and an f-string
    import itertools
    grid = [String("q", brackets=b) for b in (None, "", "d", "==")]
    for b, tst in itertools.product((None, "", "f"), (False, True)):
        for conv, ex in itertools.product((None, "r", "s", "a"), (None, "x", "x ")):
            comp = FComponent([Symbol("x"), String(">5")], conversion=conv, expression=ex, is_tstring=tst)
            grid.append(FString([String("a"), comp], brackets=b, is_tstring=tst))
    built += grid + [List([g]) for g in grid] + [Expression([Symbol("f"), g]) for g in grid] + \
        [FString([FComponent([g])]) for g in grid]
    texts = [t for t in mutated_programs(rng, 600 if q else 30000)]
    models = list(built)
    for t in texts:
        try:
            models += list(hy.read_many(t))
        except Exception:
            pass
    n = 0
    for m in models:
        run.case(("model", hy.repr(m) if True else ""))
        try:
            got = hy.eval(Expression([Symbol("quote"), m]))
        except Exception as e:
            run.violation("quote:" + repr(m)[:200], f"(quote {m!r}) raised {type(e).__name__}: {e}", {"model": repr(m)})
            continue
        d = model_diff(m, got)
        if d is None:
            # the attribute `expression` of f-string fields must survive too
            import hy.models as M
            stack = [(m, got)]
            while stack and d is None:
                a, b = stack.pop()
                if isinstance(a, M.FComponent) and a.expression != b.expression:
                    d = f"expression {a.expression!r} vs {b.expression!r}"
                if isinstance(a, M.Sequence):
                    stack += list(zip(a, b))
        if d:
            run.violation("quote:" + repr(m)[:200], f"(quote {hy.repr(m)}) is not the same model: {d}", {"model": repr(m)})
        else:
            n += 1
            run.cov["traces_validated_against_impl"] += 1
    run.cov["quoted_models"] = n
    run.sample({"model": repr(built[0])})
    return run.finish("model_checking",
                      "QuoteIsIdentity is a TLC-checked law of HyQuasi on every template (including ones made of unquote / "
                      "quasiquote forms); hy.eval of (quote m) is compared node by node, with brackets, conversion, "
                      "expression and is_tstring, for every template, for models read from generated programs and for "
                      "models assembled from constructors")


# ---------------------------------------------------------------- C28
class Plain(list):
    """a mutable container printed by the list printer"""
    __hash__ = object.__hash__


class Raiser(list):
    """a container whose registered printer prints the children, then raises"""
    __hash__ = object.__hash__


class PrinterBoom(Exception):
    pass


class PrinterBoomBase(BaseException):
    """not an Exception (like KeyboardInterrupt): the state must be restored all the same"""


BOOM = [PrinterBoom]      # the class the registered printer raises (switched per history)


def realize_graph(kind, kids):
    """objects for an abstract graph, or None if it cannot exist (a cycle through immutable models only)"""
    import hy.models as M
    n = len(kind)
    objs = {}
    for o in range(1, n + 1):
        if kind[o - 1] == "plain":
            objs[o] = []
        elif kind[o - 1] == "raiser":
            objs[o] = Raiser()
        elif kind[o - 1] == "kw":
            objs[o] = M.Keyword(f"k{o}")
    building = set()

    def model(o):
        if o in objs:
            return objs[o]
        if o in building:
            raise ValueError("cycle of models")
        building.add(o)
        ch = [model(c) for c in kids[o - 1]]
        building.discard(o)
        objs[o] = M.List(ch)
        return objs[o]
    try:
        for o in range(1, n + 1):
            model(o)
    except ValueError:
        return None
    for o in range(1, n + 1):
        if kind[o - 1] in ("plain", "raiser"):
            objs[o].extend(objs[c] for c in kids[o - 1])
    return objs


def main_c28(run):
    import hy
    import hy.core.hy_repr as R
    rng = random.Random(run.seed)
    q = run.quick
    nobj, ncalls = (2, 3) if q else (3, 2)
    r = tlc.run("HyReprState", tlc.cfg(constants={"Objs": set(range(1, nobj + 1)), "MaxCalls": ncalls, "RestoreOnRaise": True},
                                       invariants=["CleanBetweenCalls", "OutputHistoryIndependent", "StackMatchesSeen", "Export"]),
                run.work, workers=16, timeout=3400, heap="16g", label="state", coverage=False)
    if r.violated:
        raise MachineryError(f"HyReprState: {r.violated} violated on the specification")
    run.add_tlc(r, f"HyReprState exhaustive: all graphs on {nobj} objects x histories of {ncalls} top-level calls")
    hists = r.ex("HIST")
    r2 = tlc.run("HyReprState", tlc.cfg(constants={"Objs": {1, 2}, "MaxCalls": 2, "RestoreOnRaise": False},
                                        invariants=["CleanBetweenCalls"]), run.work, workers=8, label="neg")
    if r2.violated != "CleanBetweenCalls":
        raise MachineryError("negative control: without restoration on the exception path CleanBetweenCalls must fail")
    run.add_tlc(r2, "negative control: state restored only on normal completion violates CleanBetweenCalls")
    run.log(f"TLC: {r.distinct} states, {len(hists)} histories")
    if len(hists) > (1500 if q else 30000):
        hists = rng.sample(hists, 1500 if q else 30000)
    # printers
    R.hy_repr_register(Raiser, lambda x: (" ".join(R.hy_repr(c) for c in x), (_ for _ in ()).throw(BOOM[0]()))[0],
                       placeholder="<R...>")
    orig = R.hy_repr
    events = []
    ids = {}

    def spy(obj):
        o = ids.get(id(obj))
        if o is None:
            return orig(obj)
        before = len(R._seen)
        was_in = id(obj) in R._seen
        # the state right after the entry logic is observed through the printer: approximate by
        # sampling at first nested call or exit; sample here by re-deriving what entry does
        started = (not R._quoting) and isinstance(obj, hy.models.Object) and not isinstance(obj, hy.models.Keyword)
        events.append({"ev": "placeholder" if was_in else "enter", "o": o,
                       "q": bool(R._quoting or started), "n": before + (0 if was_in else 1)})
        try:
            return orig(obj)
        finally:
            if not was_in:
                events.append({"ev": "exit", "o": o, "q": bool(R._quoting), "n": len(R._seen)})
    traces = []
    nreal = 0
    try:
        R.hy_repr = spy
        for hix, h in enumerate(hists):
            BOOM[0] = PrinterBoomBase if hix % 2 else PrinterBoom
            objs = realize_graph(h["kind"], h["kids"])
            if objs is None:
                continue
            ids.clear()
            ids.update({id(v): k for k, v in objs.items()})
            # reference: each object printed in a clean state
            ref = {}
            for o, v in objs.items():
                del events[:]
                try:
                    ref[o] = ("ok", hy.repr(v))
                except (PrinterBoom, PrinterBoomBase):
                    ref[o] = ("raised", None)
            del events[:]
            nreal += 1
            for (o, want) in h["calls"]:
                try:
                    got = ("ok", hy.repr(objs[o]))
                except (PrinterBoom, PrinterBoomBase):
                    got = ("raised", None)
                key = json.dumps({"kind": h["kind"], "kids": h["kids"], "calls": h["calls"]})
                run.case(key)
                if got[0] != want:
                    run.violation("history:" + key, f"after history {h['calls']} on graph kind={h['kind']} kids={h['kids']}, "
                                  f"hy.repr of object {o} {got[0]}; HyReprState (and a fresh interpreter: {ref[o][0]}) say {want}",
                                  {"history": h})
                    continue
                if got != ref[o]:
                    run.violation("history:" + key, f"after history {h['calls']} on graph kind={h['kind']} kids={h['kids']}, "
                                  f"hy.repr of object {o} gives {got[1]!r}, in a clean state {ref[o][1]!r}", {"history": h})
                if R._quoting or R._seen:
                    run.violation("state:" + key, f"after hy.repr of object {o} ({got[0]}) the printer state is not clean: "
                                  f"_quoting={R._quoting} |_seen|={len(R._seen)}", {"history": h})
                    R._quoting = False
                    R._seen.clear()
            traces.append({"kind": h["kind"], "kids": h["kids"], "ev": list(events)})
    finally:
        R.hy_repr = orig
    # code -> spec: the recorded enter/exit events with the global state after each
    neg = []
    if traces:
        t0 = json.loads(json.dumps(next(t for t in traces if len(t["ev"]) >= 2)))
        t0["ev"][-1]["n"] += 1            # state not restored at the last exit
        neg.append(t0)
        t1 = json.loads(json.dumps(next(t for t in traces if len(t["ev"]) >= 2)))
        t1["ev"] = t1["ev"][:-1]          # an exit is missing
        neg.append(t1)
    tf = run.work / "repr.ndjson"
    with open(tf, "w") as f:
        for t in traces + neg:
            f.write(json.dumps(t) + "\n")
    r3 = tlc.run("HyReprTrace", tlc.cfg(spec="TSpec", constants={"Objs": set(range(1, nobj + 1)), "MaxCalls": 99,
                                                               "RestoreOnRaise": True},
                                        invariants=["TClean", "TOutput", "Accept"]),
                 run.work, workers=16, env={"TRACE_FILE": str(tf)}, label="trace", timeout=3000)
    run.add_tlc(r3, f"HyReprTrace: {len(traces)} recorded histories")
    acc = {int(x) for x in r3.ex("ACC")}
    for j in range(len(neg)):
        if len(traces) + 1 + j in acc:
            raise MachineryError("negative control trace accepted by HyReprTrace")
    for i, t in enumerate(traces, 1):
        if i in acc:
            run.cov["traces_validated_against_impl"] += 1
        else:
            run.violation("trace:" + json.dumps(t)[:300], f"recorded hy.repr steps are not a behaviour of HyReprState: {t}",
                          {"trace": t})
    run.cov["histories_replayed"] = nreal
    run.sample({"history": hists[0]})
    run.sample({"trace": traces[len(traces) // 2] if traces else None})
    return run.finish("model_checking",
                      "HyReprState: every object graph on %d objects (plain containers, models, keywords, containers whose "
                      "printer raises; cycles included) x every history of %d top-level hy.repr calls, explored by TLC with "
                      "CleanBetweenCalls and OutputHistoryIndependent as invariants; realisable graphs are built from real "
                      "objects, each history replayed (outputs compared with a clean-state reference) and the recorded "
                      "enter/exit steps with (_quoting, |_seen|) validated by TLC" % (nobj, ncalls),
                      extra={"exhaustive": True})


# ---------------------------------------------------------------- C29
def realize_values(rng, kind, kids):
    """Python values for an abstract graph (None if it cannot be built)."""
    import hy.models as M
    n = len(kind)
    vals = {}
    flavour = {}
    for v in range(1, n + 1):
        k = kind[v - 1]
        if k == "atom":
            vals[v] = rng.choice([7, "s", None, True, 2.5, b"b", 3j, M.Keyword("k"), M.Symbol("sym"), -1, ""])
        elif k == "bad":
            vals[v] = (lambda: 0)
        elif k == "container":
            flavour[v] = rng.choice(["list", "dict", "list"])
            vals[v] = [] if flavour[v] == "list" else {}
    building = set()

    def model(v):
        if v in vals:
            return vals[v]
        if v in building:
            raise ValueError("cycle of models")
        building.add(v)
        ch = [model(c) for c in kids[v - 1]]
        building.discard(v)
        vals[v] = rng.choice([M.List, M.Expression, M.Tuple])(ch) if ch else M.List()
        return vals[v]
    try:
        for v in range(1, n + 1):
            if kind[v - 1] == "model":
                # a model holding unpromoted values cannot be *constructed* from a bad value: allowed, models
                # may contain non-models
                model(v)
    except ValueError:
        return None
    for v in range(1, n + 1):
        if kind[v - 1] == "container":
            if flavour[v] == "list":
                vals[v].extend(vals[c] for c in kids[v - 1])
            else:
                for i, c in enumerate(kids[v - 1]):
                    vals[v][f"k{i}"] = vals[c]
    return vals


def py_equal(a, b):
    import hy.models as M
    if isinstance(a, float) and isinstance(b, float) and a != a and b != b:
        return True
    if type(a) in (list, tuple) and type(a) is type(b):
        return len(a) == len(b) and all(py_equal(x, y) for x, y in zip(a, b))
    if isinstance(a, dict) and isinstance(b, dict):
        return a.keys() == b.keys() and all(py_equal(a[k], b[k]) for k in a)
    return a == b and (type(a) is type(b) or isinstance(a, M.Object) or isinstance(b, M.Object))


def random_value(rng, depth):
    import hy.models as M
    r = rng.random()
    if depth <= 0 or r < 0.45:
        return rng.choice([0, 1, -5, 2 ** 70, 1.5, -0.0, float("inf"), 2 + 3j, "", "a\"b\\c\n", "é", b"", b"\x00\xff", True,
                           False, None, M.Keyword("kw"), M.Keyword(""), M.Symbol("x"), M.Integer(3), M.String("q", brackets="z")])
    k = rng.choice(["list", "tuple", "dict", "set", "mlist", "mexpr"])
    n = rng.randint(0, 3)
    if k == "list":
        return [random_value(rng, depth - 1) for _ in range(n)]
    if k == "tuple":
        return tuple(random_value(rng, depth - 1) for _ in range(n))
    if k == "dict":
        return {rng.choice(["a", "b", 1, 2, M.Keyword("z")]): random_value(rng, depth - 1) for _ in range(n)}
    if k == "set":
        return {rng.choice([1, 2, "a", "b", None, 2.5]) for _ in range(n)}
    if k == "mlist":
        return M.List([random_value(rng, depth - 1) for _ in range(n)])
    return M.Expression([M.Symbol("quote"), M.List([random_value(rng, 0) for _ in range(n)])])


def main_c29(run):
    import hy
    import hy.models as M
    from hy.errors import HyWrapperError
    rng = random.Random(run.seed)
    q = run.quick
    nv, nc = (3, 2)
    r = tlc.run("HyAsModel", tlc.cfg(constants={"Vals": set(range(1, nv + 1)), "MaxCalls": nc, "RemoveOnRaise": True},
                                     invariants=["SeenEmptyBetweenCalls", "OutcomeDependsOnValueOnly", "SeenIsStack", "Export"]),
                run.work, workers=16, timeout=3400, heap="16g", label="asmodel")
    if r.violated:
        raise MachineryError(f"HyAsModel: {r.violated} violated on the specification")
    run.add_tlc(r, f"HyAsModel exhaustive: all value graphs on {nv} values x histories of {nc} promotions")
    r2 = tlc.run("HyAsModel", tlc.cfg(constants={"Vals": {1, 2}, "MaxCalls": 2, "RemoveOnRaise": False},
                                      invariants=["SeenEmptyBetweenCalls"]), run.work, workers=8, label="neg")
    if r2.violated != "SeenEmptyBetweenCalls":
        raise MachineryError("negative control: without the finally SeenEmptyBetweenCalls must fail")
    run.add_tlc(r2, "negative control: ids removed only on success violates SeenEmptyBetweenCalls")
    hists = r.ex("HIST")
    run.log(f"TLC: {r.distinct} states, {len(hists)} histories")
    hists = rng.sample(hists, min(len(hists), 4000 if q else 80000))
    # observe _seen at every nested promotion
    orig = M.as_model
    depth_bad = []

    def spy(x):
        try:
            return orig(x)
        finally:
            pass
    nrep = 0
    for h in hists:
        vals = realize_values(rng, h["kind"], h["kids"])
        if vals is None:
            continue
        nrep += 1
        key = json.dumps({"kind": h["kind"], "kids": h["kids"], "calls": h["calls"]})
        for (v, want) in h["calls"]:
            run.case(key + str(v))
            try:
                m = hy.as_model(vals[v])
                got = "ok"
            except HyWrapperError:
                got = "error"
            except RecursionError:
                got = "recursion"
            except Exception as e:
                got = "raised " + type(e).__name__
            if got != want:
                run.violation("outcome:" + key, f"hy.as_model on value {v} of graph kind={h['kind']} kids={h['kids']} after "
                              f"{h['calls']}: {got}, expected {want}", {"history": h})
            if M._seen:
                run.violation("seen:" + key, f"after hy.as_model ({got}) hy.models._seen is not empty", {"history": h})
                M._seen.clear()
            elif got == want:
                run.cov["traces_validated_against_impl"] += 1
            if got == "ok":
                try:
                    m2 = hy.as_model(m)
                    if model_diff(m, m2):
                        run.violation("idem:" + key, f"as_model is not idempotent: {model_diff(m, m2)}", {"history": h})
                except Exception as e:
                    run.violation("idem:" + key, f"as_model of its own output raised {e!r}", {"history": h})
    run.cov["histories_replayed"] = nrep
    # values: evaluating the promoted tree gives the value back
    nval = 0
    for _ in range(3000 if q else 200000):
        v = random_value(rng, rng.choice([1, 2, 3]))
        run.case(("value", repr(v)))
        try:
            m = hy.as_model(v)
        except Exception as e:
            run.violation("value:" + repr(v)[:200], f"hy.as_model({v!r}) raised {type(e).__name__}: {e}", {"value": repr(v)})
            continue
        if not isinstance(m, M.Object):
            run.violation("value:" + repr(v)[:200], f"hy.as_model({v!r}) is not a model", {"value": repr(v)})
            continue
        m2 = hy.as_model(m)
        if model_diff(m, m2):
            run.violation("value:" + repr(v)[:200], f"as_model not idempotent on {v!r}: {model_diff(m, m2)}", {"value": repr(v)})
        contains_model = "hy.models" in repr(v)
        if not contains_model:
            try:
                back = hy.eval(m)
            except Exception as e:
                run.violation("value:" + repr(v)[:200], f"evaluating as_model({v!r}) raised {type(e).__name__}: {e}",
                              {"value": repr(v)})
                continue
            if not py_equal(back, v):
                run.violation("value:" + repr(v)[:200], f"hy.eval(hy.as_model({v!r})) = {back!r}", {"value": repr(v)})
            else:
                nval += 1
                run.cov["traces_validated_against_impl"] += 1
    run.cov["values_roundtripped"] = nval
    # model containers of every class that already exist but hold children that are not models yet: promotion goes
    # through them (every node of the result is a model, equal to promoting the plain container), and a cycle
    # through them is refused like any other
    def pure(m):
        return isinstance(m, M.Object) and (not isinstance(m, M.Sequence) or all(pure(c) for c in m))
    raw_children = [[1, "a"], [(2, 3)], [[4], None], [{"k": 1}], [1.5, {2}], [M.Integer(1), [2]]]
    classes = [M.List, M.Tuple, M.Set, M.Expression, M.Dict]
    for cls in classes:
        for ch in raw_children:
            kids = ch if cls is not M.Dict or len(ch) % 2 == 0 else ch + [0]
            v = cls(kids)
            run.case(("model-container", cls.__name__, repr(ch)))
            try:
                m = hy.as_model(v)
            except Exception as e:
                run.violation("container:" + repr(v)[:150], f"as_model({cls.__name__} of {kids!r}) raised {type(e).__name__}: {e}", {})
                continue
            want = cls(hy.as_model(list(kids)))
            if not pure(m) or type(m) is not cls or model_diff(want, m):
                run.violation("container:" + repr(v)[:150], f"as_model of a {cls.__name__} holding {kids!r} is not a tree of models equal to "
                              f"the promoted children: {m!r}", {})
            else:
                run.cov["traces_validated_against_impl"] += 1
            for wrap in (lambda x: [x], lambda x: (1, x), lambda x: M.List([x]), lambda x: {"k": x}):
                try:
                    m2 = hy.as_model(wrap(v))
                    if not pure(m2):
                        run.violation("container:" + repr(v)[:150], f"as_model of a value holding {v!r} left a non-model inside: {m2!r}", {})
                except Exception as e:
                    run.violation("container:" + repr(v)[:150], f"as_model of a value holding {v!r} raised {type(e).__name__}: {e}", {})
        lst = []
        lst.append(cls([lst, lst] if cls is M.Dict else [lst]))
        run.case(("model-container-cycle", cls.__name__))
        try:
            hy.as_model(lst)
            run.violation("container-cycle:" + cls.__name__, f"a list that contains itself through a {cls.__name__} model was promoted", {})
        except HyWrapperError:
            run.cov["traces_validated_against_impl"] += 1
        except RecursionError:
            run.violation("container-cycle:" + cls.__name__, f"a cycle through a {cls.__name__} model recursed without bound", {})
    # an error is followed by normal service
    a = []
    a.append(a)
    for _ in range(3):
        try:
            hy.as_model(a)
            run.violation("selfref", "a self-referential list was promoted", {})
        except HyWrapperError:
            pass
        if hy.as_model([1, [2]]) != M.List([M.Integer(1), M.List([M.Integer(2)])]):
            run.violation("after-error", "as_model misbehaves after a HyWrapperError", {})
    run.sample({"history": hists[0]})
    run.sample({"value": repr(random_value(random.Random(5), 2))})
    return run.finish("model_checking",
                      "HyAsModel: every value graph on 3 values (atoms, containers that may contain themselves, models, "
                      "unpromotable objects) x every history of 2 promotions explored by TLC (SeenEmptyBetweenCalls, "
                      "OutcomeDependsOnValueOnly); a sample of histories replayed on real lists/dicts/models/functions "
                      "(outcome, _seen emptiness, idempotence), random nested values round-tripped through hy.eval, and existing model "
                      "containers of every class holding unpromoted children or closing a cycle",
                      extra={"exhaustive": True})


# ---------------------------------------------------------------- C27
def sh(k, ch=(), of=""):
    return {"k": k, "ch": list(ch), "of": of}


HASHABLE = ["atom", "tuple", "frozenset"]


def gen_shape(rng, depth, hashable=False, stack=()):
    """random value shape; `stack`: kinds of the enclosing mutable containers (for self references)"""
    r = rng.random()
    if depth <= 0 or r < 0.3:
        return sh("atom")
    if not hashable and stack and r < 0.38:
        return sh("self", of=rng.choice(stack))
    kinds = ["tuple", "frozenset", "fraction", "range", "range"] if hashable else \
        ["list", "tuple", "dict", "set", "frozenset", "bytearray", "fraction", "range", "range", "slice", "slice", "slice",
         "deque", "ordereddict", "counter", "defaultdict", "chainmap"]
    k = rng.choice(kinds)
    if hashable and k in ("tuple", "frozenset"):
        # keys / set elements must be pairwise different: never empty (their atoms are unique)
        return sh(k, [gen_shape(rng, min(depth - 1, 1), True, ()) for _ in range(rng.randint(1, 3))])
    if k == "range":
        return sh(k, of=[rng.choice(["0", "n"]), rng.choice(["1", "n"])])
    if k == "slice":
        return sh(k, of=[rng.choice(["None", "0", "n"]), rng.choice(["None", "1", "n"])])
    n = rng.randint(0, 3)
    if k in ("list", "deque"):
        return sh(k, [gen_shape(rng, depth - 1, False, stack + (k,)) for _ in range(n)])
    if k == "tuple":
        return sh(k, [gen_shape(rng, depth - 1, hashable, stack) for _ in range(n)])
    if k in ("set", "frozenset"):
        return sh(k, [gen_shape(rng, min(depth - 1, 1), True, ()) for _ in range(n)])
    if k in ("dict", "ordereddict", "defaultdict"):
        ch = []
        for _ in range(n):
            ch += [gen_shape(rng, min(depth - 1, 1), True, ()), gen_shape(rng, depth - 1, False, stack + (k,))]
        return sh(k, ch)
    if k == "counter":
        ch = []
        for _ in range(n):
            ch += [gen_shape(rng, 0, True, ()), sh("atom")]
        return sh(k, ch)
    if k == "chainmap":
        return sh(k, [gen_shape_dict(rng, depth - 1) for _ in range(rng.randint(1, 2))])
    return sh(k)


def gen_shape_dict(rng, depth):
    ch = []
    for _ in range(rng.randint(0, 2)):
        ch += [sh("atom"), gen_shape(rng, depth - 1)]
    return sh("dict", ch)


ATOM_POOL = None


_KEYSEQ = [0]


def atoms(rng, hashable, intonly=False):
    import hy.models as M
    if intonly:
        return rng.choice([0, 1, 5, -3])
    if hashable:
        # keys / set elements: mutually distinct values (no 1 vs True, 0 vs False vs -0.0 collisions)
        _KEYSEQ[0] += 1
        i = _KEYSEQ[0]
        return rng.choice([1000 + i, f"k{i}", float(i) + 0.5, complex(i, 1), f"é{i}".encode("utf-8"), M.Keyword(f"k{i}"),
                           2 ** 65 + i, -i - 2, (float("inf") if i % 97 == 0 else 3000 + i)])
    pool = [None, True, False, 0, 1, -7, 2 ** 65, 1.5, -0.0, float("inf"), float("-inf"), float("nan"), 1e300, 3 - 2j,
            complex(0, float("inf")), -2j, complex(0.0, -3.5), complex(-0.0, 1.0), complex(-0.0, -0.0), complex(0.0, -0.0),
            complex(-1.5, -0.0), -1, -2.5, "", "a", "q\"uo'te\\\n\t\x00", "é\u2603", b"", b"by\"\\\xff", M.Keyword("kw"),
            M.Keyword("")]
    return rng.choice(pool)


def fill(shape, rng, hashable=False, encl=()):
    """shape -> real value; encl = list of (kind, object) of enclosing mutable containers"""
    import collections
    from fractions import Fraction
    k = shape["k"]
    ch = shape["ch"]
    if k == "atom":
        return atoms(rng, hashable)
    if k == "self":
        for kind, obj in reversed(encl):
            if kind == shape["of"]:
                return obj
        return "no-such-container"
    if k == "list":
        v = []
        v.extend(fill(c, rng, False, encl + (("list", v),)) for c in ch)
        return v
    if k == "deque":
        v = collections.deque()
        v.extend(fill(c, rng, False, encl + (("deque", v),)) for c in ch)
        return v
    if k == "tuple":
        return tuple(fill(c, rng, hashable, encl) for c in ch)
    if k == "set":
        return {fill(c, rng, True) for c in ch}
    if k == "frozenset":
        return frozenset(fill(c, rng, True) for c in ch)
    if k in ("dict", "ordereddict", "defaultdict"):
        v = {} if k == "dict" else collections.OrderedDict() if k == "ordereddict" else \
            collections.defaultdict(rng.choice([list, int, dict, str, set]))
        for i in range(0, len(ch), 2):
            v[fill(ch[i], rng, True)] = fill(ch[i + 1], rng, False, encl + ((k, v),))
        return v
    if k == "counter":
        v = collections.Counter()
        for i in range(0, len(ch), 2):
            v[fill(ch[i], rng, True)] = atoms(rng, False, intonly=True)
        return v
    if k == "chainmap":
        return collections.ChainMap(*[fill(c, rng) for c in ch])
    if k == "bytearray":
        return bytearray(rng.choice([b"", b"ab", b"\x00\xff\""]))
    if k == "fraction":
        _KEYSEQ[0] += 1
        return Fraction(2 * _KEYSEQ[0] + 1, 2)
    if k == "range":
        _KEYSEQ[0] += 1
        i = _KEYSEQ[0]            # non-empty, pairwise different ranges (empty ranges are all equal)
        s_, t_ = shape["of"]
        start = 0 if s_ == "0" else rng.choice([1, 2, -2])
        step = 1 if t_ == "1" else rng.choice([2, 3])
        return range(start, start + (i + 3) * step, step)
    s_, t_ = shape["of"]
    start = {"None": None, "0": 0}.get(s_, rng.choice([1, "x", 2.5]))
    step = {"None": None, "1": 1}.get(t_, rng.choice([2, "z", 0.5]))
    return slice(start, rng.choice([None, 4, "y"]), step)


def val_equal(a, b):
    import collections
    if type(a) is not type(b):
        return False
    if isinstance(a, float):
        return (a != a and b != b) or (a == b and str(a) == str(b))
    if isinstance(a, complex):
        return val_equal(a.real, b.real) and val_equal(a.imag, b.imag)
    if isinstance(a, (list, tuple, collections.deque)):
        return len(a) == len(b) and all(val_equal(x, y) for x, y in zip(a, b))
    if isinstance(a, collections.ChainMap):
        return len(a.maps) == len(b.maps) and all(val_equal(x, y) for x, y in zip(a.maps, b.maps))
    if isinstance(a, dict):
        if isinstance(a, collections.defaultdict) and a.default_factory is not b.default_factory:
            return False
        if len(a) != len(b):
            return False
        ka, kb = list(a), list(b)
        for k in ka:
            m = [k2 for k2 in kb if val_equal(k, k2)]
            if not m or not val_equal(a[k], b[m[0]]):
                return False
        return not isinstance(a, collections.OrderedDict) or all(val_equal(x, y) for x, y in zip(ka, kb))
    if isinstance(a, (set, frozenset)):
        return len(a) == len(b) and all(any(val_equal(x, y) for y in b) for x in a)
    if isinstance(a, slice):
        return all(val_equal(x, y) for x, y in zip((a.start, a.stop, a.step), (b.start, b.stop, b.step)))
    return a == b


def skeleton(m):
    """model read from the printed text -> form skeleton comparable with the spec's"""
    import hy.models as M
    if isinstance(m, M.Symbol):
        if str(m) in ("None", "True", "False", "NaN", "Inf", "-Inf"):
            return {"f": "atom", "h": "", "ch": []}
        return {"f": "sym", "h": "..." if str(m) == "..." else "factory", "ch": []}
    if isinstance(m, M.Expression):
        if m and isinstance(m[0], M.Symbol) and str(m[0]) in ("frozenset", "bytearray", "Fraction", "range", "slice",
                                                                "deque", "OrderedDict", "Counter", "defaultdict", "ChainMap"):
            if str(m[0]) in ("range", "slice"):
                def cls(x, pos):
                    # start: 0 / None / anything else; step: 1 / None / anything else; stop: never classified
                    if x == M.Symbol("None"):
                        c = "None" if pos in ("start", "step") else "n"
                    elif pos == "start" and type(x) is M.Integer and int(x) == 0:
                        c = "0"
                    elif pos == "step" and type(x) is M.Integer and int(x) == 1:
                        c = "1"
                    else:
                        c = "n"
                    return {"f": "atom", "h": c, "ch": []}
                args = list(m[1:])
                pos = {1: ["stop"], 2: ["start", "stop"], 3: ["start", "stop", "step"]}.get(len(args), ["stop"] * len(args))
                return {"f": "expr", "h": str(m[0]), "ch": [cls(x, p_) for x, p_ in zip(args, pos)]}
            return {"f": "expr", "h": str(m[0]), "ch": [skeleton(x) for x in m[1:]]}
        return {"f": "atom", "h": "", "ch": []}      # e.g. a quoted model
    for cls, name in ((M.List, "list"), (M.Tuple, "tuple"), (M.Dict, "dict"), (M.Set, "set")):
        if isinstance(m, cls):
            return {"f": name, "h": "", "ch": [skeleton(x) for x in m]}
    return {"f": "atom", "h": "", "ch": []}


def canon(a):
    """canonical form of a skeleton: set elements and dict pairs in sorted order (their order is not fixed)"""
    ch = [canon(x) for x in a["ch"]]
    if a["f"] == "set":
        ch = sorted(ch, key=lambda x: json.dumps(x, sort_keys=True))
    elif a["f"] == "dict" and len(ch) % 2 == 0:
        pairs = sorted(zip(ch[0::2], ch[1::2]), key=lambda x: json.dumps(x, sort_keys=True))
        ch = [y for p_ in pairs for y in p_]
    return {"f": a["f"], "h": a["h"], "ch": ch}


def skel_equal(a, b):
    return canon(a) == canon(b)


def main_c27(run):
    import collections
    import signal
    from fractions import Fraction
    import hy
    rng = random.Random(run.seed)
    q = run.quick
    shapes = []
    for _ in range(2500 if q else 100000):
        shapes.append(gen_shape(rng, rng.choice([2, 3, 3, 4])))
    seen = set()
    uniq = []
    for s_ in shapes:
        k = json.dumps(s_, sort_keys=True)
        if k not in seen:
            seen.add(k)
            uniq.append(s_)
    shapes = uniq
    sf = run.work / "shapes.ndjson"
    with open(sf, "w") as f:
        for s_ in shapes:
            f.write(json.dumps({"v": s_}) + "\n")
    r = tlc.run("HyReprValues", tlc.cfg(invariants=["RoundTrip", "InputsWellFormed", "FormBounded", "Export"]), run.work,
                workers=16, env={"SHAPE_FILE": str(sf)}, label="shapes", timeout=3000)
    if r.violated:
        raise MachineryError(f"HyReprValues: {r.violated} violated on the specification")
    run.add_tlc(r, f"HyReprValues: {len(shapes)} distinct value shapes")
    forms = {e["sid"]: e["form"] for e in r.ex("FORM")}
    env = {"Fraction": Fraction, "deque": collections.deque, "OrderedDict": collections.OrderedDict,
           "Counter": collections.Counter, "defaultdict": collections.defaultdict, "ChainMap": collections.ChainMap}

    class Hang(BaseException):
        pass

    def alarm(*a):
        raise Hang()
    nfill = 2 if q else 20
    nstruct = 0
    for i, s_ in enumerate(shapes, 1):
        cyclic = "\"self\"" in json.dumps(s_)
        for j in range(nfill):
            x = fill(s_, rng)
            run.case((i, j), nontrivial=s_["k"] != "atom")
            old = signal.signal(signal.SIGALRM, alarm)
            signal.setitimer(signal.ITIMER_REAL, 5.0)
            try:
                t = hy.repr(x)
            except Hang:
                run.violation("hang:" + json.dumps(s_), f"hy.repr does not terminate on a value of shape {s_}", {"shape": s_})
                continue
            except RecursionError:
                run.violation("recursion:" + json.dumps(s_), f"hy.repr recursed without bound on shape {s_}", {"shape": s_})
                continue
            finally:
                signal.setitimer(signal.ITIMER_REAL, 0)
                signal.signal(signal.SIGALRM, old)
            try:
                m = hy.read(t)
            except Exception as e:
                run.violation("unreadable:" + t[:100], f"hy.repr gave {t!r}, which does not read: {e}", {"text": t, "shape": s_})
                continue
            if j == 0:
                if skel_equal(skeleton(m), forms[i]):
                    nstruct += 1
                elif "(defaultdict <class" in t:
                    pass      # reported below under the known finding
                else:
                    run.violation("shape:" + json.dumps(s_)[:200], f"hy.repr of a value of shape {s_} printed {t!r}; the "
                                  f"documented form is {forms[i]}", {"shape": s_, "text": t})
            if cyclic:
                def has_cycle(o, path=()):
                    if isinstance(o, (list, dict, collections.deque)) and any(o is p_ for p_ in path):
                        return True
                    kids_ = list(o.values()) if isinstance(o, dict) else list(o) if isinstance(o, (list, tuple, collections.deque)) else \
                        list(o.maps) if isinstance(o, collections.ChainMap) else []
                    return any(has_cycle(c_, path + (o,)) for c_ in kids_)
                if not has_cycle(x):
                    continue
                if "..." not in t:
                    run.violation("placeholder:" + t[:100], f"self-referential value printed without placeholder: {t!r}",
                                  {"shape": s_, "text": t})
                else:
                    run.cov["traces_validated_against_impl"] += 1
                continue
            if "<class '" in t and "(defaultdict <class" in t:
                run.violation("defaultdict: factory printed with Python's repr",
                              f"{t[:120]!r} does not evaluate back", {"text": t, "shape": s_})
                continue
            try:
                y = hy.eval(m, dict(env))
            except Exception as e:
                run.violation("eval:" + t[:120], f"evaluating {t!r} raised {type(e).__name__}: {e}", {"text": t, "shape": s_})
                continue
            if not val_equal(x, y):
                run.violation("value:" + t[:120], f"hy.repr({x!r}) = {t!r} evaluates to {y!r}", {"text": t, "shape": s_})
            else:
                run.cov["traces_validated_against_impl"] += 1
    run.cov["structure_matches"] = nstruct
    # text atoms systematically: every str / bytes / bytearray of <= 3 (4) characters over the characters the
    # printer has to escape or choose quotes around, alone and as list element and dict key
    import itertools
    ntext = 0
    chars = ["'", '"', "\\", "a", "\n", "{", "é"]
    for n in range(0, 4 if q else 5):
        for combo in itertools.product(chars, repeat=n):
            s0 = "".join(combo)
            vals = [s0, [s0, s0], {s0: 1}]
            if "é" not in s0:
                vals += [s0.encode(), bytearray(s0.encode()), [s0.encode()]]
            for x in vals:
                ntext += 1
                run.case(("text", repr(x)))
                try:
                    t = hy.repr(x)
                    y = hy.eval(hy.read(t), dict(env))
                except Exception as e:
                    run.violation("text:" + repr(x), f"hy.repr({x!r}) does not read or evaluate: {type(e).__name__}: {e}", {"value": repr(x)})
                    continue
                if not val_equal(x, y):
                    run.violation("text:" + repr(x), f"hy.repr({x!r}) = {t!r} evaluates to {y!r}", {"value": repr(x), "text": t})
                else:
                    run.cov["traces_validated_against_impl"] += 1
    run.cov["text_atoms"] = ntext
    # numbers: every combination of signed zeros, ordinary and special parts of floats and complex numbers
    parts = [0.0, -0.0, 1.5, -1.5, float("inf"), float("-inf"), float("nan"), 1e300, -1e-300, 3.0, -3.0]
    nums = list(parts) + [complex(a, b) for a in parts for b in parts] + [0, -1, 7, -(2 ** 70), 2 ** 70, True, False]
    for x0 in nums:
        for x in (x0, [x0], {"k": x0}, (x0, x0)):
            run.case(("number", repr(x)))
            try:
                t = hy.repr(x)
                y = hy.eval(hy.read(t), dict(env))
            except Exception as e:
                run.violation("number:" + repr(x), f"hy.repr({x!r}) does not read or evaluate: {type(e).__name__}: {e}", {"value": repr(x)})
                continue
            if not val_equal(x, y):
                run.violation("number:" + repr(x), f"hy.repr({x!r}) = {t!r} evaluates to {y!r}", {"value": repr(x), "text": t})
            else:
                run.cov["traces_validated_against_impl"] += 1
    run.cov["number_atoms"] = len(nums)
    run.sample({"shape": shapes[3], "form": forms[4]})
    run.sample({"value": repr(fill(shapes[3], rng)), "printed": hy.repr(fill(shapes[3], rng))})
    return run.finish("model_checking",
                      "value shapes over None/bool/int/float/complex/str/bytes/bytearray/list/tuple/dict/set/frozenset/"
                      "keyword/Fraction/range/slice/deque/OrderedDict/Counter/defaultdict/ChainMap with self references; "
                      "TLC computes the documented form skeleton of each (Unform(Form(v)) = v checked) and the harness fills "
                      "the atoms (inf, nan, -0.0, big ints, quotes/escapes/non-ASCII): printed text must read to that "
                      "skeleton, evaluate to an equal value of the same type, print a placeholder for self reference, and "
                      "terminate; plus every str / bytes / bytearray of <= 3 (4) characters over quotes, backslash, newline, "
                      "brace, letters, alone and inside a list and a dict",
                      assumptions=["atom formatting (floats, string escapes) is exercised, not modelled"])


def main(run):
    return {"C25": main_c25, "C30": main_c30, "C31": main_c31, "C28": main_c28, "C29": main_c29,
            "C27": main_c27}[run.pid](run)


def replay(run, path):
    import hy
    d = json.load(open(path))["replay"]
    if "text" in d:
        for m in hy.read_many(d["text"]):
            print(roundtrip(m))
    return 1
