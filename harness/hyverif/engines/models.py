"""C25 (hy.repr of models reads back), C30 (quote), C31 (quasiquote), C29 (as_model),
C28 (hy.repr state), C27 (hy.repr of values)."""
import json
import random

from .. import tlc
from ..core import MachineryError


def model_diff(a, b, path="m"):
    """None if the two models are equal node by node (type, value, brackets, conversion, is_tstring)."""
    import hy.models as M
    if type(a) is not type(b):
        return f"{path}: type {type(a).__name__} vs {type(b).__name__}"
    if isinstance(a, M.Sequence):
        for attr in ("brackets", "conversion", "is_tstring"):
            if getattr(a, attr, None) != getattr(b, attr, None):
                return f"{path}: {attr} {getattr(a, attr, None)!r} vs {getattr(b, attr, None)!r}"
        if len(a) != len(b):
            return f"{path}: length {len(a)} vs {len(b)}"
        for i, (x, y) in enumerate(zip(a, b)):
            d = model_diff(x, y, f"{path}[{i}]")
            if d:
                return d
        return None
    if isinstance(a, M.String) and a.brackets != b.brackets:
        return f"{path}: brackets {a.brackets!r} vs {b.brackets!r}"
    if isinstance(a, M.Keyword):
        return None if a.name == b.name else f"{path}: keyword {a.name!r} vs {b.name!r}"
    if isinstance(a, (M.Float, M.Complex)):
        return None if repr(a) == repr(b) else f"{path}: value {a!r} vs {b!r}"
    return None if a == b and str(a) == str(b) else f"{path}: value {a!r} vs {b!r}"


def roundtrip(m):
    """Returns (problem or None, printed text)."""
    import hy
    try:
        r = hy.repr(m)
    except Exception as e:
        return f"hy.repr raised {type(e).__name__}: {e}", None
    try:
        m2 = hy.eval(hy.read(r))
    except Exception as e:
        return f"reading/evaluating {r!r} raised {type(e).__name__}: {e}", r
    d = model_diff(m, m2)
    if d:
        return f"{r!r} reads back differently: {d}", r
    try:
        r2 = hy.repr(m2)
    except Exception as e:
        return f"printing the re-read model raised {e!r}", r
    if r2 != r:
        return f"printing again gives {r2!r} instead of {r!r}", r
    return None, r


PRINT_RUNS = [  # label, alphabet, start, MaxLen quick, MaxLen thorough
    ("general", None, [], 3, 4),
    ("fstring", ["\"", "{", "}", "a", " ", "!", ":", "=", "r", "(", ")", "b"], ["f", "\"", "{"], 4, 5),
    ("bracket", ["[", "]", "a", "\n", "f", "{", "}"], ["#", "["], 5, 6),
    ("strings", ["\"", "\\", "a", "n", "{", "}", "\n", "\r", "'", "x", "1"], ["\""], 4, 5),
    ("sugar", ["'", "`", "~", "@", "#", "*", "a", " ", "(", ")", ".", "N", "o", "n", "e", "^"], [], 4, 5),
]


def main_c25(run):
    import hy
    from .reader import ALPHA, mutated_programs
    rng = random.Random(run.seed)
    q = run.quick
    texts = []
    for label, alpha, start, lq, lt in PRINT_RUNS:
        alpha = alpha or ALPHA
        L = lq if q else lt
        r = tlc.run("HyPrint", tlc.cfg(constants={"MaxLen": L}, invariants=["PrintReadsBack", "PrintIdempotent", "Export"]),
                    run.work, workers=16, timeout=3400, heap="16g", label=label,
                    defs={"Alphabet": tlc.tla(set(alpha)), "Start": tlc.tla(start), "FixedPrinter": "TRUE"})
        if r.violated:
            raise MachineryError(f"HyPrint: {r.violated} fails on the specification ({label})")
        run.add_tlc(r, f"HyPrint {label}: Read(Print(m)) = m and print-idempotence for every model read from a text "
                       f"{''.join(start)!r}+<={L}")
        rows = r.ex("ROW")
        if q and len(rows) > 5000:
            rows = rng.sample(rows, 5000)      # the law is checked by TLC on all; the real round trip on a sample
        texts += [("".join(row["text"]), ["".join(p) for p in row["printed"]]) for row in rows]
    # negative controls: the printer as it was before the fix must violate the law on the spec
    for label, alpha, start, L in [("fstring", PRINT_RUNS[1][1], PRINT_RUNS[1][2], 5), ("bracket", ["[", "]", "a", "\n"], ["#", "["], 5)]:
        r = tlc.run("HyPrint", tlc.cfg(constants={"MaxLen": L}, invariants=["PrintReadsBack"]), run.work, workers=16,
                    label="neg-" + label, defs={"Alphabet": tlc.tla(set(alpha)), "Start": tlc.tla(start), "FixedPrinter": "FALSE"})
        if r.violated != "PrintReadsBack":
            raise MachineryError(f"negative control: the pre-fix printer should violate PrintReadsBack ({label})")
        run.add_tlc(r, f"negative control {label}: printer as at the pinned commit violates PrintReadsBack")
    run.log(f"{len(texts)} well-formed texts with models, from TLC")
    nspec_same = 0
    for t, printed in texts:
        try:
            ms = list(hy.read_many(t))
        except Exception as e:
            run.notes.append(f"spec reads {t!r} but the reader raises {e!r}")
            continue
        for k, m in enumerate(ms):
            prob, r = roundtrip(m)
            run.case(t)
            if prob:
                run.violation("text:" + t, f"model read from {t!r}: {prob}", {"text": t})
            else:
                run.cov["traces_validated_against_impl"] += 1
                if k < len(printed) and r is not None and r.lstrip("'") == printed[k]:
                    nspec_same += 1
    run.cov["printed_text_equal_to_spec"] = nspec_same
    # longer programs and models assembled from reader-valid parts
    from hy.models import (Symbol, Keyword, String, Expression, List, FString, FComponent, Integer, Dict, Tuple, Set,
                           Bytes, Float, Complex)
    built = [Expression([Symbol("unquote"), Symbol("@a")]), Expression([Symbol("unquote-splice"), Symbol("a")]),
             Expression([Symbol("quote")]), Expression([Symbol("."), Symbol("a"), Symbol("b")]),
             Expression([Symbol("."), Symbol("None"), Symbol("a")]), Expression([Symbol(".."), Symbol("None"), Symbol("a"), Symbol("b")]),
             Expression([Symbol("."), Symbol("a")]), Expression([Symbol("."), Symbol("a"), Integer(1)]),
             String("\nx", brackets=""), String("\n\nx", brackets="d"), String("a]b", brackets="=="),
             FString([String("a{"), FComponent([Symbol("x"), String(">"), FComponent([Symbol("w")]), String("{")], conversion="r")]),
             FString([FComponent([Dict([Integer(1), Integer(2)])])]), FString([FComponent([Dict([])], conversion="s")]),
             FString([String("\nq"), FComponent([Symbol("x")])], brackets="f"),
             FString([FComponent([Symbol("x")], is_tstring=True)], is_tstring=True),
             List([Keyword(""), Keyword("a"), Symbol("..."), Symbol("None"), Symbol("True")]),
             Tuple([]), Set([]), Dict([]), Expression([]), List([Bytes(b"a\"\\\n"), String("\"'\\\n\r\t\x00é")]),
             Expression([Symbol("unpack-iterable"), Symbol("xs")]), Expression([Symbol("unpack-mapping"), Dict([])]),
             Expression([Symbol("annotate"), Symbol("a"), Symbol("int")]),
             Float("NaN"), Float("-Inf"), Complex("1+NaNj"), Float("1e300"), Integer(-5)]
    for m in built:
        prob, r = roundtrip(m)
        run.case(("built", repr(m)))
        if prob:
            run.violation("built:" + repr(m), f"constructed model {m!r}: {prob}", {"model": repr(m)})
        else:
            run.cov["traces_validated_against_impl"] += 1
    nprog = 0
    for t in mutated_programs(rng, 300 if q else 20000):
        try:
            ms = list(hy.read_many(t))
        except Exception:
            continue
        nprog += 1
        for m in ms:
            prob, r = roundtrip(m)
            run.case(t)
            if prob:
                run.violation("text:" + t, f"model read from {t!r}: {prob}", {"text": t})
            else:
                run.cov["traces_validated_against_impl"] += 1
    run.cov["generated_programs"] = nprog
    run.sample({"text": texts[len(texts) // 2][0], "spec_print": texts[len(texts) // 2][1]})
    run.sample({"built": repr(built[11]), "printed": hy.repr(built[11])})
    return run.finish("model_checking",
                      "HyPrint (the model printer composed with the reader spec): Read(Print(m)) = m and print idempotence "
                      "are TLC-checked for every model readable from short texts over 5 alphabets (general, f-string fields, "
                      "bracket strings, string escapes, sugar/dotted forms); the same texts, longer generated programs and "
                      "hand-assembled models go through the real hy.repr -> hy.read -> hy.eval, compared node by node "
                      "(type, value, brackets, conversion, is_tstring) and re-printed",
                      extra={"exhaustive": True})


def main(run):
    return {"C25": main_c25}[run.pid](run)


def replay(run, path):
    import hy
    d = json.load(open(path))["replay"]
    if "text" in d:
        for m in hy.read_many(d["text"]):
            print(roundtrip(m))
    return 1
