"""Checks that ride on the HyCore corpus: C14 (hy2py output), C12 (introduced
names), C13 (determinism across hash seeds)."""
import ast
import contextlib
import hashlib
import io
import json
import os
import random
import subprocess
import sys
import types

from .. import hycore, tlc
from ..core import MachineryError, PY, VERIF
from ..corpus import ALL_FORMS, Enum, clone, make_script, number, random_program
from ..hycore import T, render, run_hy
from . import core as C


def assigned(root, nv):
    """(do (setv <name nv> <root>)) -- makes the program's value a global."""
    return T("do", 0, [T("setv", 0, [T("var", nv), root])])


def corpus_trees(run, rng, nv_pool=3):
    q = run.quick
    forms_small = {"lit", "var", "eff", "eff1", "do", "if", "and", "or", "setv", "setx", "list", "+",
                   "when", "while", "break", "let", "fn", "call", "try", "raise", "with"}
    en = Enum(forms_small, nv=2, lits=(["none", 0, []], ["int", 1, []]))
    trees = []
    for size in ([2, 3, 4] if q else [2, 3, 4, 5]):
        xs = [T("do", 0, [x]) for x in en.exprs(size)]
        cap = 1200 if q else 30000
        if len(xs) > cap:
            xs = rng.sample(xs, cap)
        trees += xs
    for i in range(300 if q else 6000):
        t = random_program(rng, ALL_FORMS, rng.choice([3, 4, 5]), nv=nv_pool)
        trees.append(t)
        if i % 4 == 0:
            trees.append(C.wrap_in_fn(t, nv_pool))
    return trees


# ---------------------------------------------------------------- C14
def annotation_family(run):
    """fn / defn over every signature HyBind enumerates (<= 3 parameters), with an annotation on each
    parameter in turn, on all of them, and on the return value: hy2py's text must parse and define a
    function that binds its arguments like the compiled AST does."""
    import ast as pyast
    import hy
    from hy.compiler import hy_compile
    r = tlc.run("HyBind", tlc.cfg(constants={"MaxParams": 3, "MaxItems": 0}, invariants=["Export"]), run.work, workers=8,
                label="c14-signatures")
    sigs = [x["sig"] for x in r.ex("CASE")]
    run.add_tlc(r, f"HyBind signatures of <= 3 parameters ({len(sigs)}) for the annotated fn / defn family")

    def hy_params(sig, ann):
        out, seen_slash = [], False
        for j, p_ in enumerate(sig, 1):
            k, d = p_["k"], p_["d"]
            if k != "po" and not seen_slash and any(q_["k"] == "po" for q_ in sig):
                out.append("/")
                seen_slash = True
            a = "#^ int " if j in ann else ""
            nm = f"p{j}"
            if k in ("po", "n", "ko"):
                out.append(f"{a}[{nm} {900 + j}]" if d else f"{a}{nm}")
            elif k == "va":
                out.append(f"{a}#* {nm}")
            elif k == "bs":
                out.append("*")
            else:
                out.append(f"{a}#** {nm}")
        if any(q_["k"] == "po" for q_ in sig) and not seen_slash:
            out.append("/")
        return " ".join(out)
    n = 0
    for sig in sigs:
        names = [f"p{j}" for j, p_ in enumerate(sig, 1) if p_["k"] != "bs"]
        annotatable = [j for j, p_ in enumerate(sig, 1) if p_["k"] != "bs"]
        anns = [set()] + [{j} for j in annotatable] + ([set(annotatable)] if len(annotatable) > 1 else [])
        # a call that satisfies the signature: required positionals positionally, required keyword-only by keyword
        pos = [str(10 * j) for j, p_ in enumerate(sig, 1) if p_["k"] in ("po", "n") and not p_["d"]]
        kws = [f":p{j} {10 * j}" for j, p_ in enumerate(sig, 1) if p_["k"] == "ko" and not p_["d"]]
        call = " ".join(pos + kws)
        for ann in anns:
            for head, ret in (("fn", ""), ("fn", "#^ int "), ("defn hyv-g", ""), ("defn hyv-g", "#^ int ")):
                if head == "fn":
                    text = f"(setv F (fn {ret}[{hy_params(sig, ann)}] [{' '.join(names)}]))\n(setv OUT (F {call}))\n"
                else:
                    text = f"({head.split()[0]} {ret}hyv-g [{hy_params(sig, ann)}] [{' '.join(names)}])\n(setv OUT (hyv-g {call}))\n"
                run.case(text)
                n += 1
                m1 = types.ModuleType("hyv_ann1")
                try:
                    tree = hy_compile(hy.read_many(text), m1)
                    exec(compile(tree, "<ann>", "exec"), m1.__dict__)
                except Exception as x:
                    run.cov["annotation_family_rejected"] = run.cov.get("annotation_family_rejected", 0) + 1
                    continue
                src = pyast.unparse(tree)
                m2 = {}
                try:
                    exec(compile(pyast.parse(src), "<ann-py>", "exec"), m2)
                except SyntaxError as x:
                    run.violation("unparse:" + text, f"hy2py output of {text!r} does not parse: {x}; text: {src!r}",
                                  {"text": text, "py": src})
                    continue
                except Exception as x:
                    run.violation("differs:" + text, f"hy2py output of {text!r} fails with {type(x).__name__}: {x}",
                                  {"text": text, "py": src})
                    continue
                if repr(m2.get("OUT")) != repr(m1.OUT):
                    run.violation("differs:" + text, f"{text!r}: compiled AST gives {m1.OUT!r}, hy2py's source gives {m2.get('OUT')!r}",
                                  {"text": text, "py": src})
                else:
                    run.cov["traces_validated_against_impl"] += 1
    run.cov["annotation_family"] = n


def precedence_family(run):
    """Literals and names in the operand positions where Python's concrete syntax binds tighter than a sign or
    where a keyword cannot stand: the compiled AST holds the value / name, the printed source has to mean it too."""
    import itertools
    import hy
    from hy.compiler import hy_compile
    lits = ["-1", "-2.5", "-2j", "1", "2.5", "2j", "-0.0", "1-2j", "-1e400", "(- 1)", "(- -1)"]
    slots = ["(** {} 2)", "(** 2 {})", "(. {} real)", "(.conjugate {})", "(get [1 2 3] {})", "(- {})", "(+ {} {})", "(* {} {})",
             "(abs {})", "[{} {}]", "(if {} 1 2)", "(not {})", "(bnot {})", "(// 7 {})", "(% {} 3)", "(< {} {})", "(await-free {})",
             "(lfor q [{}] (** q 2))", "(fn-default {})", "f\"{{{}}}\"", "(match {} {} \"hit\" _ \"miss\")", "(cut [1 2 3] {} None)"]
    texts = []
    for sl, l in itertools.product(slots, lits):
        if sl == "(bnot {})" and ("." in l or "j" in l or "e" in l):
            continue
        if sl in ("(get [1 2 3] {})", "(cut [1 2 3] {} None)") and l not in ("-1", "1", "(- 1)", "(- -1)"):
            continue
        if sl == "(match {} {} \"hit\" _ \"miss\")" and l.startswith("("):
            continue
        if ("j" in l) and sl in ("(// 7 {})", "(% {} 3)", "(< {} {})"):
            continue
        body = sl.replace("{}", l)
        body = body.replace("(await-free ", "(str ").replace("(fn-default " + l + ")", f"((fn [[p {l}]] p))")
        texts.append(f"(setv OUT {body})")
    # Python keywords as names in every naming position
    for kw in ("class", "def", "pass", "with", "lambda", "is", "not", "in", "del", "async", "match", "type", "print"):
        texts += [f"(setv {kw} 1) (setv OUT {kw})", f"(defn {kw} [] 2) (setv OUT ({kw}))",
                  f"(defn hyv-f [{kw}] {kw}) (setv OUT (hyv-f 3))", f"(defn hyv-f [* {kw}] {kw}) (setv OUT (hyv-f :{kw} 4))",
                  f"(setv {kw} 0) (defn hyv-f [] (global {kw}) (setv {kw} 5)) (hyv-f) (setv OUT {kw})",
                  f"(defn hyv-o [] (setv {kw} 0) (defn hyv-i [] (nonlocal {kw}) (setv {kw} 6)) (hyv-i) {kw}) (setv OUT (hyv-o))",
                  f"(import math :as {kw}) (setv OUT (. {kw} pi))", f"(import math [pi :as {kw}]) (setv OUT {kw})",
                  f"(defclass {kw} [] (setv {kw} 7)) (setv OUT (. {kw} {kw}))", f"(setv hyv-o (type \"T\" #() {{}})) (setv hyv-o.{kw} 8) (setv OUT hyv-o.{kw})",
                  f"(for [{kw} [9]] (setv OUT {kw}))", f"(setv OUT (lfor {kw} [1 2] {kw}))", f"(setv {kw} 1) (del {kw}) (setv OUT 10)",
                  f"(try (raise (ValueError 11)) (except [{kw} ValueError] (setv OUT (get (. {kw} args) 0))))",
                  f"(setv OUT (match 12 {kw} {kw}))", f"(setv OUT (let [{kw} 13] {kw}))", f"(with [{kw} (open \"/dev/null\")] (setv OUT 14))"]
    n = 0
    for text in texts:
        run.case(("prec", text))
        m1 = types.ModuleType("hyv_prec")
        try:
            tree = hy_compile(hy.read_many(text), m1)
            code = compile(tree, "<prec>", "exec")
        except Exception:
            run.cov["precedence_family_rejected"] = run.cov.get("precedence_family_rejected", 0) + 1
            continue
        n += 1

        def outcome(code_, ns):
            try:
                exec(code_, ns)
                return ("value", repr(ns.get("OUT")))
            except Exception as x:
                return ("raised", type(x).__name__)
        o1 = outcome(code, m1.__dict__)
        src = ast.unparse(tree)
        try:
            code2 = compile(ast.parse(src), "<prec-py>", "exec")
        except SyntaxError as x:
            run.violation("unparse:" + text, f"hy2py output of {text!r} does not parse: {x}; text: {src!r}", {"text": text, "py": src})
            continue
        o2 = outcome(code2, {"__name__": "hyv_prec"})
        if o1 != o2:
            run.violation("differs:" + text, f"{text!r}: the compiled AST gives {o1}, hy2py's source {src!r} gives {o2}",
                          {"text": text, "py": src})
        else:
            run.cov["traces_validated_against_impl"] += 1
    run.cov["precedence_family"] = n


def main_c14(run):
    rng = random.Random(run.seed)
    nv = 4
    annotation_family(run)
    precedence_family(run)
    old_names = list(hycore.NAMES)
    # Python keywords and a non-ASCII, hyphenated name in the variable pool
    hycore.NAMES[:] = ["pass", "class", "naïve-λ", "res", "g", "h"]
    try:
        trees = [assigned(t, nv) for t in corpus_trees(run, rng)]
        run.log(f"{len(trees)} programs")
        cases = []
        n_cmp = 0
        n_cmd = 0
        for t in trees:
            t = clone(t)
            ns, ncm = number(t)
            sc, supp = make_script(rng, t, ns, ncm)
            faults = [{}]
            base = C.observe(t, sc, supp, {}, nv, tag="no fault", mode="unparse")
            variants = [base]
            if "log" in base.obs:
                variants += C.fault_variants(rng, base, nv, 2 if run.quick else 4, mode="unparse")
            for c in variants:
                if "unparse_error" in c.obs:
                    run.violation("unparse:" + c.text, f"hy2py output of {c.text} does not parse: "
                                  f"{c.obs['unparse_error']}", {"text": c.text, "py": c.obs.get("py")})
                    continue
                direct = run_hy(c.text, c.script, c.fault, c.supp, c.ns, nv=nv, mode="module")
                n_cmp += 1
                keys = ("log", "out", "globals")
                if "log" in c.obs and "log" in direct:
                    if any(c.obs[k] != direct[k] for k in keys):
                        run.violation("differs:" + c.text + "|" + c.tag,
                                      f"{c.text} [{c.tag}]: running hy2py's source gives "
                                      f"out={c.obs['out']} log={c.obs['log']} globals={c.obs['globals']} but the "
                                      f"compiled AST gives out={direct['out']} log={direct['log']} "
                                      f"globals={direct['globals']}",
                                      {"text": c.text, "script": c.script, "fault": c.fault, "supp": c.supp})
                elif "compile_error" in direct:
                    # the AST itself is rejected by compile(): the program is not one "the compiler
                    # accepts" -- that is property C10's business
                    run.cov["direct_compile_errors"] = run.cov.get("direct_compile_errors", 0) + 1
                    continue
                elif ("log" in c.obs) != ("log" in direct) and not ("runaway" in c.obs or "runaway" in direct):
                    run.violation("differs:" + c.text + "|" + c.tag,
                                  f"{c.text}: unparse path {sorted(c.obs)} vs direct {sorted(direct)}",
                                  {"text": c.text, "script": c.script, "fault": c.fault, "supp": c.supp})
                cases.append(c)
            # the command path itself, for a sample
            if n_cmd < (60 if run.quick else 1500) and "log" in base.obs:
                n_cmd += 1
                from hy.cmdline import hy2py_worker
                from hy.compiler import hy_compile
                import hy
                opts = types.SimpleNamespace(output=None, with_source=False, with_ast=False, without_python=False)
                buf = io.StringIO()
                with contextlib.redirect_stdout(buf):
                    hy2py_worker(base.text, opts, filename="<stdin>")
                m = types.ModuleType("<stdin>")
                want = ast.unparse(hy_compile(hy.read_many(base.text), m))
                got = buf.getvalue().rstrip("\n")
                try:
                    ast.parse(got)
                except SyntaxError as x:
                    run.violation("hy2py-cmd:" + base.text, f"hy2py output does not parse: {x}", {"text": base.text})
                if got != want.rstrip("\n"):
                    run.notes.append(f"hy2py_worker text differs from ast.unparse(hy_compile) for {base.text}")
        run.cov["direct_vs_unparsed_comparisons"] = n_cmp
        run.cov["hy2py_worker_runs"] = n_cmd
        us = C.decide(run, cases, nv, "c14")
        for c in us[:1] + us[-2:]:
            run.sample(C.sample_of(c))
    finally:
        hycore.NAMES[:] = old_names
    return run.finish("model_checking",
                      "C01/C09-style programs (exhaustive small + random deep, fault at each effect) over a variable "
                      "pool containing Python keywords and a non-ASCII hyphenated name; each is run (i) from the "
                      "compiled AST and (ii) from ast.parse(ast.unparse(AST)); (ii) must parse, (i) and (ii) must agree "
                      "on log/values/exception, and (ii) is trace-validated by TLC against HyCore; plus every HyBind signature with "
                      "annotations, and numeric literals (negative, complex, huge) in 22 operand positions and 13 Python keywords in "
                      "17 naming positions, run both ways",
                      assumptions=["hy2py = ast.unparse(hy_compile(...)) (checked on a sample through hy2py_worker)"])


# ---------------------------------------------------------------- C12
def ident_names(tree):
    out = []
    for n in ast.walk(tree):
        if isinstance(n, ast.Name):
            out.append(("Name", n.id))
        elif isinstance(n, (ast.FunctionDef, ast.AsyncFunctionDef, ast.ClassDef)):
            out.append(("def", n.name))
        elif isinstance(n, ast.arg):
            out.append(("arg", n.arg))
        elif isinstance(n, ast.Attribute):
            out.append(("attr", n.attr))
        elif isinstance(n, ast.alias):
            out.append(("alias", n.name.split(".")[0]))
            if n.asname:
                out.append(("alias", n.asname))
        elif isinstance(n, ast.ExceptHandler) and n.name:
            out.append(("handler", n.name))
        elif isinstance(n, ast.keyword) and n.arg:
            out.append(("keyword", n.arg))
        elif isinstance(n, (ast.Global, ast.Nonlocal)):
            out += [("decl", x) for x in n.names]
        elif isinstance(n, (ast.MatchAs, ast.MatchStar)) and n.name:
            out.append(("match", n.name))
    return out


def main_c12(run):
    import hy
    from hy.compiler import HyASTCompiler
    rng = random.Random(run.seed)
    nv = 4
    old_names = list(hycore.NAMES)
    # user names that look like the compiler's own, without the reserved prefix
    hycore.NAMES[:] = ["anon", "hy_anon_1", "_hyx_a", "let_a_1", "g", "h"]
    issued_streams = []
    orig = HyASTCompiler.get_anon_var
    cur = []

    def spy(self, *a, **k):
        r = orig(self, *a, **k)
        cur.append(r)
        return r
    HyASTCompiler.get_anon_var = spy
    try:
        trees = corpus_trees(run, rng)
        source_ok = {hy.mangle(n) for n in hycore.NAMES} | {"e", "cm", "E1", "E2", "E3", "NameError", "TypeError",
                                                             "ZeroDivisionError", "UnboundLocalError"}
        cases = []
        n_static = 0
        intro = {}
        for t in trees:
            t = clone(t)
            ns, ncm = number(t)
            sc, supp = make_script(rng, t, ns, ncm)
            del cur[:]
            keep = {}
            c = C.Case()
            c.tree, c.script, c.supp, c.fault, c.tag = t, sc, supp, {}, "no fault"
            c.text = render(t)
            c.ns = ns
            c.obs = run_hy(c.text, sc, {}, supp, ns, nv=nv, mode="eval", keep=keep)
            cases.append(c)
            if "tree" not in keep:
                continue
            n_static += 1
            stream = list(cur)
            issued_streams.append({"names": stream,
                                   "reserved": [int(x.startswith("_hy_")) for x in stream]})
            for kind, name in ident_names(keep["tree"]):
                if name in source_ok or name == "hy" or name.startswith("_hy_"):
                    if name.startswith("_hy_") and name not in stream:
                        # reserved but not from the allocator: still fine for the property
                        pass
                    continue
                key = f"{kind}:{name}"
                intro.setdefault(key, c.text)
        # deep chains of let bindings whose names end in digits: the allocator must keep the names it derives
        # from (binding name, counter) distinct whatever the digits are
        import types as _types
        from hy.compiler import hy_compile as _hy_compile
        pool = ["x", "x1", "x11", "x2", "x12", "y", "y1", "a1", "a"]
        for _k in range(60 if run.quick else 1500):
            depth = rng.randint(11, 30)
            names_ = [rng.choice(pool) for _ in range(depth)]
            inner = "[" + " ".join(sorted(set(names_))) + "]"
            text = inner
            for lvl in range(depth, 0, -1):
                text = f"(let [{names_[lvl - 1]} {lvl}] {text})"
            text = "(setv R " + text + ")"
            del cur[:]
            mod = _types.ModuleType("hyv_deeplet")
            try:
                code = compile(_hy_compile(hy.read_many(text), mod), "<deeplet>", "exec")
                exec(code, mod.__dict__)
            except Exception as x:
                run.violation("deeplet:" + text, f"deep let chain failed: {type(x).__name__}: {x}", {"text": text})
                continue
            stream = list(cur)
            issued_streams.append({"names": stream, "reserved": [int(x.startswith("_hy_")) for x in stream]})
            want = [max(l for l in range(1, depth + 1) if names_[l - 1] == n) for n in sorted(set(names_))]
            run.case(text)
            if list(mod.R) != want:
                run.violation("deeplet:" + text, f"innermost bindings should be {want}, the program gives {list(mod.R)}: {text}",
                              {"text": text})
        # one let that binds the same names several times: every binding is a variable of its own, which a
        # closure made right after it keeps seeing whatever is bound later
        for _k in range(60 if run.quick else 1500):
            n = rng.randint(2, 9)
            names_ = [rng.choice(pool[:5] if _k % 2 else pool) for _ in range(n)]
            binds = " ".join(f"{nm} {i + 1} hyv-g{i} (fn [] {nm})" for i, nm in enumerate(names_))
            text = f"(setv R (let [{binds}] [" + " ".join(f"(hyv-g{i})" for i in range(n)) + " " + \
                   " ".join(sorted(set(names_))) + "]))"
            del cur[:]
            mod = _types.ModuleType("hyv_widelet")
            run.case(text)
            try:
                code = compile(_hy_compile(hy.read_many(text), mod), "<widelet>", "exec")
                exec(code, mod.__dict__)
            except Exception as x:
                run.violation("widelet:" + text, f"let with repeated names failed: {type(x).__name__}: {x}", {"text": text})
                continue
            stream = list(cur)
            issued_streams.append({"names": stream, "reserved": [int(x.startswith("_hy_")) for x in stream]})
            want = list(range(1, n + 1)) + [max(i + 1 for i in range(n) if names_[i] == nm) for nm in sorted(set(names_))]
            if list(mod.R) != want:
                run.violation("widelet:" + text, f"closures made after each binding, then the final bindings, should give {want}; "
                              f"the program gives {list(mod.R)}: {text}", {"text": text})
        # local macros and local requires: the variables that hold them are the compiler's too
        for nm in ("m", "set!", "inc+", "ok?", "a-b", "-x", "_y", "λ"):
            for text in (f"(defn hyv-f [] (defmacro {nm} [] 1) ({nm}))\n(hyv-f)",
                         f"(defn hyv-f [] (defmacro {nm} [] 1) (len (local-macros)))\n(hyv-f)",
                         f"(defn hyv-f [] (let [q 0] (defmacro {nm} [] 1) [q ({nm})]))"):
                run.case(text)
                mod = _types.ModuleType("hyv_localmac")
                try:
                    tree = _hy_compile(hy.read_many(text), mod)
                    exec(compile(tree, "<localmac>", "exec"), mod.__dict__)
                except Exception as x:
                    run.violation("localmacro:" + text, f"{text}: {type(x).__name__}: {x}", {"text": text})
                    continue
                allowed = {"hyv_f", "hy", "len", "q", hy.mangle(nm)}
                for kind, name in ident_names(tree):
                    if name in allowed or name.startswith("_hy_"):
                        continue
                    intro.setdefault(f"{kind}:{name}", text)
        for key, text in sorted(intro.items()):
            run.violation("introduced:" + key, f"compiled code contains the non-reserved name {key} that is not "
                          f"in the program, e.g. for {text}", {"text": text, "name": key})
        run.cov["programs_scanned_statically"] = n_static
        # TempAlloc: the stream of names the compiler issues, validated by TLC
        tf = run.work / "temps.ndjson"
        neg = [{"names": ["_hy_anon_1", "_hy_anon_1"], "reserved": [1, 1]},
               {"names": ["_hy_anon_1", "anon_2"], "reserved": [1, 0]}]
        with open(tf, "w") as f:
            for s_ in issued_streams + neg:
                f.write(json.dumps(s_ if s_["names"] else {"names": [], "reserved": []}) + "\n")
        r = tlc.run("HyTempAlloc", tlc.cfg(spec="TSpec", invariants=["Accept", "IssuedDistinct"]), run.work,
                    workers=8, env={"TRACE_FILE": str(tf)}, label="temps")
        run.add_tlc(r, f"HyTempAlloc: {len(issued_streams)} get_anon_var streams")
        acc = {int(x) for x in r.ex("ACC")}
        n = len(issued_streams)
        if n + 1 in acc or n + 2 in acc:
            raise MachineryError("negative control accepted by HyTempAlloc")
        for i, s_ in enumerate(issued_streams):
            if i + 1 not in acc:
                run.violation("temps:" + ",".join(s_["names"]),
                              f"compiler issued temporaries {s_['names']}: not distinct reserved names",
                              {"text": "", "names": s_["names"]})
        run.cov["traces_validated_against_impl"] += len(acc & set(range(1, n + 1)))
        run.sample({"issued": max(issued_streams, key=lambda s: len(s["names"]))["names"][:12]})
        # dynamic: user variables keep their values across compiled constructs (HyCore)
        # constructs with temporaries side by side under constructs with temporaries (C.temporaries_family)
        cases += C.build_cases(run, C.temporaries_family(), rng, nv, fault_limit=0, scripts=2 if run.quick else 5)
        us = C.decide(run, cases, nv, "c12")
        for c in us[-2:]:
            run.sample(C.sample_of(c))
    finally:
        HyASTCompiler.get_anon_var = orig
        hycore.NAMES[:] = old_names
    return run.finish("model_checking",
                      "C01-style corpus over user names that resemble compiler temporaries (anon, hy_anon_1, _hyx_a, "
                      "let_a_1); static: every identifier of the compiled AST is a (mangled) program name, `hy`, or "
                      "starts with _hy_; the get_anon_var stream of each compilation is validated by TLC against "
                      "HyTempAlloc (fresh, reserved); dynamic: final user globals validated against HyCore",
                      assumptions=["identifier positions scanned: Name, def/class names, args, attributes, aliases, "
                                   "handler names, keyword args, global/nonlocal, match captures"])


# ---------------------------------------------------------------- C13
WORKER = r'''
import sys, json, hashlib, marshal, ast, types
import hy
from hy.compiler import hy_compile
out = []
for line in open(sys.argv[1]):
    text = json.loads(line)
    try:
        m = types.ModuleType("m")
        tree = hy_compile(hy.read_many(text, filename="<p>"), m, filename="<p>", source=text)
        d = ast.dump(tree, include_attributes=True)
        code = compile(tree, "<p>", "exec")
        h = hashlib.sha256(d.encode()).hexdigest()[:16] + ":" + hashlib.sha256(marshal.dumps(code)).hexdigest()[:16]
    except Exception as x:
        h = "ERR:" + type(x).__name__
    out.append(h)
json.dump(out, open(sys.argv[2], "w"))
'''


def nonlocal_programs(rng, n):
    """Functions nested 2-3 deep declaring several names nonlocal/global, the
    names being bound at different levels (module, enclosing functions, let)."""
    names = ["a", "b", "c", "dd", "e1", "f2", "g"]
    out = []
    for _ in range(n):
        k = rng.randint(2, 5)
        ns = rng.sample(names, k)
        mod_defs = [x for x in ns if rng.random() < 0.5]
        f_defs = [x for x in ns if x not in mod_defs or rng.random() < 0.3]
        decl = list(ns)
        rng.shuffle(decl)
        body = " ".join(f"(setv {x} 2)" for x in decl)
        inner = f"(defn inner [] (nonlocal {' '.join(decl)}) {body})"
        if rng.random() < 0.4:
            lets = " ".join(f"{x} 0" for x in f_defs[:2])
            inner = f"(let [{lets}] {inner} (inner))" if lets else inner
        outer = (f"(defn outer [] " + " ".join(f"(setv {x} 1)" for x in f_defs) + f" {inner} (inner))")
        text = " ".join(f"(setv {x} 0)" for x in mod_defs) + " " + outer
        out.append(text)
        if rng.random() < 0.5:
            out.append(f"(lfor {ns[0]} (range 3) :setv {ns[1]} {ns[0]} (do (setx {ns[-1]} 1) (setx {ns[0] + 'x'} 2) "
                       f"[{' '.join(ns)}]))")
    return out


def many_name_programs(rng, n):
    """Forms that make the compiler collect several names at once (pattern captures handed to a guard function,
    names a comprehension exposes, declarations, imports, parameters): wherever such a collection is a set, its
    order must not reach the output."""
    names = ["a", "b", "c", "dd", "e1", "f2", "g", "hh", "i3", "jj", "kay", "el"]
    out = []
    for _ in range(n):
        k = rng.randint(2, 6)
        ns = rng.sample(names, k)
        kind = rng.randrange(11)
        sp = " ".join(ns)
        if kind >= 9:      # the same names again with some of them repeated (also under another spelling)
            dup = ns + [rng.choice(ns) for _ in range(rng.randint(1, 3))] + [ns[0].replace("1", "1") + "", ns[-1]]
            rng.shuffle(dup)
            hy_names = [x + "-z" for x in dup] if kind == 10 else dup
            alt = [x.replace("-", "_") if i % 2 else x for i, x in enumerate(hy_names)]
            out.append(f"(defn f [] (global {' '.join(alt)}) " + " ".join(f"(setv {x} 1)" for x in set(hy_names)) + ")")
            out.append("(defn o [] " + " ".join(f"(setv {x} 0)" for x in set(hy_names)) +
                       f" (defn i [] (nonlocal {' '.join(alt)}) " + " ".join(f"(setv {x} 1)" for x in set(hy_names)) + ") (i))")
            out.append(f"(import os [{' '.join('path :as ' + x for x in alt)}])")
            continue
        if kind == 0:      # sequence pattern, guard that needs statements
            out.append(f"(match v [{sp}] :if (do (setv q 1) (> {ns[0]} q)) [{sp}])")
        elif kind == 1:    # mapping / class patterns, guard with try
            kv = " ".join(f'"{x}" {x}' for x in ns)
            out.append(f"(match v {{{kv}}} :if (try (> {ns[-1]} 0) (except [E] False)) [{sp}])")
        elif kind == 2:
            kw = " ".join(f":{x} {x}" for x in ns)
            out.append(f"(match v (C {kw}) :if (do (setv q 0) q) [{sp}] [{sp} #* rest] :if (do (del q) True) rest)")
        elif kind == 3:    # or-patterns and :as
            out.append(f"(match v (| [{sp}] [{' '.join(reversed(ns))}]) :as whole :if (do (setv z whole) z) z)")
        elif kind == 4:    # comprehension exposing several assigned names, at module and function level
            setvs = " ".join(f":setv {x} (setx {x}-w i)" for x in ns)
            out.append(f"(lfor i (range 3) {setvs} :do (setv last i) [{sp}])")
            out.append(f"(defn f [] (lfor i (range 3) {setvs} :do (setv last i) [{sp}]))")
        elif kind == 5:    # global declarations and deletions
            out.append(f"(defn f [] (global {sp}) " + " ".join(f"(setv {x} 1)" for x in ns) + f" (del {sp}))")
        elif kind == 6:    # imports and requires of several names
            out.append(f"(import os [{' '.join('path :as ' + x for x in ns)}])")
        elif kind == 7:    # parameters of every kind shadowing let names
            out.append(f"(let [{' '.join(x + ' 0' for x in ns)}] (defn f [{ns[0]} / {ns[1]} * {' '.join(ns[2:])}] [{sp}]))")
        else:              # nested functions in a class body closing over let names
            out.append(f"(let [{' '.join(x + ' 0' for x in ns)}] (defclass K [] " +
                       " ".join(f"(defn m-{x} [self] (nonlocal {x}) (setv {x} 1))" for x in ns) + "))")
    return out


def main_c13(run):
    rng = random.Random(run.seed)
    q = run.quick
    # design level: which set->sequence conversions are order-sensitive (TLC)
    r = tlc.run("HyScopeOrder", tlc.cfg(constants={"Names": {"a", "b", "c"}},
                                        invariants=["SortedEmitDeterministic", "ExportSensitive"]),
                run.work, workers=4, label="scopeorder")
    run.add_tlc(r, "HyScopeOrder: set->sequence conversions under every iteration order")
    sens = r.ex("SENS")
    run.cov["order_sensitive_shapes_found_by_tlc"] = len(sens)
    texts = [render(T("do", 0, [clone(t)])) if False else None for t in []]
    trees = corpus_trees(run, rng)
    texts = []
    for t in trees:
        t = clone(t)
        number(t)
        texts.append(render(t))
    texts += nonlocal_programs(rng, 400 if q else 6000)
    texts += many_name_programs(rng, 400 if q else 6000)
    # the top-level forms of Hy's own Hy sources and of its native tests
    import hy
    from ..core import REPO
    for p in sorted(list((REPO / "hy").rglob("*.hy")) + list((REPO / "tests" / "native_tests").glob("*.hy"))):
        try:
            src = p.read_text()
            forms = list(hy.read_many(src, filename=str(p)))
        except Exception:
            continue
        lines = src.splitlines()
        for f in forms:
            if getattr(f, "start_line", None) and getattr(f, "end_line", None):
                chunk = lines[f.start_line - 1:f.end_line]
                chunk[-1] = chunk[-1][:f.end_column]
                chunk[0] = chunk[0][f.start_column - 1:]
                texts.append("\n".join(chunk))
    texts = list(dict.fromkeys(texts))
    run.log(f"{len(texts)} program texts")
    tf = run.work / "texts.ndjson"
    with open(tf, "w") as f:
        for t in texts:
            f.write(json.dumps(t) + "\n")
    wf = run.work / "worker.py"
    wf.write_text(WORKER)
    seeds = [0, 1, 2, 3] if q else [0, 1, 2, 3, 4, 5, 6, 7, 11, 12345]
    procs = []
    for sd in seeds:
        env = dict(os.environ, PYTHONHASHSEED=str(sd))
        of = run.work / f"hash-{sd}.json"
        procs.append((sd, of, subprocess.Popen([PY, str(wf), str(tf), str(of)], env=env,
                                               stdout=subprocess.DEVNULL, stderr=subprocess.PIPE)))
    res = {}
    for sd, of, p in procs:
        _, err = p.communicate(timeout=3600)
        if p.returncode != 0:
            raise MachineryError(f"hash-seed worker {sd} failed: {err.decode()[-300:]}")
        res[sd] = json.load(open(of))
    ndiff = 0
    ncompiled = 0
    for i, text in enumerate(texts):
        hs = {sd: res[sd][i] for sd in seeds}
        ok = not hs[seeds[0]].startswith("ERR")
        ncompiled += ok
        run.case(text, nontrivial=ok)
        if len(set(hs.values())) > 1:
            ndiff += 1
            which = "AST" if len({h.split(":")[0] for h in hs.values()}) > 1 else "bytecode"
            run.violation(text, f"{which} differs across PYTHONHASHSEED {hs} for {text}",
                          {"text": text, "hashes": {str(k): v for k, v in hs.items()}})
    run.cov["traces_validated_against_impl"] += ncompiled
    run.cov["hash_seeds"] = seeds
    run.cov["programs_compiled"] = ncompiled
    run.sample({"text": texts[-1], "hash_by_seed": {str(sd): res[sd][-1] for sd in seeds}})
    run.sample({"order_sensitive_shape": sens[:2]})
    return run.finish("model_checking",
                      "program texts (C01 corpus + nonlocal/global/let/comprehension-heavy obligation shapes that TLC "
                      "shows to be order-sensitive in HyScopeOrder + forms that collect several names at once: match captures "
                      "with guards, comprehension assignments, declarations, imports, parameters + every top-level form of "
                      "Hy's own .hy sources and native tests) compiled in separate interpreter processes under "
                      "several PYTHONHASHSEED values; ast.dump (with positions) and marshalled code must be identical",
                      assumptions=["separate processes differ only in PYTHONHASHSEED"])


def main(run):
    return {"C14": main_c14, "C12": main_c12, "C13": main_c13}[run.pid](run)


def replay(run, path):
    d = json.load(open(path))["replay"]
    print(json.dumps(d, indent=1)[:3000])
    return 1
