"""C18-C21: the reader against specs/HyReader.tla (+ HyReaderCheck laws)."""
import json
import random
import signal

from .. import tlc
from ..core import MachineryError
from ..readerlib import conv, line_starts, outcome, same

ALPHA = ["(", ")", "[", "]", "{", "}", "\"", "'", "`", "~", "@", "#", ";", ":", ".", " ", "\n", "\r", "_", "*", "^",
         "\\", "a", "1", "f", "r", "b", "=", "!", "N", "x"]
FALPHA = ["\"", "{", "}", "a", " ", "!", ":", "=", "r", "(", ")"]
LAWS = ["Total", "ChildrenInside", "ChildrenOrdered", "TopLevelOrdered", "CutLaw", "SepLaw", "ConcatLaw",
        "RegionReadsBack"]


class Hang(BaseException):
    pass


class TooManyHangs(Exception):
    pass


HANGS = []


def real_outcome(text, limit=5.0):
    def _alarm(*a):
        raise Hang()
    if len(HANGS) >= 12:
        raise TooManyHangs()
    old = signal.signal(signal.SIGALRM, _alarm)
    signal.setitimer(signal.ITIMER_REAL, limit)
    try:
        return outcome(text)
    except Hang:
        HANGS.append(text)
        return "other:hang", "did not terminate"
    finally:
        signal.setitimer(signal.ITIMER_REAL, 0)
        signal.signal(signal.SIGALRM, old)


def strip_pos(d):
    return {"t": d["t"], "v": d["v"], "x": d["x"], "is_t": d.get("is_t"),
            "ch": [strip_pos(c) for c in d["ch"]]}


def read_models(text):
    st, val = real_outcome(text)
    if st != "ok":
        return st, val
    starts = line_starts(text)
    return "ok", [conv(m, text, starts) for m in val]


def enum_bind(run, L, alphabet, start, label):
    """TLC: all texts start+<=L chars, laws, export; returns rows and the real outcomes."""
    r = tlc.run("HyReaderCheck", tlc.cfg(constants={"MaxLen": L, "Mode": "enum"}, invariants=LAWS + ["Export"]),
                run.work, workers=16, timeout=3400, heap="16g", label=label,
                defs={"Alphabet": tlc.tla(set(alphabet)), "Start": tlc.tla(list(start))})
    if r.violated:
        raise MachineryError(f"HyReaderCheck: {r.violated} violated on the specification ({label})")
    run.add_tlc(r, f"HyReaderCheck enum {label}: all texts {''.join(start)!r}+<={L} over {len(alphabet)} characters")
    rows = {"".join(row["text"]): row for row in r.ex("ROW")}
    real = {t: read_models(t) for t in rows}
    return rows, real


def bind_report(run, rows, real):
    """Compare spec and implementation on every enumerated text."""
    dis = {"status": [], "model": []}
    n_ok = 0
    for t, row in rows.items():
        st, val = real[t]
        run.cov["evaluations"] += 1
        if row["st"] == "unk":
            continue
        if st != row["st"]:
            dis["status"].append((t, row["st"], st))
            continue
        if st == "ok":
            if len(val) != len(row["ch"]):
                dis["model"].append((t, "number of forms"))
                continue
            for a, b in zip(row["ch"], val):
                d = same(a, b, t)
                if d:
                    dis["model"].append((t, d))
                    break
            else:
                n_ok += 1
        else:
            n_ok += 1
    run.cov["traces_validated_against_impl"] += n_ok
    return dis


def gather(run, quick):
    # import everything hy loads lazily now: never inside a read that runs under the hang timer
    import hy.core.macros, hy.core.result_macros, hy.core.hy_repr, hy.pyops, hy.repl  # noqa
    hy.eval(hy.read("(when True 1)"))
    L = 3 if quick else 4
    rows, real = enum_bind(run, L, ALPHA, [], f"L{L}")
    fr, freal = enum_bind(run, 4 if quick else 5, FALPHA, ["f", "\"", "{"], "fstring")
    rows.update(fr)
    real.update(freal)
    run.log(f"{len(rows)} texts enumerated by TLC and read by the real reader")
    dis = bind_report(run, rows, real)
    run.cov["spec_disagreements"] = {k: len(v) for k, v in dis.items()}
    run.cov["spec_disagreement_samples"] = [list(map(str, x)) for x in (dis["status"][:5] + dis["model"][:5])]
    run.cov["distinct_nontrivial"] = sum(1 for r in rows.values() if r["st"] == "ok" and r["ch"])
    return rows, real, dis


def mutated_programs(rng, n):
    """valid multi-form programs and single-character mutations of them"""
    atoms = ["a", "bc", ":k", "12", "\"s t\"", "b\"x\"", "r\"\\d\"", "f\"v{a}w\"", "#[[q]]", "#[d[x]y]d]", "a.b", ".m",
             "f\"{a !r :>{w}}\"", "None", "-1", "+", "x!"]

    def form(d):
        r = rng.random()
        if d <= 0 or r < 0.35:
            return rng.choice(atoms)
        if r < 0.75:
            o, c = rng.choice(["()", "[]", "{}", ("#{", "}"), ("#(", ")")])
            sep = rng.choice([" ", "\n", "  ", " ;c\n ", "\r\n", "\r"])
            return o + sep.join(form(d - 1) for _ in range(rng.randint(0, 3))) + c
        p = rng.choice(["'", "`", "~", "~@", "#* ", "#** ", "#_ ", "#^ "])
        if p == "#^ ":
            return p + form(d - 1) + " " + form(d - 1)
        return p + form(d - 1)
    out = []
    chars = "()[]{}\"'`~@#;:. \n_*^\\a1frb=!Nx-"
    for _ in range(n):
        t = rng.choice([" ", "\n", "\n\n", "\r\n"]).join(form(3) for _ in range(rng.randint(1, 3)))
        out.append(t)
        for _ in range(3):
            i = rng.randrange(len(t) + 1)
            k = rng.random()
            if k < 0.4 and t:
                out.append(t[:i] + t[i + 1:])
            elif k < 0.8:
                out.append(t[:i] + rng.choice(chars) + t[i:])
            else:
                out.append(t[:i])
    return out


def file_validate(run, texts, label):
    """code -> spec for longer texts: TLC evaluates the spec on each text (file mode) and the
    result is compared with what the real reader produced (status, models, positions)."""
    recs = []
    for t in texts:
        st, val = read_models(t)
        recs.append({"text": list(t), "_real": st, "_models": val if st == "ok" else None})
    tf = run.work / f"texts-{label}.ndjson"
    with open(tf, "w") as f:
        for r in recs:
            f.write(json.dumps({"text": r["text"]}) + "\n")
    r = tlc.run("HyReaderCheck", tlc.cfg(constants={"MaxLen": 0, "Mode": "file"},
                                         invariants=["Says", "Total", "ChildrenInside", "ChildrenOrdered"]),
                run.work, workers=16, env={"TEXT_FILE": str(tf)}, label=label, timeout=3000,
                defs={"Alphabet": "{}", "Start": "<<>>"})
    if r.violated:
        raise MachineryError(f"HyReaderCheck file mode: {r.violated}")
    run.add_tlc(r, f"HyReaderCheck file {label}: {len(texts)} texts")
    says = {s_["tid"]: s_ for s_ in r.ex("SAYS")}
    acc, unk = set(), set()
    for i, rc in enumerate(recs, 1):
        sp = says.get(i)
        if sp is None:
            raise MachineryError(f"no spec result for text {i}")
        if sp["st"] == "unk":
            unk.add(i)
            continue
        real = rc["_real"] if rc["_real"] in ("ok", "lex", "eof") else "other"
        if sp["st"] != real:
            continue
        if real == "ok":
            t = "".join(rc["text"])
            if len(sp["ch"]) != len(rc["_models"]):
                continue
            if any(same(a, b, t) for a, b in zip(sp["ch"], rc["_models"])):
                rc["_diff"] = next(d for d in (same(a, b, t) for a, b in zip(sp["ch"], rc["_models"])) if d)
                continue
        acc.add(i)
    return recs, acc, unk, says


# ---------------------------------------------------------------- C18
def main_c18(run):
    rng = random.Random(run.seed)
    q = run.quick
    rows, real, dis = gather(run, q)
    for t, (st, val) in real.items():
        if st.startswith("other"):
            run.violation("text:" + t, f"reading {t!r} raised {st[6:]}: {val}", {"text": t})
    # characters outside the specification's alphabet (control characters, NUL, separators, a byte-order mark, a
    # lone surrogate, the last code point): inserted anywhere in an enumerated text, the outcome is still a
    # reading or one of the reader's two errors
    odd = ["\x00", "\x1b", "\x7f", "\x85", "\u2028", "\ufeff", "\ud800", "\U0010ffff", "\x0c", "\x0b", "\u00a0", "\u3000"]
    base = sorted(real)
    rng.shuffle(base)
    nodd = 0
    for t in base[: (1500 if q else 30000)]:
        k = rng.randint(0, len(t))
        t2 = t[:k] + rng.choice(odd) + t[k:]
        st, val = real_outcome(t2)
        nodd += 1
        run.case(t2)
        if st.startswith("other"):
            run.violation("text:" + repr(t2), f"reading {t2!r} raised {st[6:]}: {val}", {"text": t2})
    for c in odd:
        for t2 in (c, c * 2, "(" + c, '"' + c + '"', "#[[" + c + "]]", 'f"{' + c + '}"', ";" + c + "\n1", "a" + c + "b", "#" + c):
            st, val = real_outcome(t2)
            nodd += 1
            run.case(t2)
            if st.startswith("other"):
                run.violation("text:" + repr(t2), f"reading {t2!r} raised {st[6:]}: {val}", {"text": t2})
    run.cov["texts_with_odd_characters"] = nodd
    # string-like literals: every body <= 3 (4) characters over escape-relevant characters, for each prefix
    lit_alpha = ["\"", "\\", "x", "a", "0", "N", "{", "}", "u", "\n"]
    for pre in ("", "b", "r", "f", "br"):
        lrows, lreal = enum_bind(run, 3 if q else 4, lit_alpha, list(pre) + ["\""], f"lit-{pre or 'plain'}")
        for t, (st, val) in lreal.items():
            run.case(t)
            if st.startswith("other"):
                run.violation("text:" + t, f"reading {t!r} raised {st[6:]}: {val}", {"text": t})
            elif lrows[t]["st"] not in ("unk",) and {"ok": "ok", "lex": "lex", "eof": "eof"}.get(lrows[t]["st"]) == st:
                run.cov["traces_validated_against_impl"] += 1
    texts = mutated_programs(rng, 400 if q else 20000)
    recs, acc, unk, says = file_validate(run, texts, "mut")
    n_other = 0
    for i, rc in enumerate(recs, 1):
        run.case("".join(rc["text"]))
        if rc["_real"].startswith("other"):
            n_other += 1
            run.violation("text:" + "".join(rc["text"]), f"reading {''.join(rc['text'])!r} raised {rc['_real'][6:]}",
                          {"text": "".join(rc["text"])})
        elif i in acc and i not in unk:
            run.cov["traces_validated_against_impl"] += 1
    mism = [i for i in range(1, len(recs) + 1) if i not in acc and i not in unk]
    run.cov["longer_texts"] = len(recs)
    run.cov["longer_texts_spec_disagreements"] = len(mism)
    run.cov["longer_texts_disagreement_samples"] = [
        {"text": "".join(recs[i - 1]["text"]), "real": recs[i - 1]["_real"], "spec": says.get(i, {}).get("st")}
        for i in mism[:8]]
    # random raw texts: only the outcome class matters
    toks = list("()[]{}\"'`~@#;:. \n\t\r_*^\\a1frbt=!NxjeE-+,") + ["#[", "]]", "#_", "#*", "f\"", "\\N{", "\\x", "é", "λ", "٣"]
    n = 20000 if q else 1000000
    for _ in range(n):
        t = "".join(rng.choice(toks) for _ in range(rng.randint(0, 12)))
        st, val = real_outcome(t)
        run.cov["evaluations"] += 1
        if st.startswith("other"):
            run.violation("text:" + t, f"reading {t!r} raised {st[6:]}: {val}", {"text": t})
    run.cov["random_texts"] = n
    run.sample({"text": "'(a #_ b [c])", "spec": {k: rows.get("'a", {}).get(k) for k in ("st",)}})
    run.sample({"mutated": "".join(recs[1]["text"]), "real": recs[1]["_real"]})
    return run.finish("model_checking",
                      "all texts <= %d characters over a 30-character alphabet of Hy's syntax-significant characters "
                      "(+ all f-string field texts), enumerated by TLC and read by the real reader: outcome class must be "
                      "models / LexException / PrematureEndOfInput, and is compared with the spec; plus mutated valid "
                      "programs validated by TLC and random token strings under a watchdog" % (3 if q else 4),
                      extra={"exhaustive": True})


# ---------------------------------------------------------------- C19
def main_c19(run):
    rng = random.Random(run.seed)
    q = run.quick
    rows, real, dis = gather(run, q)
    nchecked = 0
    for t, row in rows.items():
        if row["st"] != "ok" or real[t][0] != "ok":
            continue
        for k, cls in enumerate(row["cuts"]):       # cut after k characters
            p = t[:k]
            if p not in real:
                real[p] = read_models(p)
            st = real[p][0]
            nchecked += 1
            if cls == "E" and st != "eof":
                run.violation("cut:" + p, f"{t!r} cut to {p!r} (inside an unclosed construct) gives {st}, not "
                              "PrematureEndOfInput", {"text": t, "prefix": p})
            elif cls == "O" and st != "ok":
                run.violation("cut:" + p, f"{t!r} cut to {p!r} (between top-level forms) gives {st}", {"text": t, "prefix": p})
            elif st.startswith("other"):
                run.violation("cut:" + p, f"{t!r} cut to {p!r} raised {st}", {"text": t, "prefix": p})
    run.cov["cut_points_checked"] = nchecked
    # one reader object for a whole history of reads, as the REPL keeps one: whatever an earlier (truncated) text
    # left behind, every read must give what a fresh reader gives for that text
    import hy
    from hy.reader import HyReader
    from hy.reader.exceptions import LexException, PrematureEndOfInput
    hist = sorted(real)
    rng.shuffle(hist)
    hist = hist[: (6000 if q else 60000)]
    shared = HyReader()
    prev = None
    nshared = 0
    for t in hist:
        try:
            list(hy.read_many(t, reader=shared))
            st = "ok"
        except PrematureEndOfInput:
            st = "eof"
        except LexException:
            st = "lex"
        except Exception as x:
            st = "other:" + type(x).__name__
        nshared += 1
        if st != real[t][0]:
            run.violation("shared-reader:" + repr([prev, t]), f"a reader that had just read {prev!r} gives {st} for {t!r}; a fresh "
                          f"reader gives {real[t][0]}", {"previous": prev, "text": t})
            shared = HyReader()
        prev = t
    run.cov["reads_with_a_reused_reader"] = nshared
    # longer programs: every prefix, classified by the spec (file mode gives the spec's outcome per prefix)
    progs = [t for t in mutated_programs(rng, 60 if q else 3000)[::4]]
    from hy.repl import REPL
    import contextlib
    import io
    texts = []
    for t in progs:
        if read_models(t)[0] != "ok":
            continue
        texts += [t[:k] for k in range(len(t) + 1)]
    recs, acc, unk, says = file_validate(run, texts, "prefixes")
    nrepl = 0
    for i, rc in enumerate(recs, 1):
        txt = "".join(rc["text"])
        run.case(txt)
        if i in unk:
            continue
        spec = says.get(i, {}).get("st")
        if i in acc:
            run.cov["traces_validated_against_impl"] += 1
        elif spec == "eof" and rc["_real"] != "eof":
            run.violation("cut:" + txt, f"truncated program {txt!r}: reader gives {rc['_real']}, the spec "
                          "PrematureEndOfInput", {"prefix": txt})
        elif spec == "ok" and rc["_real"] != "ok":
            run.violation("cut:" + txt, f"truncated program {txt!r}: reader gives {rc['_real']}, the spec reads it",
                          {"prefix": txt})
    # the REPL's continuation prompt follows the same distinction.  Every form is quoted so that
    # compiling the complete forms cannot fail before the reader reaches the end of the input.
    qprogs = []
    for t in progs[: (12 if q else 300)]:
        st, ms = read_models(t)
        if st != "ok" or "\n" in t:
            continue
        qt = " ".join("'" + t[m["ix"][0] - 1:m["ix"][1]] for m in ms)
        qprogs += [qt[:k] for k in range(1, len(qt) + 1)]
    qrecs, qacc, qunk, qsays = file_validate(run, qprogs, "replprefixes")
    for i, rc in enumerate(qrecs, 1):
        txt = "".join(rc["text"])
        spec = qsays[i]["st"]
        if spec not in ("eof", "ok") or not txt.strip():
            continue
        nrepl += 1
        with contextlib.redirect_stdout(io.StringIO()), contextlib.redirect_stderr(io.StringIO()):
            r = REPL(locals={"__name__": "hyverif_c19"})
            more = r.runsource(txt)
        if bool(more) != (spec == "eof"):
            run.violation("repl:" + txt, f"REPL {'asks' if more else 'does not ask'} for more input after {txt!r} "
                          f"(the text is {'incomplete' if spec == 'eof' else 'complete'})", {"prefix": txt})
    run.cov["repl_prompts_checked"] = nrepl
    run.sample({"text": "(a \"b", "cut classes": "E = must be PrematureEndOfInput, O = must read, X = inside a token"})
    ex = next((r for r in rows.values() if r["st"] == "ok" and len(r["text"]) >= 3 and "E" in r["cuts"]), None)
    if ex:
        run.sample({"text": "".join(ex["text"]), "cuts": "".join(ex["cuts"])})
    return run.finish("model_checking",
                      "every cut point of every TLC-enumerated well-formed text (<= %d characters, + f-string fields), "
                      "classified by the spec (CutLaw is a TLC-checked invariant): unclosed construct => "
                      "PrematureEndOfInput, between top-level forms => reads; plus every prefix of generated programs, "
                      "validated by TLC, the REPL's continuation prompt, and a history of all these texts read in random order by "
                      "one reused reader object (each outcome must be the fresh reader's)" % (3 if q else 4),
                      extra={"exhaustive": True})


# ---------------------------------------------------------------- C20
SEPS = [" ", "\n", "\t", ";a\n", " #_ a ", "\r\n", " #_ (b c) ", " ; x\n\n", "\r", ";a\rb(\n",
        # every ASCII whitespace character (string.whitespace): form feed and vertical tab too
        "\f", "\v", " \v ", "\t\f\v\r\n "]


def sugar_pairs(rng, n):
    """(sugared text, long-form text) built from the same tree"""
    def tree(d):
        r = rng.random()
        if d <= 0 or r < 0.3:
            a = rng.choice(["a", "b", ":k", "\"s\"", "12", "a.b"])
            return a, a
        if r < 0.55:
            o, c = rng.choice(["()", "[]"])
            kids = [tree(d - 1) for _ in range(rng.randint(0, 3))]
            return o + " ".join(k[0] for k in kids) + c, o + " ".join(k[1] for k in kids) + c
        s, l = rng.choice([("'", "quote"), ("`", "quasiquote"), ("~", "unquote"), ("~@", "unquote-splice"),
                           ("#* ", "unpack-iterable"), ("#** ", "unpack-mapping"), ("#^", "annotate")])
        if s == "#^":
            a, b = tree(d - 1), tree(d - 1)
            return "#^ " + a[0] + " " + b[0], "(annotate " + b[1] + " " + a[1] + ")"
        k = tree(d - 1)
        sug = s + k[0]
        if s == "~" and k[0].startswith("@"):
            sug = "~ " + k[0]
        return sug, "(" + l + " " + k[1] + ")"
    return [tree(4) for _ in range(n)]


def main_c20(run):
    rng = random.Random(run.seed)
    q = run.quick
    rows, real, dis = gather(run, q)
    nsep = 0
    items = [(t, row) for t, row in rows.items() if row["st"] == "ok" and real[t][0] == "ok"]
    if q and len(items) > 4000:
        items = rng.sample(items, 4000)
    for t, row in items:
        base = [strip_pos(m) for m in real[t][1]]
        for k in row["gaps"]:
            for sep in (SEPS if not q else rng.sample(SEPS, 4)):
                t2 = t[:k] + sep + t[k:]
                st, val = read_models(t2)
                nsep += 1
                run.case(t2)
                if st != "ok" or [strip_pos(m) for m in val] != base:
                    run.violation("sep:" + t2, f"inserting {sep!r} at position {k} of {t!r} changes the reading: "
                                  f"{st} {val if st != 'ok' else ''}"[:300], {"text": t, "k": k, "sep": sep})
    run.cov["separator_insertions"] = nsep
    # concatenation
    ncat = 0
    oks = [t for t, _ in items if not t.rstrip(" \t").endswith(";a") and ";" not in t.split("\n")[-1]]
    for _ in range(3000 if q else 100000):
        a, b = rng.choice(oks), rng.choice(oks)
        j = rng.choice([" ", "\n"])
        st, val = read_models(a + j + b)
        ncat += 1
        want = [strip_pos(m) for m in real[a][1]] + [strip_pos(m) for m in real[b][1]]
        if st != "ok" or [strip_pos(m) for m in val] != want:
            run.violation("concat:" + a + j + b, f"reading {a!r} + {j!r} + {b!r} is not the concatenation of the readings",
                          {"a": a, "b": b})
    run.cov["concatenations"] = ncat
    # sugar vs long form: both texts validated by TLC against the spec, and compared on the real reader
    pairs = sugar_pairs(rng, 400 if q else 20000)
    recs, acc, unk, says = file_validate(run, [p[0] for p in pairs] + [p[1] for p in pairs], "sugar")
    n = len(pairs)
    for i, (s_, l_) in enumerate(pairs):
        a, b = read_models(s_), read_models(l_)
        run.case(s_)
        if a[0] != "ok" or b[0] != "ok" or [strip_pos(m) for m in a[1]] != [strip_pos(m) for m in b[1]]:
            run.violation("sugar:" + s_, f"{s_!r} and its long form {l_!r} read differently ({a[0]}, {b[0]})",
                          {"sugar": s_, "long": l_})
        if (i + 1 in acc or i + 1 in unk) and (n + i + 1 in acc or n + i + 1 in unk):
            run.cov["traces_validated_against_impl"] += 1
    run.cov["sugar_pairs"] = n
    run.sample({"sugar": pairs[0][0], "long": pairs[0][1]})
    run.sample({"text": items[len(items) // 2][0], "gaps": items[len(items) // 2][1]["gaps"]})
    return run.finish("model_checking",
                      "SepLaw and ConcatLaw are TLC-checked invariants of the reader spec on every text <= %d characters; "
                      "on the real reader: 14 separators (each ASCII whitespace character, comments, #_ discards) inserted at every gap the spec "
                      "marks between forms, random concatenations, and sugar / long-form pairs built from one tree "
                      "(both validated by TLC)" % (3 if q else 4))


# ---------------------------------------------------------------- C21
def nodes(ms, par=None, in_f=False):
    for m in ms:
        yield m, par, in_f
        yield from nodes(m["ch"], m, in_f or m["t"] == "fstr")


def fcomponent_regions(text):
    """Replacement fields of f-strings: the spec leaves the positions of an f-string's string pieces open, but a
    field (FComponent) is a child like any other -- inside its f-string (or the field whose format spec holds it),
    fields of one parent in source order, the field's value model inside the field.  -> list of complaints"""
    import hy
    from hy.models import FComponent, FString, Sequence
    out = []
    pos = lambda m: ((m.start_line, m.start_column), (m.end_line, m.end_column))

    def walk(m):
        if not isinstance(m, Sequence):
            return
        if isinstance(m, (FString, FComponent)) and getattr(m, "start_line", None) is not None:
            (ps, pe) = pos(m)
            last = None
            for i, c in enumerate(m):
                if getattr(c, "start_line", None) is None:
                    continue
                if isinstance(c, FComponent) or (isinstance(m, FComponent) and i == 0):
                    cs, ce = pos(c)
                    if not (ps <= cs and ce <= pe and cs <= ce):
                        out.append(f"{type(c).__name__} at {cs}-{ce} is not inside its parent {type(m).__name__} at {ps}-{pe}")
                    if isinstance(c, FComponent):
                        if last is not None and cs <= last:
                            out.append(f"replacement fields of one f-string out of source order ({cs} after {last})")
                        last = ce
        for c in m:
            walk(c)
    try:
        for m in hy.read_many(text):
            walk(m)
    except Exception:
        pass
    return out


FSTRING_TEXTS = ['f"a{b}c"', 'f"a{b = }c"', 'f"{a =}"', 'f"{ a = !r}"', 'f"x{a = !r:>{w}}y"', 'f"{a = :{w}.{p}}"',
                 '(print f"v:\n{(+ x\n   1) = :>5} {y}")', '#[f[total: {(sum xs) =}]f]', '#[f[{a}{b =}{c !s}]f]',
                 'f"{a}{b}{c = }{d}"', 'f"{(f"{x = }")}"', '[f"{a = }" f"{b}"]', 'f"\n\n{a =\n}"']


def main_c21(run):
    rng = random.Random(run.seed)
    q = run.quick
    rows, real, dis = gather(run, q)
    nf = 0
    for t in [t for t, (st, _) in real.items() if st == "ok" and "{" in t] + FSTRING_TEXTS:
        nf += 1
        for msg in fcomponent_regions(t):
            run.violation("fcomp:" + t, f"{t!r}: {msg}", {"text": t})
    run.cov["fstring_field_regions_checked"] = nf
    for t, d in dis["model"]:
        if "position" in d:
            run.violation("pos:" + t, f"{t!r}: {d} (spec vs reader)", {"text": t})
    texts = [t for t, (st, _) in real.items() if st == "ok"]
    texts += [t for t in mutated_programs(rng, 300 if q else 20000) if read_models(t)[0] == "ok"]
    nreg = 0
    for t in texts:
        st, ms = real[t] if t in real else read_models(t)
        prev_end = 0
        for m in ms:
            if m["ix"][0] <= prev_end:
                run.violation("order:" + t, f"{t!r}: top-level forms out of source order", {"text": t})
            prev_end = m["ix"][1]
        for m, par, in_f in nodes(ms):
            if m["ix"] == [0, 0]:
                continue
            a, b = m["ix"]
            if not (1 <= a <= b <= len(t)):
                run.violation("span:" + t, f"{t!r}: model {m['t']} has positions {m['p']} outside the text", {"text": t})
                continue
            if par is not None and par["ix"] != [0, 0] and not (par["ix"][0] <= a and b <= par["ix"][1]):
                run.violation("nest:" + t, f"{t!r}: child {m['t']} {m['p']} not inside parent {par['p']}", {"text": t})
            if par is not None and m["ix"] == par["ix"]:
                continue        # parts synthesized by the reader share their parent's region
            if in_f and m["t"] in ("str", "fcomp"):
                continue        # f-string components share their field's start (documented as open)
            region = t[a - 1:b]
            st2, ms2 = read_models(region)
            nreg += 1
            run.case((t, a, b))
            if st2 != "ok" or len(ms2) != 1 or strip_pos(ms2[0]) != strip_pos(m):
                run.violation("region:" + t + f":{a}-{b}", f"{t!r}: region {region!r} of a {m['t']} model reads back as "
                              f"{st2} {[x['t'] for x in ms2] if st2 == 'ok' else ''}", {"text": t, "region": region})
        # children in source order
        for m, par, in_f in nodes(ms):
            kids = [c for c in m["ch"] if c["ix"] != [0, 0] and c["ix"] != m["ix"]]
            is_ann = m["t"] == "expr" and m["ch"] and m["ch"][0]["t"] == "sym" and "".join(m["ch"][0]["v"]) == "annotate" \
                and m["ch"][0]["ix"] == m["ix"]
            if not is_ann and any(x["ix"][1] >= y["ix"][0] for x, y in zip(kids, kids[1:])) and m["t"] != "fcomp" \
                    and not in_f and m["t"] != "fstr":
                run.violation("order:" + t, f"{t!r}: children of {m['t']} out of source order", {"text": t})
    run.cov["regions_reread"] = nreg
    # multi-line texts validated against the spec (positions included)
    ml = [t for t in texts if "\n" in t or "\r" in t][: (800 if q else 20000)]
    recs, acc, unk, says = file_validate(run, ml, "ml")
    for i, t in enumerate(ml, 1):
        if i in acc:
            run.cov["traces_validated_against_impl"] += 1
        elif i not in unk and "position" in recs[i - 1].get("_diff", ""):
            run.violation("pos:" + t, f"{t!r}: {recs[i - 1]['_diff']} (spec vs reader)", {"text": t})
    run.sample({"text": ml[0] if ml else "", "models": recs[0]["_models"][:1] if recs else []})
    return run.finish("model_checking",
                      "ChildrenInside / ChildrenOrdered / RegionReadsBack are TLC-checked invariants of the reader spec; "
                      "on the real reader: every model of every enumerated text and of generated multi-line programs -- "
                      "region re-read, containment, source order; reported positions compared with the spec's (TLC file mode); "
                      "replacement fields of f-strings (with = debugging, conversions, nested specs): inside their parent, "
                      "in source order, value inside the field")


def main(run):
    try:
        return {"C18": main_c18, "C19": main_c19, "C20": main_c20, "C21": main_c21}[run.pid](run)
    except TooManyHangs:
        # a reader that loops is a violation of each of these properties (reading terminates); do not spend
        # the time limit on every further text
        for t in HANGS:
            run.violation("hang:" + t, f"reading {t!r} does not terminate (no result within 5 s)", {"text": t})
        return run.finish("model_checking", f"stopped early: the reader did not terminate on {len(HANGS)} texts")


def replay(run, path):
    d = json.load(open(path))["replay"]
    for k in ("text", "prefix", "region", "sugar", "long"):
        if k in d:
            print(k, repr(d[k]), "->", read_models(d[k]))
    return 1
