"""C04: comprehension forms against HyCompr.tla."""
import ast as pyast
import json
import random
import signal
import types

from .. import tlc
from ..core import MachineryError, pmap

IT = {"L12": "[1 2]", "L0": "[]", "Ra": "(range a)"}
CO = {"T": "True", "F": "False", "odd-a": "(% a 2)", "odd-b": "(% b 2)"}
EX = {"k7": "7", "inc-a": "(+ a 10)"}


def E(site, expr, stmt):
    """the subform of one site; stmt 1: preceded by a statement; stmt 2: the effect itself happens inside a
    statement (an assignment to a scratch variable), so that the order of hoisted statements matters"""
    s = f"(e {site} {expr})"
    if stmt == 2:
        return f"(do (setv hyv-s{site} {s}) hyv-s{site})"
    return f"(do (assert True) {s})" if stmt else s


def render_form(head, rec, stmtpos):
    cl, fin = rec["cl"], rec["fin"]
    n = len(cl)
    parts = []
    both = stmtpos == "both"
    deep = isinstance(stmtpos, int) and stmtpos < 0
    if deep:
        stmtpos = -stmtpos
    flavour = 2 if deep else 1
    for i, c in enumerate(cl, 1):
        st = flavour if stmtpos == i else 0
        if c[0] == "for":
            parts.append(f"{c[1]} {E(i, IT[c[2]], st)}")
        elif c[0] == "if":
            parts.append(f":if {E(i, CO[c[1]], st)}")
        elif c[0] == "setv":
            parts.append(f":setv {c[1]} {E(i, EX[c[2]], st)}")
        else:
            parts.append(f":do {E(i, '0', st)}")
    st = flavour if stmtpos == n + 1 else 0
    k, v = fin
    if head == "for":
        body = E(90, "a", st) if k == "val" else f"{E(90, '0', st)} (when {CO[v]} (break))"
        return f"(for [{'  '.join(parts)}] {body} (else (e 95 0)))"
    if head == "dfor":
        if both:
            final = {"val": f"{E(90, v, 2)} {E(91, '(+ ' + v + ' 10)', 2)}", "tup": f"{E(90, 'a', 2)} {E(91, 'b', 2)}",
                     "star": f"#** {E(90, '{a 5  50 a}', 2)}", "setx": f"(setx z {E(90, 'a', 2)}) {E(91, '0', 2)}"}[k]
            return f"({head} {'  '.join(parts)}  {final})"
        final = {"val": f"{E(90, v, st)} (e 91 (+ {v} 10))", "tup": f"{E(90, 'a', st)} (e 91 b)",
                 "star": f"#** {E(90, '{a 5  50 a}', st)}", "setx": f"(setx z {E(90, 'a', st)}) (e 91 0)"}[k]
    else:
        final = {"val": E(90, v, st), "tup": E(90, "#(a b)", st), "star": f"#* {E(90, '[a 5]', st)}",
                 "setx": f"(setx z {E(90, 'a', st)})"}[k]
    return f"({head} {'  '.join(parts)}  {final})"


def render_program(head, rec, stmtpos, scope):
    form = render_form(head, rec, stmtpos)
    if head == "gfor":
        use = [f"(setv G {form})", "(setv MARKS [(len LOG)])", "(setv R [])",
               "(for [hyv-x G] (.append R hyv-x) (.append MARKS (len LOG)))", "(.append MARKS (len LOG))"]
    else:
        use = [f"(setv R {form})", "(setv MARKS None)"]
    pre = "(setv a 3 b 4 z 9)"
    post = "(setv AFTER [a b z])"
    if scope == "module":
        return "\n".join([pre] + use + [post])
    if scope == "fn":
        body = "\n  ".join([pre] + use + [post])
        return f"(defn hyv-f []\n  {body}\n  (return [R AFTER MARKS]))\n(setv [R AFTER MARKS] (hyv-f))"
    body = "\n  ".join([pre] + use + [post])
    return f"(defclass hyv-C []\n  {body})\n(setv R hyv-C.R AFTER hyv-C.AFTER MARKS hyv-C.MARKS)"


class Timeout(BaseException):
    pass


def run_program(text, strategy_out=None):
    import hy
    from hy.compiler import hy_compile
    from hy.reader import read_many
    log = []
    mod = types.ModuleType("hyv_compr")

    def e(k, v):
        log.append(k)
        if len(log) > 5000:
            raise Timeout()
        return v
    mod.__dict__.update(e=e, LOG=log)
    try:
        tree = hy_compile(hy.models.Lazy(read_many(text, filename="<compr>")), mod, filename="<compr>", source=text)
        code = compile(tree, "<compr>", "exec")
    except BaseException as x:
        return {"error": f"compile: {type(x).__name__}: {x}"[:400]}
    if strategy_out is not None:
        strategy_out["native"] = any(isinstance(n, (pyast.ListComp, pyast.SetComp, pyast.DictComp, pyast.GeneratorExp))
                                     and not any(isinstance(g.iter, pyast.Call) and isinstance(g.iter.func, pyast.Name)
                                                 and g.iter.func.id.startswith("_hy_") for g in n.generators)
                                     for n in pyast.walk(tree))
    def on_alarm(*a):
        raise Timeout()
    old = signal.signal(signal.SIGALRM, on_alarm)
    signal.alarm(10)
    try:
        exec(code, mod.__dict__)
    except Timeout:
        return {"error": "run: did not terminate"}
    except BaseException as x:
        return {"error": f"run: {type(x).__name__}: {x}"[:400]}
    finally:
        signal.alarm(0)
        signal.signal(signal.SIGALRM, old)
    G = mod.__dict__
    return {"R": G.get("R"), "AFTER": G.get("AFTER"), "MARKS": G.get("MARKS"), "log": list(log)}


def tup(v):
    return tuple(tup(x) for x in v) if isinstance(v, list) else v


def expected(head, rec):
    t = rec["t"]
    effects = [x[1] for x in t if x[0] == "e"]
    ys = [x for x in t if x[0] == "y"]
    if head == "for":
        R = None
    elif head == "dfor":
        R = {}
        for y in ys:
            R[tup(y[1])] = tup(y[2])
    else:
        seq = [tup(y[1]) for y in ys]
        R = set(seq) if head == "sfor" else seq
    marks = None
    if head == "gfor":
        marks, n = [], 0
        for x in t:
            if x[0] == "e":
                n += 1
            else:
                marks.append(n)
        marks.append(n)
    a = rec["after"]
    return {"R": R, "log": effects, "AFTER": [a["a"], a["b"], a["z"]], "MARKS": marks}


def compare(head, rec, got, want):
    """-> None or a description of the difference"""
    if "error" in got:
        return f"raised {got['error']}"
    if got["R"] != want["R"] or type(got["R"]) is not type(want["R"]):
        return f"result {got['R']!r}, specification {want['R']!r}"
    if got["log"] != want["log"]:
        return f"effects {got['log']}, specification {want['log']}"
    if got["AFTER"] != want["AFTER"]:
        return f"variables a, b, z afterwards {got['AFTER']}, specification {want['AFTER']}"
    if head == "gfor":
        m, w = got["MARKS"], want["MARKS"]
        # creating the generator may already evaluate the outermost iterable (as a Python generator
        # expression does) but nothing more; afterwards: exactly the effects up to each yield
        if m[0] not in rec["eager"] or m[1:] != w:
            return f"laziness: effects seen at creation / after each element {m}, specification {rec['eager']} + {w}"
    return None


def _one(job):
    head, scope, sp, rec = job
    st = {}
    got = run_program(render_program(head, rec, sp, scope), st)
    return got, st


def main(run, mc=None, budget=None, finish=True):
    """finish=False: only run the programs and record violations (used by C01, whose statement covers the
    comprehension forms too), with a smaller bound and budget"""
    rng = random.Random(run.seed)
    q = run.quick
    mc = mc or 3      # (clause lists of 4 make TLC's export alone run for the better part of an hour)
    r = tlc.run("HyCompr", tlc.cfg(constants={"MaxClauses": mc},
                                   invariants=["NoLeak", "ElseOnce", "ElseWithoutBreak", "EmptyOuter", "YieldAfterFinal", "Export"]),
                run.work, workers=16, label="compr", timeout=3000)
    if r.violated:
        raise MachineryError(f"HyCompr: {r.violated} violated on the specification")
    run.add_tlc(r, f"HyCompr: every clause list of length <= {mc} over 16 clause shapes x final parts x kinds")
    rows = r.ex("PROG")
    run.log(f"TLC: {len(rows)} specified programs")
    heads = {"seq": ["lfor", "sfor", "gfor"], "dict": ["dfor"], "for": ["for"]}
    budget = budget or (14000 if q else 60000)
    # all short programs, a sample of the long ones
    rows.sort(key=lambda x: (len(x["cl"]), json.dumps(x, sort_keys=True)))
    ns = 1 if q else 2
    short = [x for x in rows if len(x["cl"]) <= ns]
    rest = [x for x in rows if len(x["cl"]) > ns]
    rng.shuffle(rest)
    ordered = short + rest
    done = 0
    strategies = {"native": 0, "function": 0}
    scopes_seen = {"module": 0, "fn": 0, "class": 0}
    jobs = []
    for rec in ordered:
        is_short = len(rec["cl"]) <= ns
        if len(jobs) >= budget and not is_short:
            break
        variants = []
        for head in heads[rec["kind"]]:
            for scope in ("module", "fn", "class"):
                if scope == "class" and head != "for" and (rec["outer"] or rec["usesz"]):
                    continue      # Python: a comprehension in a class body cannot see the class's variables
                for sp in range(0, len(rec["cl"]) + 2):
                    variants.append((head, scope, sp))
                    if sp:
                        variants.append((head, scope, -sp))
                if head == "dfor":
                    variants.append((head, scope, "both"))
        if not is_short or q:
            # quick: a few variants per program; the short programs still get every head and scope
            keep = [v for v in variants if v[2] == 0]
            extra = [v for v in variants if v[2] != 0 and v[2] != "both"]
            bothv = [v for v in variants if v[2] == "both"]
            rng.shuffle(extra)
            rng.shuffle(bothv)
            variants = (keep if is_short else rng.sample(keep, min(len(keep), 2))) + extra[:3 if is_short else 2] + bothv[:1]
        for head, scope, sp in variants:
            jobs.append((head, scope, sp, rec))
    for (head, scope, sp, rec), (got, st) in zip(jobs, pmap(_one, jobs)):
        text = render_program(head, rec, sp, scope)
        want = expected(head, rec)
        key = f"{head}:{scope}:{sp}:{json.dumps([rec['cl'], rec['fin']])}"
        run.case(key)
        done += 1
        if "native" in st and head != "for":
            strategies["native" if st["native"] else "function"] += 1
        scopes_seen[scope] += 1
        diff = compare(head, rec, got, want)
        if diff:
            if rec.get("shadow1") and st.get("native") is False and head != "for" and "UnboundLocalError" in diff:
                key = "generator-function strategy: the leading iterable reads a name the form itself binds"
            run.violation(key, f"{head} in {scope} scope (statement at position {sp}): {diff}; program:\n{text}",
                          {"program": text, "head": head, "scope": scope, "stmtpos": sp, "spec": rec,
                           "got": {k: repr(v) for k, v in got.items()}, "want": {k: repr(v) for k, v in want.items()}})
        else:
            run.cov["traces_validated_against_impl"] += 1
    if min(strategies.values()) == 0 or min(scopes_seen.values()) == 0:
        raise MachineryError(f"vacuous: strategies {strategies}, scopes {scopes_seen}")
    if not finish:
        return done
    run.sample({"program": render_program("lfor", ordered[len(short) // 2], 0, "fn"), "spec": ordered[len(short) // 2]})
    return run.finish("model_checking",
                      f"clause lists of length <= {mc} over iteration / :if / :setv / :do clauses, final parts (value, tuple, "
                      "#* / #**, setx; for: body with and without break, always an else), rendered as lfor, sfor, gfor, dfor "
                      "and for, in module / function / class scope, with a statement-producing subform at each position "
                      "(forcing the generator-function strategy); compared: elements in order, effect log, a b z afterwards, "
                      "and for gfor the effects seen after each element (laziness)",
                      extra={"strategies": strategies, "scopes": scopes_seen, "programs": len(rows), "runs": done})
