"""C03: operator macros vs hy.pyops vs the documented Python expansion (HyOps.tla)."""
import copy
import itertools
import json
import random
import signal

from .. import tlc
from ..core import MachineryError

VALS = [0, 1, 2, -3, 7, True, False, 0.5, 2.0, "a", "ab", [1], [], {1}, {1, 2}, None]
POW_VALS = [0, 1, -1, 2, True, 0.5, "a", None, [1]]


class Timeout(BaseException):
    pass


def outcome(f, args):
    try:
        v = f(*copy.deepcopy(args))
    except Timeout:
        raise
    except BaseException as x:
        return ("exc", type(x).__name__)
    if type(v) is int and v.bit_length() > 2000:
        return ("ok", "int", f"<{v.bit_length()} bits, mod 10^9+7 = {v % 1000000007}>")
    return ("ok", type(v).__name__, repr(v))


def tuples(op, n, rng, quick):
    vals = POW_VALS if op in ("**",) else VALS
    if n == 0:
        return [()]
    if len(vals) ** n <= (300 if quick else 5000):
        ts = list(itertools.product(vals, repeat=n))
    else:
        ts = [tuple(rng.choice(vals) for _ in range(n)) for _ in range(220 if quick else 1500)]
        # structured tuples: all equal, ascending / descending numbers, one odd value at each position
        nums = [v for v in vals if isinstance(v, (int, float)) and not isinstance(v, bool)]
        for v in vals:
            ts.append((v,) * n)
        for _ in range(60):
            base = sorted(rng.choice(nums) for _ in range(n))
            ts.append(tuple(base))
            ts.append(tuple(reversed(base)))
            k = rng.randrange(n)
            odd = list(base)
            odd[k] = rng.choice(["a", None, [1], {1}])
            ts.append(tuple(odd))
    if op == "**":
        ts = [t for t in ts if sum(1 for v in t if v == 2 and v is not True) <= 2]
    if op == "<<":
        ts = [t for t in ts if all(not isinstance(v, (int, float)) or v < 64 for v in t)]
    return ts


def build(op, n, py, aug):
    """-> dict of callables for the different routes to the same operation"""
    import hy
    from hy.reader import mangle
    xs = [f"x{i}" for i in range(1, n + 1)]
    out = {}
    if aug:
        out["macro"] = hy.eval(hy.read(f"(fn [t {' '.join(xs)}] ({op}= t {' '.join(xs)}) t)"))
        ns = {}
        exec(f"def f(t, {', '.join(xs)}):\n    {py}\n    return t\n", ns)
        out["python"] = ns["f"]
        return out
    def compiled(text):
        """the function the form compiles to; a form hy rejects becomes a route that raises that error"""
        try:
            return hy.eval(hy.read(text))
        except Exception as x:
            err = x

            def fail(*a):
                raise err
            return fail
    out["macro"] = compiled(f"(fn [{' '.join(xs)}] ({op} {' '.join(xs)}))")
    out["python"] = eval(f"lambda {', '.join(xs)}: {py}")
    import hy.pyops
    f = getattr(hy.pyops, mangle(op))
    out["pyops"] = f
    star = compiled(f"(fn [xs] ({op} #* xs))")
    out["star"] = lambda *a: star(list(a))
    if n >= 1:
        star1 = compiled(f"(fn [x1 xs] ({op} x1 #* xs))")
        out["star-tail"] = lambda *a: star1(a[0], list(a[1:]))
    if n >= 2:
        # an unpacking between plain arguments, and an empty one
        star2 = compiled(f"(fn [x1 xs xn] ({op} x1 #* xs xn))")
        out["star-middle"] = lambda *a: star2(a[0], list(a[1:-1]), a[-1])
        star3 = compiled(f"(fn [{' '.join(xs)}] ({op} {' '.join(xs[:1])} #* [] {' '.join(xs[1:])}))")
        out["star-empty"] = star3
    return out


def main(run):
    import hy
    from hy.errors import HyLanguageError
    rng = random.Random(run.seed)
    q = run.quick
    r = tlc.run("HyOps", tlc.cfg(constants={"MaxArity": 6},
                                 invariants=["NullaryIsIdentity", "AggWhenNary", "AugNeedsValue", "FoldDirection",
                                             "AggregatorConsistent", "Export"]),
                run.work, workers=4, label="ops")
    if r.violated:
        raise MachineryError(f"HyOps: {r.violated} violated on the specification")
    run.add_tlc(r, "HyOps: 25 operators x arities 0..6 (and their augmented assignments): allowed or not, Python expansion; "
                   "laws: fold direction, aggregator consistency on integers")
    rows = sorted(r.ex("ROW"), key=lambda x: (x["op"], x["aug"], x["n"]))
    routes_seen = {}

    def on_alarm(*a):
        raise Timeout()
    old = signal.signal(signal.SIGALRM, on_alarm)
    try:
        for rec in rows:
            op, n, aug = rec["op"], rec["n"], rec["aug"]
            name = f"{op}= (augmented)" if aug else op
            if not rec["allowed"]:
                # a form the table forbids must be rejected by the macro, and by the function with TypeError
                run.case((op, n, aug, "arity"))
                xs = " ".join(f"x{i}" for i in range(1, n + 1))
                form = f"(fn [t {xs}] ({op}= t {xs}))" if aug else f"(fn [{xs}] ({op} {xs}))"
                try:
                    hy.eval(hy.read(form))
                    run.violation(f"arity:{name}:{n}", f"({name} ...) with {n} argument(s) compiles although the documentation "
                                  f"does not allow that arity", {"form": form})
                except HyLanguageError:
                    run.cov["traces_validated_against_impl"] += 1
                if not aug:
                    import hy.pyops
                    from hy.reader import mangle
                    o = outcome(getattr(hy.pyops, mangle(op)), tuple([1] * n))
                    if o != ("exc", "TypeError"):
                        run.violation(f"arity-fn:{name}:{n}", f"hy.pyops.{op} called with {n} argument(s) gives {o}, expected TypeError",
                                      {"op": op, "n": n})
                continue
            fs = build(op, n, rec["py"], aug)
            signal.alarm(60)
            try:
                for t in tuples(op, n + (1 if aug else 0), rng, q):
                    run.case((op, n, aug, repr(t)))
                    res = {k: outcome(f, t) for k, f in fs.items()}
                    ref = res["python"]
                    for k, v in res.items():
                        routes_seen[k] = routes_seen.get(k, 0) + 1
                        if v != ref:
                            run.violation(f"{name}:{n}:{k}:{t!r}",
                                          f"({name} {' '.join(map(repr, t))}): route '{k}' gives {v}, the documented Python "
                                          f"expansion `{rec['py']}` gives {ref}",
                                          {"op": op, "n": n, "aug": aug, "args": repr(t), "py": rec["py"], "results": res})
                            break
                    else:
                        run.cov["traces_validated_against_impl"] += 1
            except Timeout:
                raise MachineryError(f"evaluation of {name} with {n} arguments did not finish")
            finally:
                signal.alarm(0)
    finally:
        signal.signal(signal.SIGALRM, old)
    run.sample({"row": rows[len(rows) // 2]})
    return run.finish("model_checking",
                      "every operator with a core macro x arities 0..6: forbidden arities must be rejected (macro: Hy error, "
                      "function: TypeError); allowed ones are evaluated five ways (macro form, hy.pyops function, macro with "
                      "#* over all / the tail of the arguments, CPython on the expansion text from the spec) on operand tuples "
                      "from ints, bools, floats, strings, lists, sets and None (exhaustive for small arities, sampled above); "
                      "augmented assignments against `t op= <aggregator expansion>`", extra={"routes": routes_seen})
