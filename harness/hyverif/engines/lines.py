"""C17: run-time tracebacks point into the raising form (HyLines.tla)."""
import contextlib
import json
import random
import signal
import traceback
import types

from .. import tlc
from ..core import MachineryError, pmap

PRELUDE = ["(defmacro idm [x] x)", "(defmacro wrapm [x] `(do (e 0 0) ~x))", "(setv aug-x 1)",
           "(defmacro gen0 [a] `(/ 1 ~a))", "(defmacro gen1 [a] `(do (/ 1 ~a)))", "(defmacro gen2 [a] `(do (setv gen-r (/ 1 ~a)) gen-r))",
           "(defmacro gen3 [a] `(do (when True (setv gen-r [(/ 1 ~a)])) gen-r))",
           "(defreader genr (setv a (.parse-one-form &reader)) `(do (setv gen-r [(/ 1 ~a)]) gen-r))",
           "(defmacro genf [a] `(str f\"v{(/ 1 ~a)}\"))", "(defmacro genfs [a] `(str f\"v{1 :>{(/ 1 ~a)}}\"))",
           "(defmacro genl [a] `[1 (/ 1 ~a)])", "(defmacro gend [a] `{1 (/ 1 ~a)})"]

# name -> (lines before the hole, text appended to the hole's last line, lines after)
TEMPLATES = {
    "do": (["(do", "(e 0 0)"], ")", []),
    "setv-do": (["(setv v (do", "(e 0 0)"], "))", []),
    "if": (["(if True"], "", ["0)"]),
    "when": (["(when True"], ")", []),
    "cond": (["(cond False 0", "True"], ")", []),
    "lfor": (["(lfor q [1]"], ")", []),
    "lfor-do": (["(lfor q [1] :do (e 0 0)"], ")", []),
    "gfor": (["(list (gfor q [1]"], "))", []),
    "dfor": (["(dfor q [1]", "q"], ")", []),
    "fn-call": (["((fn []", "(e 0 0)"], "))", []),
    "defn-call": (["(do (defn g []"], ")", ["(g))"]),
    "return": (["((fn []", "(return"], ")))", []),
    "defclass": (["(defclass K []"], ")", []),
    "try-finally": (["(try"], "", ["(finally (e 0 0)))"]),
    "try-except": (["(try", "(e 0 0)"], "", ["(except [KeyError]", "0))"]),
    "with": (["(with [(cm)]"], ")", []),
    "while": (["(while True"], "", ["(break))"]),
    "for": (["(for [q [1]]"], ")", []),
    "let": (["(let [w 1]"], ")", []),
    "call-arg": (["(idf 1"], ")", []),
    "list": (["[1"], "]", []),
    "dict-value": (["{1 2", "3"], "}", []),
    "and": (["(and True"], ")", []),
    "setx": (["(setx v"], ")", []),
    "match": (["(match 1", "1"], ")", []),
    "id-macro": (["(idm"], ")", []),
    "wrap-macro": (["(wrapm"], ")", []),
    "fstring": (['f"{'], "", ['}"']),
    "kwarg": (["(idf 1", ":k"], ")", []),
    "op-add": (["(+ 1"], ")", []),
    "if-test": (["(if"], "", ["1", "2)"]),
}
RAISERS = {
    "call": ["(boom)"], "call3": ["(boom", "1", "2)"], "div2": ["(/ 1", "0)"], "index2": ["(get []", "5)"],
    "attr2": ["(. None", "nosuch)"], "name": ["hyv_undefined_name"], "raise2": ["(raise", "(ValueError))"],
    "assert": ["(assert False)"], "unpack2": ["(setv [p q]", "[1])"],
    "aug3": ["(+= aug-x 1", '"a")'], "cmp2": ["(< 1", "None)"], "chainc2": ["(chainc 1 <", "None)"],
    "kwcall2": ["(idf2 1", ":k 2)"], "cut2": ["(cut 5", "1)"],
    "py-compr-if": ['(py "[q for q in [0] if 10 / q]")'], "py-compr-iter": ['(py "[q for q in range(1 / 0)]")'],
    "py-lambda-default": ['(py "(lambda y=1 / 0: y)()")'], "pys-with": ['(pys "with open(1 / 0): pass")'],
    "py-call": ['(py "boom()")'],
    "gen-d0": ["(gen0", "0)"], "gen-d1": ["(gen1", "0)"], "gen-d2": ["(gen2", "0)"], "gen-d3": ["(gen3", "0)"],
    "gen-fstr": ["(genf", "0)"], "gen-fspec": ["(genfs", "0)"], "gen-list": ["(genl", "0)"], "gen-dict": ["(gend", "0)"],
    "rgen-d2": ["#genr 0"], "domac-d2": ["(do-mac (hy.models.Expression [(hy.models.Symbol \"do\")", "(hy.models.Expression [(hy.models.Symbol \"/\") 1 0])]))"],
}
FILENAME = "<hyv_lines>"


def render(rec):
    def build(i):
        if i == len(rec["chain"]):
            return list(RAISERS[rec["raiser"]])
        before, suffix, after = TEMPLATES[rec["chain"][i]]
        inner = build(i + 1)
        inner[-1] += suffix
        return list(before) + inner + list(after)
    return PRELUDE + build(0)


class Timeout(BaseException):
    pass


def run_program(text):
    import hy
    from hy.compiler import hy_compile
    from hy.reader import read_many
    mod = types.ModuleType("hyv_lines")

    def boom(*a):
        raise RuntimeError("boom")

    @contextlib.contextmanager
    def cm():
        yield 1
    mod.__dict__.update(e=lambda k, v: v, boom=boom, cm=cm, idf=lambda *a, **k: None, idf2=lambda a: None)
    try:
        tree = hy_compile(hy.models.Lazy(read_many(text, filename=FILENAME)), mod, filename=FILENAME, source=text)
        code = compile(tree, FILENAME, "exec")
    except BaseException as x:
        return {"outcome": "compile-error", "msg": f"{type(x).__name__}: {x}"[:300]}

    def on_alarm(*a):
        raise Timeout()
    old = signal.signal(signal.SIGALRM, on_alarm)
    signal.alarm(5)
    try:
        exec(code, mod.__dict__)
        return {"outcome": "no-exception"}
    except Timeout:
        return {"outcome": "timeout"}
    except BaseException as x:
        frames = [f for f in traceback.extract_tb(x.__traceback__) if f.filename == FILENAME]
        if not frames:
            return {"outcome": "no-frame", "msg": repr(x)}
        return {"outcome": "raised", "exc": type(x).__name__, "lineno": frames[-1].lineno,
                "lines": [f.lineno for f in frames]}
    finally:
        signal.alarm(0)
        signal.signal(signal.SIGALRM, old)


EXC = {"call": "RuntimeError", "call3": "RuntimeError", "div2": "ZeroDivisionError", "index2": "IndexError",
       "attr2": "AttributeError", "name": "NameError", "raise2": "ValueError", "assert": "AssertionError",
       "unpack2": "ValueError", "aug3": "TypeError", "cmp2": "TypeError", "chainc2": "TypeError", "kwcall2": "TypeError",
       "cut2": "TypeError", "py-compr-if": "ZeroDivisionError", "py-compr-iter": "ZeroDivisionError",
       "py-lambda-default": "ZeroDivisionError", "pys-with": "ZeroDivisionError", "py-call": "RuntimeError",
       "gen-d0": "ZeroDivisionError", "gen-d1": "ZeroDivisionError", "gen-d2": "ZeroDivisionError", "gen-d3": "ZeroDivisionError",
       "rgen-d2": "ZeroDivisionError", "domac-d2": "ZeroDivisionError", "gen-fstr": "ZeroDivisionError",
       "gen-fspec": "ZeroDivisionError", "gen-list": "ZeroDivisionError", "gen-dict": "ZeroDivisionError"}


def _one(rec):
    return run_program("\n".join(render(rec)) + "\n")


def main(run):
    rng = random.Random(run.seed)
    q = run.quick
    md = 2 if q else 3
    r = tlc.run("HyLines", tlc.cfg(constants={"MaxDepth": md, "PreludeLines": len(PRELUDE)},
                                   invariants=["Nesting", "OwnLines", "Export"]),
                run.work, workers=16, label="lines")
    if r.violated:
        raise MachineryError(f"HyLines: {r.violated} violated on the specification")
    run.add_tlc(r, f"HyLines: every chain of <= {md} enclosing constructs (31 kinds) x 29 raising forms, with its layout")
    rows = r.ex("PROG")
    run.log(f"TLC: {len(rows)} programs")
    rows.sort(key=lambda x: json.dumps(x, sort_keys=True))
    if q:
        # quick tier: every chain of <= 1 construct with every raising form; of the two-construct chains, every
        # a seeded tenth (every pair of constructs occurs about three times)
        deep = [x for x in rows if len(x["chain"]) == 2]
        rows = [x for x in rows if len(x["chain"]) < 2] + rng.sample(deep, len(deep) // 10)
    if len(rows) > 24000:
        # thorough tier: every chain of <= 1 construct, seeded samples of the chains of 2 and of 3 (a run over all of
        # them takes hours: each program compiles a prelude of twelve macro definitions)
        two = [x for x in rows if len(x["chain"]) == 2]
        three = [x for x in rows if len(x["chain"]) > 2]
        rows = [x for x in rows if len(x["chain"]) < 2] + rng.sample(two, min(len(two), 11000)) + rng.sample(three, min(len(three), 12000))
    skipped = {}
    results = pmap(_one, rows)
    for rec, got in zip(rows, results):
        lines = render(rec)
        text = "\n".join(lines) + "\n"
        key = json.dumps([rec["chain"], rec["raiser"]])
        run.case(key)
        # the layout computed by the specification must be the layout of the rendered text
        want = RAISERS[rec["raiser"]]
        if len(lines) != rec["total"] or not lines[rec["lo"] - 1].startswith(want[0]) or rec["hi"] - rec["lo"] + 1 != len(want):
            raise MachineryError(f"layout mismatch for {key}: spec lines {rec['lo']}..{rec['hi']} of {rec['total']}:\n{text}")
        if got["outcome"] != "raised" or got["exc"] != EXC[rec["raiser"]]:
            # the program does not raise at run time (hy rejects it, or drops a bare name in statement
            # position): the property says nothing about it
            skipped[got["outcome"]] = skipped.get(got["outcome"], 0) + 1
            continue
        if not (rec["lo"] <= got["lineno"] <= rec["hi"]):
            run.violation(key, f"{EXC[rec['raiser']]} raised by the form on line(s) {rec['lo']}..{rec['hi']} is reported at line "
                          f"{got['lineno']} (frames of the module: {got['lines']}); enclosing constructs {rec['chain']}; program:\n{text}",
                          {"program": text, "spec": rec, "got": got})
        else:
            run.cov["traces_validated_against_impl"] += 1
    if sum(skipped.values()) > len(rows) * 0.15:
        raise MachineryError(f"too many programs do not raise: {skipped}")
    run.notes.append(f"programs that do not raise at run time (not subject to the property): {skipped}")
    run.sample({"program": "\n".join(render(rows[len(rows) // 2])), "spec": rows[len(rows) // 2]})
    return run.finish("model_checking",
                      f"every chain of <= {md} enclosing constructs out of 31 (statement-lifting forms, comprehensions of both "
                      "strategies, functions, classes, try / with / loops, let, match, call and collection slots, f-string, core "
                      "and user macros) around each of 29 raising forms (1-3 lines; ten of them code generated by a macro, reader macro or do-mac call: at depth 0-3 of the expansion, inside f-string fields, as collection displays); HyLines computes the line span of the raising "
                      "form; the program is compiled and run and the last traceback frame of the module compared with the span"
,
                      extra={"programs": len(rows)})
