"""C05: lambda lists and calls bind like Python's def (HyBind.tla)."""
import json
import random
import types

from .. import tlc
from ..core import MachineryError, pmap


def names(sig):
    return [f"p{j}" for j in range(1, len(sig) + 1)]


def hy_sig(sig):
    out = []
    seen_slash = False
    for j, p in enumerate(sig, 1):
        k, d = p["k"], p["d"]
        if k != "po" and not seen_slash and any(q["k"] == "po" for q in sig):
            out.append("/")
            seen_slash = True
        nm = f"p{j}"
        if k in ("po", "n", "ko"):
            out.append(f"[{nm} {900 + j}]" if d else nm)
        elif k == "va":
            out.append(f"#* {nm}")
        elif k == "bs":
            out.append("*")
        else:
            out.append(f"#** {nm}")
    if any(q["k"] == "po" for q in sig) and not seen_slash:
        out.append("/")
    return " ".join(out)


def py_sig(sig):
    out = []
    seen_slash = False
    for j, p in enumerate(sig, 1):
        k, d = p["k"], p["d"]
        if k != "po" and not seen_slash and any(q["k"] == "po" for q in sig):
            out.append("/")
            seen_slash = True
        nm = f"p{j}"
        if k in ("po", "n", "ko"):
            out.append(f"{nm}={900 + j}" if d else nm)
        elif k == "va":
            out.append(f"*{nm}")
        elif k == "bs":
            out.append("*")
        else:
            out.append(f"**{nm}")
    if any(q["k"] == "po" for q in sig) and not seen_slash:
        out.append("/")
    return ", ".join(out)


def returned(sig):
    return [f"p{j}" for j, p in enumerate(sig, 1) if p["k"] != "bs"]


def hy_call(call, style=0):
    """style 1: every argument value is a form that needs statements (the call has to hoist them)"""
    w = (lambda v, i: f"(do (setv hyv-t{i} {v}) hyv-t{i})") if style else (lambda v, i: v)
    out = []
    for i, it in enumerate(call, 1):
        t = it["t"]
        if t == "pos":
            out.append(w(str(10 * i), i))
        elif t == "kw":
            out.append(f":{it['name']} {w(10 * i, i)}")
        elif t == "star":
            out.append("#* " + w("[" + " ".join(str(10 * i + j) for j in range(1, it["len"] + 1)) + "]", i))
        else:
            out.append("#** " + w("{" + "  ".join(f'"{n}" {10 * i + j}' for j, n in enumerate(it["names"], 1)) + "}", i))
    return "(f " + " ".join(out) + ")"


def py_call(call):
    pos, kw = [], []
    for i, it in enumerate(call, 1):
        t = it["t"]
        if t == "pos":
            pos.append(str(10 * i))
        elif t == "kw":
            kw.append(f"{it['name']}={10 * i}")
        elif t == "star":
            pos.append("*[" + ", ".join(str(10 * i + j) for j in range(1, it["len"] + 1)) + "]")
        else:
            kw.append("**{" + ", ".join(f'"{n}": {10 * i + j}' for j, n in enumerate(it["names"], 1)) + "}")
    return "f(" + ", ".join(pos + kw) + ")"


def expected(rec):
    if not rec["ok"]:
        return "rejected"
    out = {}
    for j, p in enumerate(rec["sig"], 1):
        if p["k"] in ("po", "n", "ko"):
            out[f"p{j}"] = rec["b"][j - 1]
        elif p["k"] == "va":
            out[f"p{j}"] = tuple(rec["args"])
        elif p["k"] == "vk":
            out[f"p{j}"] = {k: v for k, v in rec["kwargs"]}
    return out


def run_group(job):
    """one signature, many calls -> list of (hy outcome, python outcome)"""
    import hy
    sig, calls = job
    ret = returned(sig)
    mod = types.ModuleType("hyv_bind")
    try:
        hy.eval(hy.read_many(f"(defn f [{hy_sig(sig)}] {{{' '.join(chr(34) + n + chr(34) + ' ' + n for n in ret)}}})"),
                mod.__dict__, module=mod)
    except BaseException as x:
        return [("defn failed: " + repr(x)[:200], None)] * len(calls)
    ns = {}
    exec(f"def f({py_sig(sig)}):\n    return {{{', '.join(repr(n) + ': ' + n for n in ret)}}}\n", ns)
    out = []
    for call in calls:
        hs = []
        for style in (0, 1):
            try:
                h = hy.eval(hy.read(hy_call(call, style)), mod.__dict__, module=mod)
            except (TypeError, SyntaxError):
                h = "rejected"
            except BaseException as x:
                h = "other: " + repr(x)[:200]
            hs.append(h)
        h = hs[0] if hs[0] == hs[1] else f"with statement-producing argument values ({hy_call(call, 1)}): {hs[1]!r}; with constants: {hs[0]!r}"
        try:
            p = eval(py_call(call), ns)
        except (TypeError, SyntaxError):
            p = "rejected"
        out.append((h, p))
    return out


DOC_CASES = [
    # (body text, expected __doc__, expected return value)
    ('"doc"', None, "doc"),
    ('"doc" 1', "doc", 1),
    ('1 "doc"', None, "doc"),
    ('(+ "do" "c") 1', None, 1),
    ('f"doc" 1', None, 1),
    ('"doc" "second"', "doc", "second"),
    ("", None, None),
]


def doc_checks(run):
    import hy
    for head in ("defn g []", "fn []", "defn :async g []"):
        for body, doc, ret in DOC_CASES:
            run.case(("doc", head, body))
            mod = types.ModuleType("hyv_doc")
            text = f"(setv F ({head} {body}))" if head.startswith("fn") else f"({head} {body}) (setv F g)"
            hy.eval(hy.read_many(text), mod.__dict__, module=mod)
            F = mod.F
            if "async" in head:
                co = F()
                try:
                    co.send(None)
                    got = "no StopIteration"
                except StopIteration as s:
                    got = s.value
            else:
                got = F()
            if F.__doc__ != doc or got != ret:
                run.violation(f"doc:{head}:{body}", f"({head} {body}): __doc__ = {F.__doc__!r}, returns {got!r}; expected __doc__ = "
                              f"{doc!r} (only a string literal followed by more forms is a docstring), return value {ret!r}",
                              {"text": text})
            else:
                run.cov["traces_validated_against_impl"] += 1
    # generators return their last form through StopIteration; asynchronous generators return nothing
    mod = types.ModuleType("hyv_gen")
    hy.eval(hy.read_many("(defn gen [] (yield 1) 7) (defn :async agen [] (yield 1) 7)"), mod.__dict__, module=mod)
    g = mod.gen()
    next(g)
    try:
        next(g)
        val = "no StopIteration"
    except StopIteration as s:
        val = s.value
    run.case(("gen",))
    if val != 7:
        run.violation("gen-return", f"a generator's last body form should be its return value: got {val!r}", {})
    import inspect
    run.case(("agen",))
    if not inspect.isasyncgenfunction(mod.agen):
        run.violation("agen", "(defn :async agen [] (yield 1) 7) is not an asynchronous generator function", {})
    # the yield anywhere in the function's own scope (HyBind!YieldPlaces): still a generator that returns its last
    # form / an asynchronous generator that returns nothing
    places = {"body": "(yield 1)", "let": "(let [q 0] (yield 1))", "let-let": "(let [q 0] (let [r 1] (yield 1)))",
              "if": "(if True (yield 1) 0)", "when": "(when True (yield 1))", "for": "(for [q [1]] (yield q))",
              "with": "(with [(cm)] (yield 1))", "try": "(try (yield 1) (finally 0))", "do": "(do 0 (yield 1))",
              "setv-value": "(setv q (yield 1))"}
    import contextlib

    @contextlib.contextmanager
    def cm():
        yield 1
    for place, form in places.items():
        for head in ("defn g []", "defn :async g []", "fn []", "fn :async []"):
            text = f"(setv F ({head} {form} 7))" if head.startswith("fn") else f"({head} {form} 7) (setv F g)"
            run.case(("yield-place", place, head))
            mod = types.ModuleType("hyv_yield")
            mod.cm = cm
            try:
                hy.eval(hy.read_many(text), mod.__dict__, module=mod)
            except Exception as x:
                run.violation(f"yield:{place}:{head}", f"{text}: {type(x).__name__}: {x}; a yield inside {place} keeps the "
                              f"function a generator, and an asynchronous generator has no return value", {"text": text})
                continue
            F = mod.F
            if "async" in head:
                ok = inspect.isasyncgenfunction(F)
                got = "async generator" if ok else "not an async generator"
            else:
                ok = inspect.isgeneratorfunction(F)
                got = "generator" if ok else "not a generator"
                if ok:
                    g = F()
                    next(g)
                    try:
                        next(g)
                        got, ok = "second value", False
                    except StopIteration as s_:
                        ok = s_.value == 7
                        got = f"returns {s_.value!r}"
            if not ok:
                run.violation(f"yield:{place}:{head}", f"{text}: {got}", {"text": text})
            else:
                run.cov["traces_validated_against_impl"] += 1


def main(run):
    rng = random.Random(run.seed)
    q = run.quick
    invs = ["PosOnlyNeverByKeyword", "KwOnlyNeverPositional", "NothingLost", "Export"]
    rows = []
    plans = [((3, 2), None)] if q else [((4, 2), None), ((3, 3), None)]
    for (mp, mi), _ in plans:
        r = tlc.run("HyBind", tlc.cfg(constants={"MaxParams": mp, "MaxItems": mi}, invariants=invs), run.work, workers=16,
                    label=f"bind-{mp}-{mi}", timeout=3000)
        if r.violated:
            raise MachineryError(f"HyBind: {r.violated} violated on the specification")
        run.add_tlc(r, f"HyBind exhaustive: signatures of <= {mp} parameters x calls of <= {mi} items")
        rows += r.ex("CASE")
    # long signatures and calls: random behaviours of the same specification
    r = tlc.run("HyBind", tlc.cfg(constants={"MaxParams": 6, "MaxItems": 5}, invariants=invs), run.work, workers=16,
                simulate=f"num={60 if q else 1500}", depth=13, seed=run.seed + 1, label="bind-sim", timeout=3000)
    if r.violated:
        raise MachineryError(f"HyBind: {r.violated} violated on the specification (simulation)")
    run.add_tlc(r, "HyBind simulation: signatures of <= 6 parameters x calls of <= 5 items")
    rows += r.ex("CASE")
    uniq = {}
    for rec in rows:
        uniq.setdefault(json.dumps([rec["sig"], rec["call"]], sort_keys=True), rec)
    rows = list(uniq.values())
    run.log(f"TLC: {len(rows)} distinct (signature, call) pairs")
    groups = {}
    for rec in rows:
        groups.setdefault(json.dumps(rec["sig"], sort_keys=True), []).append(rec)
    jobs = [(recs[0]["sig"], [x["call"] for x in recs]) for recs in groups.values()]
    results = pmap(run_group, jobs, chunk=4)
    stats = {"bound": 0, "rejected": 0, "signatures": len(jobs), "max_params": max(len(j[0]) for j in jobs)}
    for recs, res in zip(groups.values(), results):
        for rec, (h, p) in zip(recs, res):
            want = expected(rec)
            key = json.dumps([hy_sig(rec["sig"]), hy_call(rec["call"])])
            run.case(key)
            if p != want:
                raise MachineryError(f"HyBind disagrees with CPython: def f({py_sig(rec['sig'])}) called as {py_call(rec['call'])} "
                                     f"gives {p}, spec {want}")
            stats["rejected" if want == "rejected" else "bound"] += 1
            if h != want:
                run.violation(key, f"(defn f [{hy_sig(rec['sig'])}] ...) called as {hy_call(rec['call'])} gives {h}; Python's "
                              f"def f({py_sig(rec['sig'])}) called as {py_call(rec['call'])} gives {want}",
                              {"sig": hy_sig(rec["sig"]), "call": hy_call(rec["call"]), "got": repr(h), "want": repr(want)})
            else:
                run.cov["traces_validated_against_impl"] += 1
    doc_checks(run)
    run.sample({"defn": f"(defn f [{hy_sig(jobs[len(jobs) // 2][0])}] ...)", "call": hy_call(jobs[len(jobs) // 2][1][-1])})
    return run.finish("model_checking",
                      "signatures (positional-only, ordinary, #* / bare *, keyword-only, #**, defaults) x calls (positional, "
                      "keyword anywhere, #* lists, #** dicts; every call once with constant argument values and once with "
                      "values that need statements): exhaustive for small bounds, random behaviours of the same spec up "
                      "to 6 parameters and 5 call items; HyBind's binding is first checked against CPython's def, then Hy's "
                      "defn + call against it; plus docstring / implicit-return tables for fn, defn, async defn, generators",
                      extra=stats)
