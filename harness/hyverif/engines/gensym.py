"""C38: hy.gensym under every thread schedule.

1. extract the visible-operation program of gensym from the real bytecode
   (one monitored sequential call);
2. TLC checks HyGensym (all interleavings of that program, 2..4 threads);
3. spec -> code: TLC schedules (terminal states, and any counterexample) are
   replayed on real threads under a deterministic scheduler;
4. code -> spec: the scheduler enumerates all real schedules itself
   (stateless DFS) and TLC validates every recorded trace (HyGensymTrace);
5. reserved-prefix / mangle-fixpoint part on argument strings.
"""
import dis
import itertools
import json
import random
import sys
import threading

from .. import tlc
from ..core import MachineryError

TOOL = 4
START = 10


class LockProxy:
    """Stands in for _gensym_lock: reports acquire/release to the scheduler
    and never really blocks (a thread waiting for a held lock is *disabled*)."""

    def __init__(self, sched):
        self.sched = sched
        self.held = False

    def acquire(self, blocking=True, timeout=-1):
        self.sched.park("acq")
        self.held = True
        return True

    def release(self):
        self.sched.park("rel")
        if not self.held:
            raise RuntimeError("release unlocked lock")
        self.held = False

    def locked(self):
        return self.held

    def __enter__(self):
        self.acquire()
        return self

    def __exit__(self, *a):
        self.release()


class Scheduler:
    """Runs k real threads calling gensym; each thread stops before every
    visible operation and proceeds only when granted."""

    def __init__(self, U, args):
        self.U = U
        self.args = args
        self.k = len(args)
        self.code = U.gensym.__code__
        self.watch = {}
        for ins in dis.get_instructions(self.code):
            if ins.argval == "_gensym_counter" and ins.opname in (
                    "LOAD_GLOBAL", "STORE_GLOBAL", "LOAD_NAME", "STORE_NAME", "DELETE_GLOBAL"):
                self.watch[ins.offset] = "load" if ins.opname.startswith("LOAD") else "store"
        if not self.watch:
            raise MachineryError("gensym no longer touches _gensym_counter as a global")

    # -- worker side
    def park(self, op):
        t = self.tls.t
        self.pending[t] = op
        self.arrived.release()
        self.go[t].acquire()

    def _cb(self, code, offset):
        op = self.watch.get(offset)
        if op is not None and getattr(self.tls, "t", None) is not None:
            self.park(op)

    def _worker(self, t):
        self.tls.t = t
        try:
            self.results[t] = self.U.gensym(self.args[t - 1])
        except BaseException as e:  # noqa
            self.results[t] = e
        self.tls.t = None
        self.pending[t] = None
        self.finished[t] = True
        self.arrived.release()

    # -- controller side
    def run(self, choose):
        """choose(step_index, enabled list) -> thread id.  Returns
        (events, results, decisions)."""
        U = self.U
        mon = sys.monitoring
        self.tls = threading.local()
        self.pending = {}
        self.finished = {t: False for t in range(1, self.k + 1)}
        self.results = {}
        self.arrived = threading.Semaphore(0)
        self.go = {t: threading.Semaphore(0) for t in range(1, self.k + 1)}
        real_lock = U._gensym_lock
        proxy = LockProxy(self)
        U._gensym_lock = proxy
        U._gensym_counter = START
        mon.use_tool_id(TOOL, "hyverif")
        mon.register_callback(TOOL, mon.events.INSTRUCTION, self._cb)
        mon.set_local_events(TOOL, self.code, mon.events.INSTRUCTION)
        events, decisions = [], []
        try:
            ths = [threading.Thread(target=self._worker, args=(t,), daemon=True)
                   for t in range(1, self.k + 1)]
            for th in ths:
                th.start()
            for _ in ths:
                if not self.arrived.acquire(timeout=20):
                    raise MachineryError("gensym worker did not reach a visible op")
            last = None  # (t, op) granted last; store value is read afterwards
            step = 0
            while True:
                live = [t for t in self.pending if self.pending[t] is not None]
                if not live:
                    break
                enabled = [t for t in sorted(live)
                           if not (self.pending[t] == "acq" and proxy.held)]
                if not enabled:
                    raise MachineryError(f"deadlock among real threads: {self.pending}")
                t = choose(step, enabled)
                if t not in enabled:
                    raise MachineryError(f"schedule asks for disabled thread {t} at step {step}")
                decisions.append((enabled, t))
                op = self.pending[t]
                val = U._gensym_counter if op == "load" else None
                self.go[t].release()
                if not self.arrived.acquire(timeout=20):
                    raise MachineryError("gensym worker hung")
                if op == "store":
                    val = U._gensym_counter
                events.append({"t": t, "op": op, "val": val if val is not None else 0})
                step += 1
            for th in ths:
                th.join(5)
        finally:
            mon.set_local_events(TOOL, self.code, 0)
            mon.register_callback(TOOL, mon.events.INSTRUCTION, None)
            mon.free_tool_id(TOOL)
            U._gensym_lock = real_lock
        return events, dict(self.results), decisions


def number_of(sym):
    s = str(sym)
    try:
        return int(s.rsplit("_", 1)[1])
    except Exception:
        return -1


def all_schedules(sched, limit):
    """Stateless DFS over every schedule of the real threads."""
    prefix = []
    n = 0
    while True:
        def choose(i, enabled, prefix=prefix):
            return prefix[i] if i < len(prefix) else enabled[0]
        ev, res, dec = sched.run(choose)
        yield ev, res, [d[1] for d in dec]
        n += 1
        if n >= limit:
            return
        # backtrack: deepest decision with an untried later alternative
        i = len(dec) - 1
        while i >= 0:
            enabled, t = dec[i]
            later = [x for x in enabled if x > t]
            if later:
                prefix = [d[1] for d in dec[:i]] + [later[0]]
                break
            i -= 1
        else:
            return


def check_symbols(run, res, args, schedule, events):
    """The property on a real execution: distinct, reserved, mangle fixpoint."""
    import hy
    syms = []
    for t in sorted(res):
        r = res[t]
        if isinstance(r, BaseException):
            run.violation(f"raise:{type(r).__name__}", f"gensym raised {r!r} under schedule {schedule}",
                          {"kind": "schedule", "args": args, "schedule": schedule})
            return
        syms.append(str(r))
    if len(set(syms)) != len(syms):
        run.violation("duplicate-symbols",
                      f"gensym returned duplicate symbols {syms} under schedule {schedule}",
                      {"kind": "schedule", "args": args, "schedule": schedule,
                       "symbols": syms, "events": events})
    for s in syms:
        if not s.startswith("_hy_") or hy.mangle(s) != s:
            run.violation(f"reserved:{args}", f"gensym returned {s!r} (not reserved/mangled)",
                          {"kind": "schedule", "args": args, "schedule": schedule})


def validate_traces(run, traces, prog, delta, k):
    tf = run.work / "gensym-traces.ndjson"
    with open(tf, "w") as f:
        for tr in traces:
            f.write(json.dumps(tr) + "\n")
    cfg = tlc.cfg(spec="TSpec", constants={"Threads": set(range(1, k + 1)), "Delta": delta,
                                            "Start": START},
                  invariants=["Accept", "TDistinct"], post="Post")
    r = tlc.run("HyGensymTrace", cfg, run.work, workers=1, env={"TRACE_FILE": str(tf)},
                defs={"Prog": tlc.tla(prog)}, label="trace")
    run.add_tlc(r, f"HyGensymTrace batch of {len(traces)} (k={k})")
    acc = r.ex("ACCEPTED")
    if not acc:
        raise MachineryError("trace batch produced no ACCEPTED record")
    ids = set(acc[-1]["ids"])
    return ids, r


def main(run):
    import hy  # noqa
    import hy.core.util as U

    quick = run.quick
    rng = random.Random(run.seed)

    # ---- 1. extract the program from the real code (sequential call)
    s1 = Scheduler(U, [""])
    ev, res, _ = s1.run(lambda i, en: en[0])
    prog = [e["op"] for e in ev]
    loads = [e for e in ev if e["op"] == "load"]
    stores = [e for e in ev if e["op"] == "store"]
    delta = 1
    if stores and loads:
        delta = stores[0]["val"] - loads[0]["val"]
    run.log(f"extracted gensym program {prog} delta={delta} -> {res[1]}")
    if not stores or delta <= 0:
        run.violation("no-increment", f"gensym does not advance its counter (ops {prog})",
                      {"kind": "program", "prog": prog})
    run.notes.append(f"extracted program: {prog}, delta {delta}")

    # ---- 2. TLC: all interleavings of that program
    cex_schedules = []
    term = {}
    for k in ([2, 3] if quick else [2, 3, 4]):
        cfg = tlc.cfg(constants={"Threads": set(range(1, k + 1)), "Delta": max(delta, 0),
                                 "Start": START},
                      invariants=["DistinctOrExport", "ExportTerminal", "Fresh"],
                      properties=["Monotone"], view="View")
        r = tlc.run("HyGensym", cfg, run.work, defs={"Prog": tlc.tla(prog)},
                    coverage=True, label=f"k{k}", workers=1 if k < 4 else 16)
        run.add_tlc(r, f"HyGensym exhaustive, {k} threads")
        if r.violated:
            for c in r.ex("CEX"):
                cex_schedules.append((k, c["sched"], c["regs"]))
            run.log(f"TLC: {r.violated} violated with {k} threads; "
                    f"counterexample schedules: {len(r.ex('CEX'))}")
            if not r.ex("CEX"):
                run.notes.append(f"TLC reported {r.violated} at k={k}")
        term[k] = r.ex("TERM")
        run.log(f"TLC k={k}: {r.distinct} distinct states, {len(term[k])} terminal states")
        if cex_schedules:
            break

    # design check: with the lock removed TLC must find the lost update
    # (negative control: the invariant is not vacuous)
    nolock = [o for o in ["acq", "load", "store", "load", "rel"] if o not in ("acq", "rel")]
    cfg = tlc.cfg(constants={"Threads": {1, 2}, "Delta": 1, "Start": START},
                  invariants=["DistinctOrExport"], view="View")
    r = tlc.run("HyGensym", cfg, run.work, defs={"Prog": tlc.tla(nolock)}, workers=1,
                label="nolock")
    if not r.violated:
        raise MachineryError("negative control: lock-free program not rejected by TLC")
    neg_sched = r.ex("CEX")[0]["sched"]
    run.add_tlc(r, "negative control: lock-free program (must violate Distinct)")

    # ---- 3. spec -> code: replay TLC schedules on real threads
    def replay(k, sched_list, args=None):
        args = args or [""] * k
        s = Scheduler(U, args)
        ev, res, dec = s.run(lambda i, en: sched_list[i] if i < len(sched_list) else en[0])
        return ev, res

    for (k, sc, regs) in cex_schedules:
        try:
            ev, res = replay(k, sc)
        except MachineryError as e:
            run.notes.append(f"TLC counterexample not replayable: {e}")
            continue
        run.case(("cex", tuple(sc)))
        run.sample({"tlc_counterexample_schedule": sc, "real_symbols": [str(res[t]) for t in sorted(res)]})
        check_symbols(run, res, [""] * k, sc, ev)

    n_replayed = 0
    for k, terms in term.items():
        todo = terms if (len(terms) <= 200 or not quick) else rng.sample(terms, 200)
        for tm in todo[: 200 if quick else 3000]:
            ev, res = replay(k, tm["sched"])
            n_replayed += 1
            run.case(("term", k, tuple(tm["sched"])))
            nums = [number_of(res[t]) for t in sorted(res)]
            exp = [tm["regs"][t - 1] if isinstance(tm["regs"], list) else tm["regs"][str(t)]
                   for t in sorted(res)]
            check_symbols(run, res, [""] * k, tm["sched"], ev)
            if nums != exp:
                raise MachineryError(f"spec/impl disagree on schedule {tm['sched']}: "
                                     f"spec {exp} impl {nums} (model extraction wrong?)")
            if n_replayed <= 2:
                run.sample({"schedule": tm["sched"], "symbols": [str(res[t]) for t in sorted(res)]})
    run.log(f"replayed {n_replayed} TLC terminal schedules on real threads")

    # ---- 4. code -> spec: enumerate every real schedule, validate traces
    arg_pool = ["", "x", "a-b", "é", "X", "_", "-", "a.b", "1", "hyx_"]
    plans = [(2, 400), (3, 300 if quick else 20000)]
    if not quick:
        plans.append((4, 5000))
    for k, limit in plans:
        args = [arg_pool[(i + run.seed) % len(arg_pool)] if i else "" for i in range(k)]
        args = [""] * k if k == 2 else args
        traces, metas = [], []
        s = Scheduler(U, args)
        for ev, res, sched in all_schedules(s, limit):
            run.case(("dfs", k, tuple(sched)))
            check_symbols(run, res, args, sched, ev)
            rets = [number_of(res[t]) if not isinstance(res[t], BaseException) else -1
                    for t in sorted(res)]
            traces.append({"ev": ev, "rets": rets, "start": START})
            metas.append(sched)
        exhaustive = len(traces) < limit
        run.log(f"real threads k={k}: {len(traces)} schedules "
                f"({'all' if exhaustive else 'bounded'})")
        # negative controls appended to the batch: must be rejected
        bad = []
        if traces:
            t0 = json.loads(json.dumps(traces[0]))
            for e in t0["ev"]:
                if e["op"] == "store":
                    e["val"] += 1   # corrupted stored value
                    break
            bad.append(t0)
            t1 = json.loads(json.dumps(traces[0]))
            t1["rets"][0] += 1      # wrong returned number
            bad.append(t1)
            t2 = json.loads(json.dumps(traces[0]))
            if len(t2["ev"]) > 2:
                t2["ev"][1], t2["ev"][2] = t2["ev"][2], t2["ev"][1]  # reordered ops
                bad.append(t2)
        ids, r = validate_traces(run, traces + bad, prog, max(delta, 0), k)
        n = len(traces)
        for j in range(len(bad)):
            if n + 1 + j in ids:
                raise MachineryError(f"negative control trace {j} accepted by HyGensymTrace")
        rejected = [i for i in range(1, n + 1) if i not in ids]
        run.cov["traces_validated_against_impl"] += n - len(rejected)
        if r.violated == "TDistinct":
            run.notes.append("TLC: Distinct violated on a recorded trace")
        if rejected:
            # a rejected trace with distinct symbols is a model mismatch, not a violation
            if not run.violations:
                raise MachineryError(f"{len(rejected)} real traces rejected by the spec, "
                                     f"e.g. schedule {metas[rejected[0]-1]}")
        run.cov.setdefault("schedules", {})[f"k{k}"] = {"n": n, "exhaustive": exhaustive,
                                                        "negative_controls_rejected": len(bad)}
        if k == 2:
            run.sample({"trace": traces[0]})

    # the negative-control schedule is not realisable on the real (locked) code
    try:
        replay(2, neg_sched)
        if prog.count("acq"):
            run.notes.append("lock-free counterexample schedule was realisable")
    except MachineryError:
        pass

    # ---- 5. reserved prefix / mangle fixpoint for arbitrary argument strings
    alpha = ["", "a", "-", "_", "X", ".", " ", "é", "!", "1", "hyx_", "Ⅹ", "̇", "{", "}", "{}"]
    n_args = 0
    raising = []
    pool = [a + b for a in alpha for b in alpha] if quick else \
        ["".join(p) for p in itertools.product(alpha, repeat=3)]
    for g in pool:
        try:
            s = str(U.gensym(g))
        except ValueError:
            # no symbol is returned (e.g. an argument with an edge dot is not a
            # legal symbol); the property speaks about returned symbols only
            raising.append(g)
            continue
        except Exception as e:
            run.violation(f"arg-raise:{g!r}", f"gensym({g!r}) raised {e!r}", {"kind": "arg", "arg": g})
            continue
        n_args += 1
        run.case(("arg", g), nontrivial=bool(g))
        if not s.startswith("_hy_") or hy.mangle(s) != s or not s.isidentifier():
            run.violation(f"reserved:{g!r}", f"gensym({g!r}) -> {s!r} not reserved/mangled",
                          {"kind": "arg", "arg": g})
    # distinctness is for any arguments: the same label given again and again, labels of any length and
    # alphabet, sequentially and from threads (the schedules above use short labels)
    labels = ["", "g", "x" * 40, "y" * 84, "z" * 96, "w" * 200, "-" * 90, "é" * 120, "a-b_" * 30, "!" * 50]
    seen_syms = {}
    for rep in range(3):
        for g in labels:
            s = str(U.gensym(g))
            run.case(("repeat", g[:10], len(g), rep))
            if s in seen_syms:
                run.violation(f"repeat:{len(g)}:{g[:8]!r}", f"gensym with a label of {len(g)} characters ({g[:12]!r}...) returned {s[:60]!r}... "
                              f"twice (also for the call {seen_syms[s]})", {"kind": "arg", "arg": g})
            else:
                run.cov["traces_validated_against_impl"] += 1
            seen_syms[s] = (len(g), rep)
            if not s.startswith("_hy_") or hy.mangle(s) != s or not s.isidentifier():
                run.violation(f"reserved:{g[:10]!r}:{len(g)}", f"gensym of a {len(g)}-character label -> {s[:60]!r} not reserved/mangled",
                              {"kind": "arg", "arg": g})
    import threading as _th
    got = []
    def _w(lbl):
        for _ in range(50):
            got.append(str(U.gensym(lbl)))
    ths = [_th.Thread(target=_w, args=("q" * 100,)) for _ in range(3)]
    for t_ in ths:
        t_.start()
    for t_ in ths:
        t_.join()
    run.case(("threads-long-label",))
    if len(set(got)) != len(got):
        run.violation("repeat:threads", f"3 threads x 50 calls with a 100-character label returned {len(set(got))} distinct symbols", {"kind": "arg"})
    run.cov["argument_strings"] = n_args
    run.cov["argument_strings_rejected_with_ValueError"] = len(raising)
    return run.finish(
        "model_checking",
        "schedules: every interleaving of the visible operations of the real gensym bytecode "
        "(lock acquire/release via proxy, LOAD/STORE_GLOBAL of the counter via sys.monitoring); "
        "distinct = different schedule or argument string",
        assumptions=["only LOAD/STORE_GLOBAL of _gensym_counter and lock operations are shared accesses",
                     "CPython executes one bytecode instruction atomically"],
        extra={"exhaustive": True})


def replay(run, path):
    import hy  # noqa
    import hy.core.util as U
    d = json.load(open(path))["replay"]
    if d["kind"] == "schedule":
        sc = d["schedule"]
        s = Scheduler(U, d["args"])
        ev, res, _ = s.run(lambda i, en: sc[i] if i < len(sc) else en[0])
        print("events:", ev)
        print("symbols:", [str(res[t]) for t in sorted(res)])
        check_symbols(run, res, d["args"], sc, ev)
    else:
        print(U.gensym(d.get("arg", "")))
    return 1 if run.violations else 0
