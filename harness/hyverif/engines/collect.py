"""C11: no subform is silently dropped (HyCollect.tla)."""
import ast as pyast
import json
import random
import signal
import types

from .. import tlc
from ..core import MachineryError

PRELUDE = """(defn f [#* a #** k] None)
(defclass O []
  (defn m [self #* a #** k] None)
  (defn __getitem__ [self k] self)
  (defn __enter__ [self] self)
  (defn __exit__ [self #* a] None))
(setv o (O) c (O))
"""

# leaf values per context: (plain, star, dstar, kw-name, kw-value)
DEFAULT = ("1", "[1 2]", '{"k" 1}', "k", "1")
VALUES = {
    "bases": ("object", "[]", "{}", "metaclass", "type"),
    "decorators": ("(fn [g] g)", "[(fn [g] g)]", "{}", "k", "1"),
    "except-types": ("ValueError", "[ValueError]", "{}", "k", "1"),
    "with-manager": ("(O)", "[(O)]", "{}", "k", "1"),
    "lfor-iter": ("[1]", "[[1]]", "{}", "k", "1"),
    "dict": ("1", "[1 2]", '{"k" 1}', "k", "1"),
}


def render(rec, mask=None):
    """-> (program text, list of leaf sites); mask[i]: the leaves of element i are forms that need statements"""
    ctx, elems = rec["ctx"], rec["elems"]
    plain, star, dstar, kwn, kwv = VALUES.get(ctx, DEFAULT)
    sites = []
    cur = [False]

    def leaf(v):
        sites.append(len(sites) + 1)
        if ctx == "setv-target":
            return f"t{sites[-1]}"       # an assignment target: a uniquely named variable
        if cur[0]:
            return f"(do (setv hyv-t{sites[-1]} (e {sites[-1]} {v})) hyv-t{sites[-1]})"
        return f"(e {sites[-1]} {v})"
    parts = []
    for i, k in enumerate(elems):
        cur[0] = bool(mask and mask[i])
        if k == "plain":
            if ctx == "dict":
                # keys have to be hashable and distinct: use the site number
                a = leaf(str(len(sites) + 101))
                parts.append(f"{a} {leaf('1')}")
            else:
                parts.append(leaf(plain))
        elif k == "star":
            parts.append(f"#* {leaf(star)}")
        elif k == "dstar":
            parts.append(f"#** {leaf(dstar)}")
        else:
            nk = sum(1 for p in parts if p.startswith(":"))
            parts.append(f":{kwn if nk == 0 else kwn + str(nk)} {leaf(kwv)}")
    E = " ".join(parts)
    form = {
        "list": f"[{E}]", "tuple": f"#({E})", "set": f"#{{{E}}}", "dict": f"{{{E}}}",
        "call": f"(f {E})", "method": f"(.m o {E})", "method-pre": f"(.m {E} o)", "dotcall": f"(o.m {E})",
        "get": f"(get c {E})", "cut": f"(cut c {E})", "dot-index": f"(. c [{E}])",
        "op-add": f"(+ {E})", "op-and": f"(and {E})", "op-le": f"(<= {E})",
        "setv-target": f"(setv [{E}] [1 2 3])",
        "bases": f"(defclass K [{E}])", "decorators": f"(defn [{E}] g [] 1)",
        "except-types": f"(try (raise (ValueError)) (except [[{E}]] 2))",
        "if-test": f"(if {E} 1 2)", "with-manager": f"(with [{E}] 1)", "return": f"((fn [] (return {E})))",
        "assert": f"(assert {E})", "raise": f"(raise {E})", "setv-value": f"(setv v {E})", "not": f"(not {E})",
        "fstring-field": 'f"{' + E + '}"', "lfor-iter": f"(lfor x {E} x)", "while-test": f"(while {E} (break))",
    }[ctx]
    return PRELUDE + form + "\n", sites


class Timeout(BaseException):
    pass


def run_program(text):
    import hy
    from hy.compiler import hy_compile
    from hy.errors import HyLanguageError
    from hy.reader import read_many
    log = []
    mod = types.ModuleType("hyv_collect")

    def e(k, v):
        log.append(k)
        return v
    mod.__dict__["e"] = e
    try:
        tree = hy_compile(hy.models.Lazy(read_many(text, filename="<collect>")), mod, filename="<collect>", source=text)
        code = compile(tree, "<collect>", "exec")
    except (HyLanguageError, SyntaxError) as x:
        return {"outcome": "error", "msg": f"{type(x).__name__}: {getattr(x, 'msg', x)}"[:200]}
    except BaseException as x:
        return {"outcome": "crash", "msg": f"{type(x).__name__}: {x}"[:200]}
    stored = sorted(int(n.id[1:]) for n in pyast.walk(tree) if isinstance(n, pyast.Name) and isinstance(n.ctx, pyast.Store)
                    and n.id[0] == "t" and n.id[1:].isdigit())
    present = stored + sorted(n.args[0].value for n in pyast.walk(tree)
                     if isinstance(n, pyast.Call) and isinstance(n.func, pyast.Name) and n.func.id == "e"
                     and n.args and isinstance(n.args[0], pyast.Constant))

    def on_alarm(*a):
        raise Timeout()
    old = signal.signal(signal.SIGALRM, on_alarm)
    signal.alarm(5)
    raised = ""
    try:
        exec(code, mod.__dict__)
    except Timeout:
        raised = "timeout"
    except BaseException as x:
        raised = f"{type(x).__name__}: {x}"[:120]
    finally:
        signal.alarm(0)
        signal.signal(signal.SIGALRM, old)
    return {"outcome": "compiled", "present": present, "log": sorted(log), "raised": raised, "py": pyast.unparse(tree)[-300:]}


def main(run):
    rng = random.Random(run.seed)
    q = run.quick
    me = 3 if q else 4
    r = tlc.run("HyCollect", tlc.cfg(constants={"MaxElems": me},
                                     invariants=["DstarOnlyInDictAndCalls", "PlainEverywhere", "Decides", "FallbackOnlyShadowed", "Export"]),
                run.work, workers=8, label="collect")
    if r.violated:
        raise MachineryError(f"HyCollect: {r.violated} violated on the specification")
    run.add_tlc(r, f"HyCollect: 28 contexts x element sequences of length <= {me} over plain / #* / #** / keyword")
    rows = r.ex("PROG")
    run.log(f"TLC: {len(rows)} programs")
    rows.sort(key=lambda x: json.dumps(x, sort_keys=True))
    stats = {"kept": 0, "error": 0, "either": 0, "clean_runs": 0}
    jobs = []
    for rec in rows:
        masks = sorted(rec["masks"]) if rec["ctx"] != "setv-target" else [[False] * len(rec["elems"])]
        for m in masks:
            jobs.append((rec, m))
    stats["statement_leaf_programs"] = sum(1 for _r, m in jobs if any(m))
    for rec, mask in jobs:
        text, sites = render(rec, mask)
        got = run_program(text)
        key = json.dumps([rec["ctx"], rec["elems"]] + ([mask] if any(mask) else []))
        run.case(key)
        stats[rec["expect"]] += 1
        form = text[len(PRELUDE):].strip()
        bad = None
        if got["outcome"] == "crash":
            # (exception types are C10's business; here a failed compilation is at least not a silent drop)
            if rec["expect"] == "kept":
                bad = f"compilation failed ({got['msg']}) although every element has a Python construct ({rec['constructs']})"
        elif got["outcome"] == "error":
            if rec["expect"] == "kept":
                bad = f"compilation failed ({got['msg']}) although every element has a Python construct ({rec['constructs']})"
        else:
            missing = [s for s in sites if s not in got["present"]]
            if missing:
                bad = (f"compiled, but the subform(s) at site(s) {missing} are not in the compiled code: {got['py']!r}"
                       f" (specification: {rec['expect']}, constructs {rec['constructs']})")
            elif rec["expect"] == "error":
                bad = (f"compiled although Python has no construct for an element ({rec['constructs']}); "
                       f"code: {got['py']!r}")
            elif not got["raised"]:
                stats["clean_runs"] += 1
                if got["log"] != sites and rec["ctx"] != "setv-target":
                    bad = f"ran to completion but evaluated sites {got['log']} instead of {sites}"
            elif not set(got["log"]) <= set(sites):
                bad = f"evaluated unknown sites {got['log']}"
        if bad:
            if rec["ctx"] == "op-le" and len(rec["elems"]) == 1 and rec["elems"][0] in ("plain", "kw") and "not in the compiled code" in bad:
                key = "comparison operator with a single argument"
            run.violation(key, f"{form}: {bad}", {"program": text, "spec": rec, "got": got})
        else:
            run.cov["traces_validated_against_impl"] += 1
    if stats["clean_runs"] < len(jobs) // 5 or min(stats["kept"], stats["error"]) == 0:
        raise MachineryError(f"vacuous: {stats}")
    run.sample({"program": render(rows[len(rows) // 3])[0], "spec": rows[len(rows) // 3]})
    return run.finish("model_checking",
                      f"28 contexts (collection displays, dict, call / method / dotted call, get, cut, + / and / <=, class "
                      f"bases, decorators, except types, ten single-expression slots) x every sequence of <= {me} elements "
                      "over plain / #* / #** / keyword-and-value, the leaves written as plain expressions and again as forms that need "
                      "statements (none, each single position, all); checked: compilation outcome against the construct table, "
                      "every leaf (a uniquely numbered effect call) present in the compiled AST, and evaluated when the "
                      "program runs to completion", extra=stats)
