"""C15: importing from source vs. from cached bytecode (HyCache.tla)."""
import importlib.machinery
import json
import os
import random
import subprocess
from concurrent.futures import ThreadPoolExecutor

from .. import tlc
from ..core import MachineryError, PY

PKG = "hyv_c15"
S_SRC = """(defmacro a [] 901)
(defmacro b [] 902)
(defmacro _c [] 903)
(defreader r 951)
(defreader s 952)
"""
S2_SRC = """(defmacro a [] 901)
(defmacro b [] 902)
(export :macros [a])
"""
REQ = {
    "plain": "(require P.S)", "as": "(require P.S :as p)", "list": "(require P.S [a b :as bb _c])",
    "star": "(require P.S *)", "rel-list": "(require .S [a])", "rel-as": "(require .S :as q)",
    "rel-star-exp": "(require .S2 *)", "exp-as": "(require P.S2 :as e)", "pkg-list": "(require P [S])",
    "rel-pkg": "(require . [S2])", "both": "(require P.S :macros [a] :readers [r])",
    "rd-list": "(require P.S :readers [r])", "rd-star": "(require P.S :readers *)",
}
VALS = {3: ":kw", 4: "'(a 1 [:b])", 5: "(do (defn g@ [[k 15]] k) (g@))", 6: "(do (defclass C@ [] (setv z 16)) C@.z)"}
VAL_OBS = {3: ":kw", 4: "'(a 1 [:b])", 5: 15, 6: 16}
LOCAL_USE = {"list": "bb", "as": "p.b", "star": "a"}


def real(n):
    return n.replace("P.", PKG + ".") if n.startswith("P.") else n


def render(prog):
    out = []
    for i, (kind, a, b) in enumerate(prog, 1):
        if kind == "set":
            out.append(f"(setv {a} {VALS.get(b, str(b)).replace('@', str(i))})")
        elif kind == "def":
            out.append(f"(defmacro {a} [] {100 + i})")
        elif kind == "req":
            out.append(REQ[a].replace("P", PKG))
        elif kind == "use":
            out.append(f"(setv u{i} ({real(a)}))")
        elif kind == "rdr":
            out.append(f"(setv u{i} #{a})")
        elif kind == "lreq":
            out.append(f"(defn f{i} [] {REQ[a].replace('P', PKG)} ({LOCAL_USE[a]}))")
            out.append(f"(setv u{i} (f{i}))")
        elif kind == "eval":
            out.append(f"(setv u{i} (hy.eval '({real(a)})))")
        else:
            raise MachineryError(f"unknown form {kind}")
    return "\n".join(out) + "\n"


RUNNER = r'''
import sys, json, io, importlib
import hy
from hy.errors import HyLanguageError
names = json.load(open(sys.argv[1]))
out = {}
for name in names:
    buf = io.StringIO()
    old = sys.stderr
    sys.stderr = buf
    try:
        try:
            m = importlib.import_module(name)
            o = {"err": "",
                 "vals": {k: (lambda v: v if isinstance(v, int) else hy.repr(v))(getattr(m, k, 0)) for k in ("x", "y")},
                 "uvals": {k[1:]: v for k, v in vars(m).items() if k[0] == "u" and k[1:].isdigit()},
                 "mac": {k: v() for k, v in getattr(m, "_hy_macros", {}).items()},
                 "rdr": sorted(getattr(m, "_hy_reader_macros", {}))}
        except BaseException as e:
            kind = "compile" if isinstance(e, (HyLanguageError, hy.errors.HyRequireError)) else type(e).__name__
            o = {"err": kind, "msg": repr(e)[:300]}
    finally:
        sys.stderr = old
    o["compiled"] = ("Compiling" in buf.getvalue() and name.split(".")[-1] + ".hy" in buf.getvalue())
    out[name] = o
json.dump(out, open(sys.argv[2], "w"))
'''

EXT_RUNNER = r'''
import sys, json, importlib.machinery
import hy
out = {}
for path in json.load(open(sys.argv[1])):
    try:
        code = importlib.machinery.SourceFileLoader("hyv_ext_mod", path).get_code("hyv_ext_mod")
        g = {"__name__": "hyv_ext_mod"}
        exec(code, g)
        out[path] = g.get("RESULT", "none")
    except BaseException as e:
        out[path] = "error:" + type(e).__name__
json.dump(out, open(sys.argv[2], "w"))
'''


def spec_obs(rec):
    o = rec["obs"]
    if o["err"]:
        return {"err": o["err"]}
    return {"err": "", "vals": {k: VAL_OBS.get(v, v) for k, v in o["vals"].items()},
            "uvals": {str(i): v for i, v in enumerate(o["uvals"], 1) if v},
            "mac": {real(k): v for k, v in o["mac"].items() if v},
            "rdr": sorted(o["rdr"])}


def impl_obs(o):
    if o["err"]:
        return {"err": o["err"]}
    return {k: o[k] for k in ("err", "vals", "uvals", "mac", "rdr")}


def main(run):
    rng = random.Random(run.seed)
    q = run.quick
    mf = 2 if q else 3
    # Python's own source suffixes, before Hy adds its own (reference: CPython)
    out = subprocess.run([PY, "-c", "import importlib.machinery as m, json; print(json.dumps(m.SOURCE_SUFFIXES))"],
                         capture_output=True, text=True, check=True).stdout
    pysuf = sorted(set(json.loads(out)))
    exts = ["", ".hy", ".py", ".txt", ".hyx", ".PY", ".pyw", ".lisp", ".py3"]
    consts = {"MaxForms": mf, "RuntimeMirrors": True, "Exts": set(exts), "PySuffixes": set(pysuf)}
    invs = ["SourceEqualsCached", "RuntimeReestablishes", "UnderscoreStaysBehind", "HyIsHy", "ExtExport", "Export"]
    r = tlc.run("HyCache", tlc.cfg(constants=consts, invariants=invs), run.work, workers=16, label="cache")
    if r.violated:
        raise MachineryError(f"HyCache: {r.violated} violated on the specification")
    run.add_tlc(r, f"HyCache: every module of <= {mf} forms (setv, defmacro, 13 require shapes, macro uses, reader "
                   f"uses, local requires, hy.eval): source history = cached history")
    neg = tlc.run("HyCache", tlc.cfg(constants=dict(consts, MaxForms=2, RuntimeMirrors=False), invariants=["SourceEqualsCached"]),
                  run.work, workers=8, label="cache-neg")
    if neg.violated != "SourceEqualsCached":
        raise MachineryError("negative control: a run-time require that forgets the prefix was not rejected")
    run.add_tlc(neg, "negative control: run-time require without the prefix violates SourceEqualsCached")
    progs = r.ex("PROG")
    total = len(progs)
    run.log(f"TLC: {total} programs")
    cap = 1800 if q else 80000
    if total > cap:
        short = [p for p in progs if len(p["prog"]) <= 1]
        rest = [p for p in progs if len(p["prog"]) > 1]
        progs = short + rng.sample(rest, cap - len(short))
    d = run.work / "cache"
    pk = d / PKG
    pk.mkdir(parents=True)
    (pk / "__init__.py").write_text("")
    (pk / "S.hy").write_text(S_SRC)
    (pk / "S2.hy").write_text(S2_SRC)
    (d / "runner.py").write_text(RUNNER)
    (d / "ext_runner.py").write_text(EXT_RUNNER)
    names = []
    for k, rec in enumerate(progs):
        (pk / f"M{k}.hy").write_text(render(rec["prog"]))
        names.append(f"{PKG}.M{k}")
    env = {k: v for k, v in os.environ.items() if k not in ("PYTHONDONTWRITEBYTECODE",)}
    env.update(PYTHONPATH=os.pathsep.join([str(d)] + [x for x in [os.environ.get("PYTHONPATH")] if x]), HY_MESSAGE_WHEN_COMPILING="1", PYTHONPYCACHEPREFIX=str(d / "pyc"))
    subprocess.run([PY, "-c", f"import hy, hy.core.hy_repr, {PKG}.S, {PKG}.S2"], env=env, capture_output=True)
    nb = 16
    batches = [names[i::nb] for i in range(nb)]

    def one(i_hist):
        i, hist = i_hist
        inp, outp = d / f"b{i}.in.json", d / f"b{i}.{hist}.json"
        inp.write_text(json.dumps(batches[i]))
        p = subprocess.run([PY, str(d / "runner.py"), str(inp), str(outp)], env=env, capture_output=True, text=True, timeout=1500)
        if p.returncode != 0 or not outp.exists():
            raise MachineryError(f"runner failed: {p.stderr[-500:]}")
        return json.loads(outp.read_text())

    res = {}
    for hist in ("source", "cached"):
        with ThreadPoolExecutor(max_workers=nb) as ex:
            got = {}
            for part in ex.map(one, [(i, hist) for i in range(nb)]):
                got.update(part)
        res[hist] = got
    for k, rec in enumerate(progs):
        name = names[k]
        key = json.dumps(rec["prog"])
        run.case(key)
        want = spec_obs(rec)
        text = render(rec["prog"])
        ok = True
        for hist in ("source", "cached"):
            o = res[hist][name]
            got = impl_obs(o)
            if got != want:
                ok = False
                run.violation(f"{hist}:{key}", f"module imported from {hist}: observed {got}, specification {want}"
                              f"{' (' + o.get('msg', '') + ')' if o['err'] else ''}; module:\n{text}",
                              {"prog": rec["prog"], "text": text, "history": hist, "got": got, "want": want})
        s, c = res["source"][name], res["cached"][name]
        if impl_obs(s) != impl_obs(c):
            ok = False
            run.violation(f"differ:{key}", f"source import and cached import differ: {impl_obs(s)} vs {impl_obs(c)}; module:\n{text}",
                          {"prog": rec["prog"], "text": text})
        if not s["compiled"]:
            raise MachineryError(f"first import of {name} did not compile it: the histories are not what they claim")
        if c["compiled"] and not rec["cfail"]:
            ok = False
            run.violation(f"recompiled:{key}", f"second import compiled {name} again instead of using the bytecode:\n{text}",
                          {"prog": rec["prog"], "text": text})
        if ok:
            run.cov["traces_validated_against_impl"] += 2
    run.sample({"module": render(progs[-1]["prog"]), "spec": spec_obs(progs[-1])})

    # ---- which files are Hy
    ext_rows = r.ex("EXT")
    if len(ext_rows) != 1:
        raise MachineryError("no EXT row")
    ishy = ext_rows[0]
    e = d / "ext"
    e.mkdir()
    hy_text = '(setv RESULT "hy")\n(print "ran-hy")\n'
    py_text = 'RESULT = "py"\nprint("ran-py")\n'
    paths = {}
    for j, ext in enumerate(exts):
        for lang, text in (("hy", hy_text), ("py", py_text)):
            p = e / f"f{j}{lang}{ext}"
            p.write_text(text)
            paths[str(p)] = (ext, lang)
    (e / "in.json").write_text(json.dumps(list(paths)))
    envx = dict(env, PYTHONDONTWRITEBYTECODE="1")
    p = subprocess.run([PY, str(d / "ext_runner.py"), str(e / "in.json"), str(e / "out.json")], env=envx, capture_output=True, text=True)
    if p.returncode != 0:
        raise MachineryError(f"ext runner failed: {p.stderr[-400:]}")
    loader = json.loads((e / "out.json").read_text())

    def cli(path):
        pr = subprocess.run([PY, "-m", "hy", path], env=envx, capture_output=True, text=True, timeout=120)
        return "hy" if "ran-hy" in pr.stdout else "py" if "ran-py" in pr.stdout else "error"

    with ThreadPoolExecutor(max_workers=12) as ex:
        cli_res = dict(zip(paths, ex.map(cli, paths)))
    for path, (ext, lang) in paths.items():
        run.case(("ext", ext, lang))
        as_hy = ishy[ext]
        # Hy text runs only when compiled as Hy, Python text only when compiled as Python
        want = lang if (lang == "hy") == as_hy else "error"
        for route, got in (("loader", loader[path]), ("hy FILE", cli_res[path])):
            g = "error" if got.startswith("error") else got
            if g != want:
                run.violation(f"ext:{ext}:{lang}:{route}", f"{route}: a file with extension {ext!r} containing {lang} text gave {got}; "
                              f"the specification says such a file is {'Hy' if as_hy else 'Python'} source",
                              {"ext": ext, "lang": lang, "route": route, "got": got})
            else:
                run.cov["traces_validated_against_impl"] += 1
    return run.finish("model_checking",
                      f"every module of <= {mf} forms over setv / defmacro / 13 require shapes (absolute, relative, package, "
                      "aliases, prefixes, *, export lists, reader macros) / macro and reader-macro uses / local requires / "
                      "hy.eval; HyCache gives the final values, macro table and reader table, TLC shows source history = "
                      "cached history on the spec, and each module is imported twice (fresh process each; the second must not "
                      "compile) and compared with the spec; file extensions x {Hy text, Python text} x {loader, hy FILE}",
                      extra={"programs": len(progs), "of": total, "python_source_suffixes": pysuf})
