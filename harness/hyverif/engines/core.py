"""HyCore-based engines: C01 (whole language), C02 (and/or), C06 (let),
C09 (try/with at every raise point) ...  Programs are enumerated / generated
here, run on the real compiler, and decided by TLC against specs/HyCore.tla:
  trace mode   (code -> spec): the observed effect log drives the spec;
  explore mode (spec -> code): TLC enumerates every interleaving and exports
                               the set of allowed outcomes.
"""
import json
import random
from concurrent.futures import ThreadPoolExecutor

from .. import tlc
from ..core import MachineryError
from ..corpus import (ALL_FORMS, Enum, clone, make_script, number, random_program)
from ..hycore import T, record, render, run_hy, sites_of

INVS = ["UnselectedBranchSilent", "ShortCircuit", "OrderedOneAtATime", "HeapWellFormed", "LogCounts"]


def _tlc_batch(run, recs, mode, label, timeout=3600, workers=16):
    pf = run.work / f"progs-{label}.ndjson"
    with open(pf, "w") as f:
        for r in recs:
            f.write(json.dumps(r) + "\n")
    first = "Accept" if mode == "trace" else "ExportOutcome"
    cfg = tlc.cfg(invariants=[first, "OutOfScope"] + INVS, constraint="Bound")
    r = tlc.run("HyCoreRun", cfg, run.work, workers=workers, env={"PROG_FILE": str(pf)}, label=label,
                timeout=timeout)
    if r.violated:
        raise MachineryError(f"HyCore invariant {r.violated} violated in batch {label}")
    return r, {int(x) for x in r.ex("ACC")}, {int(x) for x in r.ex("OOS")}


def tlc_parallel(run, recs, mode, label, chunk=20000, par=1, timeout=3600):
    """Run TLC over recs (in chunks to bound memory).  Returns (accepted idx set,
    oos idx set, outcomes dict idx->list) with 0-based indices into recs."""
    chunks = [(i, recs[i:i + chunk]) for i in range(0, len(recs), chunk)]
    acc, oos, outs = set(), set(), {}
    for i0, rs in chunks:
        r, a, o = _tlc_batch(run, rs, mode, f"{label}-{i0}", timeout,
                             workers=16 if len(rs) > 30 else 4)
        run.add_tlc(r, f"HyCoreRun {mode} batch {label}@{i0} ({len(a)} accepted)")
        acc |= {i0 + x - 1 for x in a}
        oos |= {i0 + x - 1 for x in o}
        for e in r.ex("OUT"):
            outs.setdefault(i0 + e["pid"] - 1, []).append(e["o"])
    return acc, oos, outs


def norm(o):
    return json.dumps(o, sort_keys=True)


class Case:
    __slots__ = ("tree", "text", "script", "supp", "fault", "obs", "ns", "rec", "tag")


def observe(t, script, supp, fault, nv, tag="", mode="eval"):
    c = Case()
    c.tree, c.script, c.supp, c.fault, c.tag = t, script, supp, fault, tag
    c.text = render(t)
    c.ns = max(sites_of(t) + [0])
    c.obs = run_hy(c.text, script, fault, supp, c.ns, nv=nv, mode=mode)
    return c


def fault_variants(rng, base, nv, limit, types=(1, 2, 3), pairs=False, mode="eval"):
    """One execution per (call in the fault-free log) x exception type."""
    log = base.obs["log"]
    seen = {}
    points = []
    for k, _v in log:
        seen[k] = seen.get(k, 0) + 1
        points.append((k, seen[k]))
    if len(points) > limit:
        points = rng.sample(points, limit)
    out = []
    for (k, i) in points:
        ty = rng.choice(types)
        fl = {k: [0] * (i - 1) + [ty]}
        out.append(observe(base.tree, base.script, base.supp, fl, nv, tag=f"fault {k}#{i}={ty}", mode=mode))
    if pairs and len(points) >= 2:
        for _ in range(min(limit, len(points))):
            (k1, i1), (k2, i2) = rng.sample(points, 2)
            fl = {}
            for (k, i, ty) in ((k1, i1, rng.choice(types)), (k2, i2, rng.choice(types))):
                cur = fl.get(k, [])
                cur = cur + [0] * (i - len(cur))
                cur[i - 1] = ty
                fl[k] = cur
            out.append(observe(base.tree, base.script, base.supp, fl, nv, tag="fault pair", mode=mode))
    return out


def finding_key(c):
    """Stable key for violations that belong to a recorded known finding (else text|tag)."""
    from ..corpus import merged_outer_cms
    if c.tag.endswith("|with2") and c.fault:
        outer = merged_outer_cms(c.tree)
        ncm = len(c.supp)
        # a fault at the __exit__ site of a later manager while an earlier manager suppresses
        exit_sites = {c.ns + 2 * k for k in range(1, ncm + 1) if k not in outer}
        if any(c.supp.get(k) for k in outer) and set(c.fault) <= exit_sites:
            return "with: later manager's __exit__ raises after the body, earlier manager suppresses"
    return c.text + " | " + c.tag


def decide(run, cases, nv, label, explore_small=0):
    """Trace-validate every case; diagnose rejections by exploration."""
    usable = []
    skipped = {"compile_error": 0, "runaway": 0}
    for c in cases:
        if "log" not in c.obs:
            key = "compile_error" if "compile_error" in c.obs else "runaway"
            skipped[key] += 1
            if key == "compile_error" and not c.obs.get("is_syntax_error") and \
                    c.obs.get("exc_class") not in ("HySyntaxError", "HyMacroExpansionError", "HyLanguageError",
                                                   "HyCompileError", "HyRequireError"):
                run.violation(c.text + " | compile", f"compiling {c.text} raised {c.obs['compile_error']} (not a "
                              "user-facing Hy error)", {"text": c.text, "script": c.script, "fault": c.fault,
                                                        "supp": c.supp})
            if key == "compile_error":
                run.cov.setdefault("compile_error_samples", [])
                if len(run.cov["compile_error_samples"]) < 5:
                    run.cov["compile_error_samples"].append([c.text, c.obs["compile_error"]])
            continue
        usable.append(c)
    recs = [record(c.tree, c.script, c.fault, c.supp, "trace", c.obs, nv=nv,
                   maxlog=len(c.obs["log"]) + 1) for c in usable]
    # negative controls: corrupted observations that must be rejected
    negs = []
    for c in usable[:3]:
        o = c.obs
        negs.append(("extra effect of an unknown site", c, dict(o, log=o["log"] + [[c.ns + 40, ["none", 0, []]]])))
        negs.append(("impossible outcome", c, dict(o, out=["exc", 77])))
        negs.append(("corrupted final global", c, dict(o, globals=[["int", 77, []]] + o["globals"][1:])))
    nrec = [record(c.tree, c.script, c.fault, c.supp, "trace", bad, nv=nv, maxlog=len(bad["log"]) + 1)
            for (_, c, bad) in negs]
    acc, oos, _ = tlc_parallel(run, recs + nrec, "trace", label)
    n = len(recs)
    for j, (what, c, bad) in enumerate(negs):
        # a swap may be a legal interleaving; only flag controls that cannot be legal
        if n + j in acc:
            raise MachineryError(f"negative control accepted by HyCore: {what}: {c.text}")
    run.cov["negative_controls"] = run.cov.get("negative_controls", 0) + len(negs)
    rejected = [i for i in range(n) if i not in acc and i not in oos]
    run.cov["traces_validated_against_impl"] += len(acc & set(range(n)))
    run.cov["out_of_scope"] = run.cov.get("out_of_scope", 0) + len(oos & set(range(n)))
    for k, v in skipped.items():
        run.cov[k] = run.cov.get(k, 0) + v
    for i, c in enumerate(usable):
        run.case((c.text, norm(c.script), norm(c.fault)), nontrivial=len(c.obs["log"]) > 0)
    # diagnose rejections: what does the spec allow?
    if rejected:
        rr = rejected[:40]
        erecs = [record(usable[i].tree, usable[i].script, usable[i].fault, usable[i].supp, "explore",
                        None, nv=nv, maxlog=len(usable[i].obs["log"]) + 6) for i in rr]
        try:
            _, _, outs = tlc_parallel(run, erecs, "explore", label + "-diag", timeout=150)
        except MachineryError as x:
            if "timeout" not in str(x):
                raise
            outs = None
        for j, i in enumerate(rr):
            c = usable[i]
            allowed = outs.get(j, []) if outs is not None else []
            obs = {"out": c.obs["out"], "log": c.obs["log"], "globals": c.obs["globals"]}
            if any(norm(a) == norm(obs) for a in allowed):
                raise MachineryError(f"trace rejected but outcome explored as allowed: {c.text}")
            allowed_s = sorted({norm(a) for a in allowed})[:6]
            run.violation(finding_key(c),
                          f"{c.text} [{c.tag}] observed out={c.obs['out']} log={c.obs['log']} "
                          f"globals={c.obs['globals']}; spec allows {len(allowed)} outcome(s)",
                          {"text": c.text, "script": c.script, "fault": c.fault, "supp": c.supp,
                           "observed": obs, "allowed": [json.loads(a) for a in allowed_s], "nv": nv})
        for i in rejected[40:]:
            c = usable[i]
            run.violation(c.text + " | " + c.tag, f"{c.text} [{c.tag}] rejected by HyCore",
                          {"text": c.text, "script": c.script, "fault": c.fault, "supp": c.supp,
                           "observed": c.obs, "nv": nv})
    # spec -> code: explore the small ones and check membership
    if explore_small:
        small = [c for c in usable if c.tree.size() <= explore_small][:3000]
        erecs = [record(c.tree, c.script, c.fault, c.supp, "explore", None, nv=nv,
                        maxlog=len(c.obs["log"]) + 6) for c in small]
        _, eoos, outs = tlc_parallel(run, erecs, "explore", label + "-exp")
        multi = 0
        for j, c in enumerate(small):
            if j in eoos:
                continue
            allowed = {norm(a) for a in outs.get(j, [])}
            obs = norm({"out": c.obs["out"], "log": c.obs["log"], "globals": c.obs["globals"]})
            multi += len(allowed) > 1
            if obs not in allowed and (c.text + " | " + c.tag) not in [v["key"] for v in run.violations if v]:
                run.violation(c.text + " | " + c.tag,
                              f"{c.text} [{c.tag}] outcome not among the {len(allowed)} the spec allows",
                              {"text": c.text, "script": c.script, "fault": c.fault, "supp": c.supp,
                               "observed": c.obs, "allowed": [json.loads(a) for a in sorted(allowed)[:6]],
                               "nv": nv})
        run.cov["explored_programs"] = run.cov.get("explored_programs", 0) + len(small)
        run.cov["explored_with_several_allowed_outcomes"] = \
            run.cov.get("explored_with_several_allowed_outcomes", 0) + multi
    return usable


def build_cases(run, trees, rng, nv, fault_limit, pairs=False, scripts=1, mode="eval", merged_suppress=False):
    cases = []
    for t in trees:
        t = clone(t)
        ns, ncm = number(t)
        for _ in range(scripts):
            sc, supp = make_script(rng, t, ns, ncm, merged_suppress)
            base = observe(t, sc, supp, {}, nv, tag="no fault", mode=mode)
            cases.append(base)
            if "log" in base.obs and fault_limit:
                cases += fault_variants(rng, base, nv, fault_limit, pairs=pairs, mode=mode)
    return cases


def wrap_in_fn(t, nv):
    """(do (defn h [] body...) (h)) -- the same program at function level"""
    return T("do", 0, [T("defn", 0, [T("var", nv), T("do", 0, [clone(c) for c in t.ch])]),
                       T("call", 0, [T("var", nv)])])


RULE = ("programs: exhaustive by node count over the property's form set + seeded random deep "
        "programs; each executed on hy fault-free and with an exception injected at each call of "
        "each effect site; non-trivial = at least one effect logged; distinct = different "
        "(text, script, fault plan)")


def sample_of(c):
    return {"program": c.text, "fault": c.tag, "observed_log": c.obs.get("log"),
            "observed_out": c.obs.get("out")}


# ---------------------------------------------------------------- C01
def truthiness_timing_family():
    """Loops and conditionals whose tested value is an object that changes its truthiness when the
    body runs: the test must be made when the semantics say, on the value's truthiness at that moment."""
    E = lambda k, *c: T("eff", k, list(c))
    V = lambda i: T("var", i)
    NONE = ["none", 0, []]
    out = []
    for cond in ("plain", "stmt", "and"):
        for tail in ("none", "else", "break"):
            c = E(2) if cond == "plain" else T("do", 0, [T("setv", 0, [V(1), E(1)]), E(2)]) if cond == "stmt" \
                else T("and", 0, [E(2), T("do", 0, [T("setv", 0, [V(1), E(1)]), E(2)])])
            body = [E(3)] + ([T("else", 0, [E(4)])] if tail == "else" else [])
            if tail == "break":
                body = [E(3), T("when", 0, [E(4), T("break")])]
            t = T("do", 0, [T("while", 0, [c] + body), E(5)])
            for flips in (3, 5):
                script = {1: [["int", 1, []]], 2: [["box", flips, []], ["box", flips, []], NONE], 3: [NONE],
                          4: [["bool", 0, []], ["bool", 1, []]], 5: [NONE]}
                out.append((t, script))
    for form in ("if", "when", "not", "cond"):
        test = T("do", 0, [T("setv", 0, [V(1), E(1)]), E(2)])
        if form == "if":
            f = T("if", 0, [test, E(3), E(4)])
        elif form == "when":
            f = T("when", 0, [test, E(3)])
        elif form == "not":
            f = T("not", 0, [test])
        else:
            f = T("cond", 0, [test, E(3), E(2), E(4)])
        t = T("do", 0, [E(3), f, E(3), clone(f)])
        out.append((t, {1: [NONE], 2: [["box", 3, []]], 3: [["int", 7, []]], 4: [["int", 8, []]]}))
    return out


def nested_conditional_family(quick):
    """An `if` / `cond` inside each slot of another `if`, every test and branch either a pure effect call
    or a form that needs statements, under every truth assignment of the tests; each also as the value of
    an assignment and as an operand of +.  (The compiler shares result variables between nested ifs.)"""
    import itertools
    V = lambda i: T("var", i)
    out = []

    def build(shape):
        """shape: nested tuples ("if", test, then, else) with leaves "P" / "S" -> (tree, test sites, other sites)"""
        counter = [0]
        tests, others = [], []

        def leaf(kind, is_test):
            counter[0] += 1
            k = counter[0]
            (tests if is_test else others).append(k)
            if kind == "P":
                return T("eff", k, [])
            counter[0] += 1
            k2 = counter[0]
            others.append(k)
            if is_test:
                tests.remove(k)
                tests.append(k2)
            else:
                others.append(k2)
            return T("do", 0, [T("setv", 0, [V(1), T("eff", k, [])]), T("eff", k2, [])])

        def go(sh, is_test=False):
            if isinstance(sh, str):
                return leaf(sh, is_test)
            if sh[0] == "if":
                return T("if", 0, [go(sh[1], True), go(sh[2]), go(sh[3])])
            if sh[0] == "cond":
                ch = []
                for a, b in zip(sh[1::2], sh[2::2]):
                    ch += [go(a, True), go(b)]
                return T("cond", 0, ch)
            if sh[0] == "+":
                return T("args", "+", [go(x) for x in sh[1:]])
            raise MachineryError(str(sh))
        return go(shape), list(tests), list(others)
    PS = ("P", "S")
    shapes = []
    inner = [("if", a, b, c) for a in PS for b in PS for c in PS]
    for a in PS:
        for b in PS:
            for i in inner:
                shapes.append(("if", a, b, i))          # inner if in the else slot
                shapes.append(("if", a, i, b))          # ... in the then slot
    for i in inner[:4]:
        for j in inner[4:]:
            shapes.append(("if", "P", "S", ("+", i, j)))   # sibling ifs below an else
            shapes.append(("if", "P", ("+", i, j), "P"))
    for a in PS:
        for b in PS:
            for c in PS:
                for d in PS:
                    shapes.append(("cond", a, b, c, d))
                    shapes.append(("if", "P", "S", ("cond", a, b, c, d)))
    if quick:
        shapes = shapes[::2] + shapes[1::7]
    NONE = ["none", 0, []]
    for sh in shapes:
        tree, tests, others = build(sh)
        tests = sorted(set(tests))
        for bits in itertools.product((0, 1), repeat=len(tests)):
            sc = {k: [["int", 10 + k, []]] * 2 for k in others}
            for k, b in zip(tests, bits):
                sc[k] = [["bool", b, []]] * 2
            out.append((T("do", 0, [clone(tree)]), sc))
            out.append((T("do", 0, [T("setv", 0, [V(2), clone(tree)]), V(2)]), sc))
    return out


def assignment_value_family():
    """Every assigning form (setv, setx, a let binding) whose value is a form that leaves its result in a
    compiler temporary (if / cond / when with statement branches, try with and without finally, and / or
    with a statement operand, with), directly or under not / a list / and, and with the assignment's own
    value consumed in every way (as the program's value, as an argument next to a read of the target,
    read afterwards).  The compiler renames such temporaries to the target instead of copying them."""
    E = lambda: T("eff", 0)
    V = lambda i: T("var", i)
    S = lambda: T("do", 0, [T("setv", 0, [V(3), E()]), E()])          # needs statements
    values = {
        "if-s": lambda: T("if", 0, [E(), S(), E()]),
        "if-s-else": lambda: T("if", 0, [E(), E(), S()]),
        "when-s": lambda: T("when", 0, [E(), S()]),
        "cond-s": lambda: T("cond", 0, [E(), S(), E(), E()]),
        "try": lambda: T("try", 0, [E(), T("except", 0, [E()], ts=[1], hv=0)]),
        "try-named": lambda: T("try", 0, [E(), T("except", 0, [V(2), E()], ts=[1, 3], hv=1)]),
        "try-finally": lambda: T("try", 0, [E(), T("finally", 0, [E()])]),
        "try-both": lambda: T("try", 0, [E(), T("except", 0, [E()], ts=[1], hv=0), T("finally", 0, [E()])]),
        "and-s": lambda: T("and", 0, [E(), S()]),
        "or-s": lambda: T("or", 0, [E(), S(), E()]),
        "do-s": lambda: S(),
        "setx": lambda: T("setx", 0, [V(2), T("if", 0, [E(), S(), E()])]),
        "while": lambda: T("while", 0, [E(), E()]),
    }
    wrappers = {
        "plain": lambda v: v,
        "not": lambda v: T("not", 0, [v]),
        "not-not": lambda v: T("not", 0, [T("not", 0, [v])]),
        "list": lambda v: T("args", "list", [v]),
        "and": lambda v: T("and", 0, [v, E()]),
        "if-test": lambda v: T("if", 0, [v, E(), E()]),
    }
    out = []
    for vn, mk in values.items():
        for wn, wr in wrappers.items():
            val = lambda: wr(mk())
            progs = [
                T("do", 0, [T("setx", 0, [V(1), val()])]),                                   # the value of setx
                T("do", 0, [T("args", "list", [T("setx", 0, [V(1), val()]), V(1)])]),             # ... as an argument
                T("do", 0, [T("setv", 0, [V(1), val()]), V(1)]),
                T("do", 0, [T("setv", 0, [V(1), E()]), T("args", "list", [T("setv", 0, [V(1), val()]), V(1)])]),
                T("do", 0, [T("let", 1, [V(1), val(), T("args", "list", [V(1), E()])])]),
                T("do", 0, [T("setv", 0, [V(1), E()]), T("setx", 0, [V(1), T("args", "list", [V(1), val()])]), V(1)]),
            ]
            out += progs
    return out


def temporaries_family():
    """Two constructs that each leave their value in a compiler temporary, side by side in one expression, in
    every kind of slot of enclosing constructs that need temporaries themselves (then / else slots, else-if chains
    two and three deep, cond, try, and, an assignment): each value has to come out of a variable of its own."""
    E = lambda: T("eff", 0)
    V = lambda i: T("var", i)
    S = lambda: T("do", 0, [T("setv", 0, [V(3), E()]), E()])
    TRUE = lambda: T("lit", 0, (), v=["bool", 1, []])
    FALSE = lambda: T("lit", 0, (), v=["bool", 0, []])
    ZERO = lambda: T("lit", 0, (), v=["int", 0, []])
    kinds = {
        "if": lambda: T("if", 0, [E(), S(), E()]),
        "try": lambda: T("try", 0, [E(), T("except", 0, [E()], ts=[1], hv=0)]),
        "and": lambda: T("and", 0, [E(), S()]),
        "cond": lambda: T("cond", 0, [E(), S(), E(), E()]),
        "when": lambda: T("when", 0, [E(), S()]),
    }
    slots = {
        "top": lambda x: x,
        "then": lambda x: T("if", 0, [TRUE(), x, ZERO()]),
        "else": lambda x: T("if", 0, [FALSE(), ZERO(), x]),
        "elif-then": lambda x: T("if", 0, [FALSE(), ZERO(), T("if", 0, [TRUE(), x, ZERO()])]),
        "elif-else": lambda x: T("if", 0, [FALSE(), ZERO(), T("if", 0, [FALSE(), ZERO(), x])]),
        "elif-elif-then": lambda x: T("if", 0, [FALSE(), ZERO(), T("if", 0, [FALSE(), ZERO(), T("if", 0, [TRUE(), x, ZERO()])])]),
        "cond-2": lambda x: T("cond", 0, [FALSE(), ZERO(), TRUE(), x]),
        "try-body": lambda x: T("try", 0, [x, T("except", 0, [ZERO()], ts=[1], hv=0)]),
        "and-last": lambda x: T("and", 0, [TRUE(), x]),
        "setv": lambda x: T("do", 0, [T("setv", 0, [V(2), x]), V(2)]),
        "elif-stmt-test": lambda x: T("if", 0, [FALSE(), ZERO(), T("if", 0, [T("do", 0, [T("setv", 0, [V(3), E()]), TRUE()]), x, ZERO()])]),
    }
    out = []
    for a, ka in kinds.items():
        for b, kb in kinds.items():
            for sn, sl in slots.items():
                out.append(T("do", 0, [sl(T("args", "list", [ka(), kb()]))]))
                out.append(T("do", 0, [sl(T("args", "list", [ka(), E(), kb()]))]))
    return out


def main_c01(run):
    rng = random.Random(run.seed)
    q = run.quick
    nv = 4
    nfam = nested_conditional_family(q)
    ncases = [observe(t, sc, {}, {}, nv, tag="nested-if") for t, sc in nfam]
    decide(run, ncases, nv, "c01-nested-if", explore_small=0)
    afam = assignment_value_family()
    acases = build_cases(run, afam + [wrap_in_fn(t, 4) for t in afam], rng, nv, fault_limit=2 if q else 5, scripts=1 if q else 3)
    run.log(f"assignment-value family: {len(afam)} programs at module and function level, {len(acases)} executions")
    decide(run, acases, nv, "c01-assign-value", explore_small=0)
    # the comprehension forms of the statement: HyCompr's programs (clause lists of <= 2 clauses), a sample of them
    from . import compr
    ncompr = compr.main(run, mc=2, budget=2500 if q else 40000, finish=False)
    run.log(f"comprehension forms (HyCompr): {ncompr} programs")
    run.cov["comprehension_programs"] = ncompr
    tfam = temporaries_family()
    tcases = build_cases(run, tfam, rng, nv, fault_limit=0 if q else 2, scripts=2 if q else 5)
    run.log(f"temporaries family: {len(tfam)} programs, {len(tcases)} executions")
    decide(run, tcases, nv, "c01-temporaries", explore_small=0)
    fam = truthiness_timing_family()
    fcases = [observe(t, sc, {}, {}, nv, tag="box") for t, sc in fam] + \
             [observe(wrap_in_fn(t, 4), sc, {}, {}, nv, tag="box in fn") for t, sc in fam]
    us = decide(run, fcases, nv, "c01-truthiness", explore_small=40)
    for c in us[:1]:
        run.sample(sample_of(c))
    # exhaustive small programs over a core form set
    forms_small = {"lit", "var", "eff", "eff1", "do", "if", "and", "or", "setv", "setx", "list", "+",
                   "when", "while", "break", "let", "fn", "call", "try", "raise"}
    en = Enum(forms_small, nv=2, lits=(["none", 0, []], ["int", 1, []]))
    trees = []
    for size in ([1, 2, 3, 4] if q else [1, 2, 3, 4, 5]):
        xs = [T("do", 0, [x]) for x in en.exprs(size)]
        if len(xs) > (2500 if q else 12000):
            xs = rng.sample(xs, 2500 if q else 12000)
        trees += xs
    run.log(f"exhaustive part: {len(trees)} programs")
    cases = build_cases(run, trees, rng, nv, fault_limit=2 if q else 3)
    run.log(f"  {len(cases)} executions")
    us = decide(run, cases, nv, "c01-small", explore_small=8 if q else 9)
    for c in us[:2]:
        run.sample(sample_of(c))
    # deep random programs, module level and function level
    deep = []
    for i in range(250 if q else 2500):
        t = random_program(rng, ALL_FORMS, rng.choice([3, 4, 5]), nv=3)
        deep.append(t)
        if i % 3 == 0:
            deep.append(wrap_in_fn(t, 4))
    cases = build_cases(run, deep, rng, nv, fault_limit=3 if q else 4, pairs=not q)
    run.log(f"deep part: {len(deep)} programs, {len(cases)} executions")
    us = decide(run, cases, nv, "c01-deep")
    big = sorted(us, key=lambda c: -len(c.obs["log"]))[:3]
    for c in big:
        run.sample(sample_of(c))
    return run.finish("model_checking", RULE,
                      assumptions=["Python primitives on small ints/lists are as transcribed in HyCore!OpApply",
                                   "function activations are atomic w.r.t. sibling arguments",
                                   "programs with recursion / call depth > 3 / str arithmetic are out of scope (counted)"])


# ---------------------------------------------------------------- C02
TRUTHY = [["int", 1, []], ["bool", 1, []], ["list", 0, [["int", 1, []]]], ["str", 1, []], ["int", 2, []]]
FALSY_V = [["int", 0, []], ["bool", 0, []], ["none", 0, []], ["list", 0, []], ["str", 0, []]]


def c02_operand(rng, shape, truth, script, nxt):
    """Returns a tree for one operand; registers site scripts."""
    v = rng.choice(TRUTHY if truth else FALSY_V)
    if shape == "P":
        return T("lit", 0, (), v=v)
    if shape == "E":
        k = nxt()
        script[k] = [v]
        return T("eff", k)
    if shape == "S":
        k = nxt()
        script[k] = [v]
        return T("do", 0, [T("setv", 0, [T("var", 1), T("eff", k)]), T("var", 1)])
    if shape == "I":   # an `if` whose branch needs statements (the operand has a temporary of its own)
        k1, k2 = nxt(), nxt()
        script[k1] = [rng.choice(TRUTHY)]
        script[k2] = [v]
        return T("if", 0, [T("lit", 0, (), v=["bool", 1, []]),
                           T("do", 0, [T("setv", 0, [T("var", 3), T("eff", k1)]), T("eff", k2)]),
                           T("lit", 0, (), v=["int", 2, []])])
    if shape == "T":   # statement operand whose value is a plain and/or form of either operator
        k1, k2, k3 = nxt(), nxt(), nxt()
        script[k1] = [rng.choice(TRUTHY + FALSY_V)]
        inner = rng.choice(["and", "or"])
        # (and X v) has v's truthiness when X is truthy; (or X v) when X is falsy
        script[k2] = [rng.choice(TRUTHY if inner == "and" else FALSY_V)]
        script[k3] = [v]
        return T("do", 0, [T("setv", 0, [T("var", 1), T("eff", k1)]), T(inner, 0, [T("eff", k2), T("eff", k3)])])
    if shape == "V":   # an operand that is only statements: its value is None whatever happens
        k = nxt()
        script[k] = [rng.choice(TRUTHY)]
        kind = rng.randrange(3)
        if kind == 0:
            return T("setv", 0, [T("var", 1), T("eff", k)])
        if kind == 1:
            return T("for", 0, [T("var", 3), T("lit", 0, (), v=["list", 0, [["int", 1, []]]]), T("eff", k)])
        return T("do", 0, [T("eff", k), T("setv", 0, [T("var", 1), T("lit", 0, (), v=["int", 5, []])])])
    if shape == "N":   # nested and/or whose value has the wanted truthiness
        k1, k2 = nxt(), nxt()
        script[k1] = [rng.choice(TRUTHY)]
        script[k2] = [v]
        return T("and", 0, [T("eff", k1), T("eff", k2)])
    raise ValueError(shape)


def main_c02(run):
    import itertools
    rng = random.Random(run.seed)
    q = run.quick
    nv = 3
    cases = []
    nmax = 4 if q else 5
    shapes = "PESNITV"
    wrappers = ["plain", "setv", "if", "arg"]
    n_prog = 0
    pyops_checked = 0
    import hy.pyops as pyops
    from ..hycore import topy
    for op in ("and", "or"):
        for n in range(0, nmax + 2):
            # arity nmax+1: only plain / statement operands (every position of a statement among plain ones)
            combos = list(itertools.product(shapes if n <= 3 else "PESITV" if n <= nmax else "PSTV", repeat=n))
            for sh in combos:
                truths = list(itertools.product([True, False], repeat=n))
                if n > nmax:
                    truths = rng.sample(truths, 2 if q else 8)
                elif n >= 4 and q:
                    truths = rng.sample(truths, 2)
                elif n == 3 and q:
                    truths = rng.sample(truths, 4)
                for tr in truths:
                    script = {}
                    cnt = [0]

                    def nxt():
                        cnt[0] += 1
                        return cnt[0]
                    ops = [c02_operand(rng, s_, t_, script, nxt) for s_, t_ in zip(sh, tr)]
                    form = T(op, 0, ops)
                    w = wrappers[n_prog % 4]
                    if w == "setv":
                        t = T("do", 0, [T("setv", 0, [T("var", 2), form]), T("var", 2)])
                    elif w == "if":
                        t = T("do", 0, [T("if", 0, [form, T("lit", 0, (), v=["int", 1, []]),
                                                    T("lit", 0, (), v=["int", 2, []])])])
                    elif w == "arg":
                        t = T("do", 0, [T("args", "list", [form, T("lit", 0, (), v=["int", 1, []])])])
                    else:
                        t = T("do", 0, [form])
                    n_prog += 1
                    base = observe(t, script, {}, {}, nv, tag="no fault")
                    cases.append(base)
                    if "log" in base.obs and base.obs["log"] and (not q or n_prog % 3 == 0):
                        cases += fault_variants(rng, base, nv, 1 if q else 3)
                    # value-only check of the pyops functions on plain operands
                    if all(s_ == "P" for s_ in sh) and w == "plain" and "log" in base.obs:
                        vals = [topy(o.x["v"]) for o in ops]
                        fn = getattr(pyops, op)
                        got = fn(*vals)
                        from ..hycore import proj
                        pyops_checked += 1
                        if ["val", proj(got, {"CM": type(None)})] != base.obs["out"]:
                            run.violation(f"pyops.{op} {vals}", f"hy.pyops.{op}_{tuple(vals)} = {got!r} differs from "
                                          f"the macro form's value {base.obs['out']}",
                                          {"text": base.text, "script": {}, "fault": {}, "supp": {}})
    # higher arities by random sampling
    for _ in range(300 if q else 6000):
        n = rng.randint(5, 8)
        op = rng.choice(["and", "or"])
        script = {}
        cnt = [0]

        def nxt():
            cnt[0] += 1
            return cnt[0]
        # bias toward long evaluation: mostly non-deciding operands
        ops = [c02_operand(rng, rng.choice(shapes), (rng.random() < 0.8) == (op == "and"), script, nxt)
               for _ in range(n)]
        t = T("do", 0, [T(op, 0, ops)])
        base = observe(t, script, {}, {}, nv, tag="no fault")
        cases.append(base)
        if "log" in base.obs and base.obs["log"]:
            cases += fault_variants(rng, base, nv, 1)
    run.log(f"{n_prog} enumerated and/or programs (+random arity 5..8), {len(cases)} executions")
    us = decide(run, cases, nv, "c02", explore_small=14)
    for c in us[len(us) // 2: len(us) // 2 + 3]:
        run.sample(sample_of(c))
    run.cov["pyops_value_checks"] = pyops_checked
    return run.finish("model_checking",
                      "and/or forms: operator x arity 0..%d x operand shape {plain, effect, statement-producing, "
                      "statements only (value None), nested} x truthiness assignment (exhaustive), arity 5..8 sampled; each also with a fault "
                      "at an operand; non-trivial = at least one effect logged" % nmax,
                      assumptions=["truthiness of the value pool as in HyCore!Truthy"])


# ---------------------------------------------------------------- C06
TARGET_POS = {"setv": lambda i, t: i % 2 == 0, "setx": lambda i, t: i == 0,
              "let": lambda i, t: i < 2 * t.a and i % 2 == 0,
              "fn": lambda i, t: i < t.a, "defn": lambda i, t: i <= t.a,
              "for": lambda i, t: i == 0, "with": lambda i, t: i == 0,
              "except": lambda i, t: i == 0 and t.x.get("hv"), "pat": lambda i, t: True,
              "global": lambda i, t: True, "nonlocal": lambda i, t: True}


def wrap_reads(t, p=1.0, rng=None):
    """Replace variable *reads* x by (e k x) so that every reference is logged."""
    out = []
    for i, c in enumerate(t.ch):
        is_target = TARGET_POS.get(t.k, lambda i, t: False)(i, t)
        if c.k == "var" and not is_target and (rng is None or rng.random() < p) and not (t.k == "eff"):
            out.append(T("eff", 0, [c]))
        elif is_target:
            out.append(c)
        else:
            out.append(wrap_reads(c, p, rng))
    t.ch = out
    return t


def c06_rebinding_family(rng, quick):
    """(let [n1 v1 n2 v2 (n3 v3)] body): names repeat, values capture earlier bindings in closures."""
    import itertools
    V = lambda i: T("var", i)
    L = lambda i: T("lit", 0, (), v=["int", i, []])

    def value(kind, j):
        if kind == "lit":
            return L(10 + j)
        if kind in ("fa", "fb"):
            return T("fn", 0, [T("do", 0, [V(1 if kind == "fa" else 2)])])
        return T("eff", 0, [V(1 if kind == "ra" else 2)])
    kinds = ["lit", "fa", "fb", "ra", "rb"]
    out = []
    for n in (2, 3):
        for names in itertools.product((1, 2), repeat=n):
            for ks in itertools.product(kinds, repeat=n):
                if "fa" not in ks and "fb" not in ks:
                    continue
                for body in range(4):
                    ch = []
                    for j, (nm, k) in enumerate(zip(names, ks)):
                        ch += [V(nm), value(k, j)]
                    reads = [T("eff", 0, [V(1)]), T("eff", 0, [V(2)])]
                    if body == 0:
                        b = [T("args", "list", reads)]
                    elif body == 1:
                        b = [T("args", "list", reads + [T("eff", 0, [T("call", 0, [V(1)])])])]
                    elif body == 2:
                        b = [T("args", "list", reads + [T("eff", 0, [T("call", 0, [V(2)])])])]
                    else:
                        b = [T("setv", 0, [V(names[0]), L(99)]),
                             T("args", "list", reads + [T("eff", 0, [T("call", 0, [V(names[-1])])])])]
                    out.append(T("do", 0, [T("setv", 0, [V(1), L(1), V(2), L(2)]), T("let", n, ch + b),
                                           T("args", "list", [V(1), V(2)])]))
    if quick and len(out) > 1500:
        out = rng.sample(out, 1500)
    return out


def hoist_family(run):
    """defn inside let inside functions: HyHoist.tla says what every level reads afterwards"""
    import types
    import hy
    r = tlc.run("HyHoist", tlc.cfg(constants={"MaxDepth": 4 if run.quick else 5},
                                   invariants=["HoistedToPythonScope", "OuterLetsUntouched", "InsideSeesFunction", "Export"]),
                run.work, workers=8, label="hoist")
    if r.violated:
        raise MachineryError(f"HyHoist: {r.violated} violated on the specification")
    run.add_tlc(r, "HyHoist: chains of functions and lets (binding g or not) around (defn g [] 7); what each level reads")
    for rec in r.ex("PROG"):
        ks, bs, reads = rec["ks"], rec["bs"], rec["reads"]
        D = len(ks)

        def level(i):
            inner = level(i + 1) if i < D else ["(defn g [] 7)"]
            read = [f'(setv (get R {i}) (if (callable g) (g) g))'] if reads[i] != 0 else []
            if i == 0:
                return inner + read
            body = " ".join(inner + read)
            if ks[i - 1] == "fn":
                return [f"(defn hyv-h{i} [] {body})", f"(hyv-h{i})"]
            return [f"(let [{'g ' + str(10 + i) if bs[i - 1] else 'hyv-d' + str(i) + ' 0'}] {body})"]
        text = "(setv R {})\n" + "\n".join(level(0)) + "\n"
        run.case(text)
        mod = types.ModuleType("hyv_hoist")
        want = {i: v for i, v in enumerate(reads) if v != 0}
        try:
            hy.eval(hy.read_many(text), mod.__dict__, module=mod)
            got = dict(mod.R)
        except Exception as x:
            got = f"{type(x).__name__}: {x}"
        if got != want:
            run.violation("hoist:" + text, f"defn inside let: levels read {got}, the documentation gives {want}; program:\n{text}",
                          {"text": text, "spec": rec})
        else:
            run.cov["traces_validated_against_impl"] += 1


SHADOW_BINDERS = {
    "param": '(setv (get R "in") ((fn [x] x) 5))',
    "posonly": '(setv (get R "in") ((fn [x /] x) 5))',
    "kwonly": '(setv (get R "in") ((fn [* x] x) :x 5))',
    "default": '(setv (get R "in") ((fn [[x 5]] x)))',
    "default2": '(setv (get R "in") ((fn [[x 9]] x) 5))',
    "rest": '(setv (get R "in") (get ((fn [#* x] x) 5) 0))',
    "kwrest": '(setv (get R "in") (get ((fn [#** x] x) :k 5) "k"))',
    "defn-param": '(defn hyv-f [x] x) (setv (get R "in") (hyv-f 5))',
    "defn-posonly": '(defn hyv-f [hyv-a x /] x) (setv (get R "in") (hyv-f 0 5))',
    "defn-kwonly": '(defn hyv-f [hyv-a * [x 5]] x) (setv (get R "in") (hyv-f 0))',
    "defn-rest": '(defn hyv-f [hyv-a #* x] x) (setv (get R "in") (get (hyv-f 0 5) 0))',
    "let": '(setv (get R "in") (let [x 5] x))',
    "let-unpack": '(setv (get R "in") (let [[x hyv-y] [5 6]] x))',
    "setv": "(setv x 5)", "setx": "(setx x 5)", "aug": "(+= x 4)", "unpack": "(setv [x hyv-y] [5 6])",
    "for": '(for [x [5]] (setv (get R "in") x))',
    "with": '(with [x (cm 5)] (setv (get R "in") x))',
    "match": '(match 5 x (setv (get R "in") x))',
    "match-as": '(match 5 _ :as x (setv (get R "in") x))',
    "compr-setx": '(setv (get R "in") (get (lfor hyv-i [0] (setx x 5)) 0))',
    "compr-setx-stmt": '(setv (get R "in") (get (lfor hyv-i [0] :do (setv hyv-q 0) (setx x 5)) 0))',
    "compr-setx-if": '(setv (get R "in") (get (lfor hyv-i [0] :if (setx x 5) x) 0))',
    "gfor-setx": '(setv (get R "in") (get (list (gfor hyv-i [0] (setx x 5))) 0))',
    "dfor-setx": '(setv (get R "in") (get (dfor hyv-i [0] 0 (setx x 5)) 0))',
    "compr-do-setv": '(setv (get R "in") (get (lfor hyv-i [0] :do (setv x 5) x) 0))',
    "setv-own-itervar": '(setv (get R "in") (get (lfor x [4] :do (setv x 5) x) 0))',
    "setx-own-itervar": '(setv (get R "in") (get (lfor x [4] :do (setv hyv-q 0) (setx x 5)) 0))',
    "lfor": '(setv (get R "in") (get (lfor x [5] x) 0))',
    "sfor": '(setv (get R "in") (.pop (sfor x [5] x)))',
    "gfor": '(setv (get R "in") (next (gfor x [5] x)))',
    "dfor": '(setv (get R "in") (get (dfor x [5] 0 x) 0))',
    "compr-setv": '(setv (get R "in") (get (lfor hyv-i [0] :setv x 5 x) 0))',
    "iter-read": '(setv (get R "in") (get (lfor x [(+ x 4)] x) 0))',
    "compr-unpack": '(setv (get R "in") (get (lfor [x hyv-y] [[5 6]] x) 0))',
    "lfor-stmt": '(setv (get R "in") (get (lfor x [5] :do (setv hyv-q 0) x) 0))',
    "iter-read-stmt": '(setv (get R "in") (get (lfor x [(+ x 4)] :do (setv hyv-q 0) x) 0))',
    "except": '(try (raise (ValueError 5)) (except [x ValueError] (setv (get R "in") (get x.args 0))))',
    "defn": "(defn x [] 7)", "defclass": "(defclass x [] (setv v 7))", "import-as": "(import hyv_const [c7 :as x])",
}
SHADOW_WRAPPERS = {
    "direct": "{}", "do": "(do {})", "if": "(if True (do {}) None)", "other-let": "(let [hyv-z 0] {})",
    "try-body": "(try {} (finally None))", "when-value": "(setv hyv-w (when True {} 1))",
}


def shadow_program(rec):
    b = SHADOW_WRAPPERS[rec["w"]].format(SHADOW_BINDERS[rec["b"]])
    body = f'(setv x 0)\n(let [x 1]\n  {b}\n  (setv (get R "after") (val x)))\n(setv (get R "out") (val x))'
    if rec["lvl"] == "fn":
        body = f"(defn hyv-top []\n{body})\n(hyv-top)"
    return body + "\n"


def _shadow_val(v):
    if isinstance(v, type):
        return v.v
    return v() if callable(v) else v


def shadow_family(run):
    """a let-bound name rebound by every binding construct: HyShadow.tla says what is read inside, after, and outside"""
    import contextlib
    import sys
    import types
    import hy
    r = tlc.run("HyShadow", tlc.cfg(invariants=["LexicalRestore", "AssignUpdatesBinding", "OuterUntouched",
                                                "HoistReachesPythonScope", "Export"]),
                run.work, workers=8, label="shadow")
    if r.violated:
        raise MachineryError(f"HyShadow: {r.violated} violated on the specification")
    run.add_tlc(r, "HyShadow: 42 constructs that bind a let-bound name x 2 levels x 6 surrounding forms; the reads inside, "
                   "after the construct and after the let")
    rows = r.ex("CASE")
    if {x["b"] for x in rows} != set(SHADOW_BINDERS):
        raise MachineryError("HyShadow and the harness disagree on the binders")
    m = types.ModuleType("hyv_const")
    m.c7 = 7
    sys.modules["hyv_const"] = m

    @contextlib.contextmanager
    def cm(v):
        yield v
    for rec in sorted(rows, key=lambda x: (x["b"], x["lvl"], x["w"])):
        text = shadow_program(rec)
        run.case("shadow:" + text)
        want = {k: rec[f] for k, f in (("in", "rin"), ("after", "after"), ("out", "out")) if rec[f] != 99}
        mod = types.ModuleType("hyv_shadow")
        mod.__dict__.update(R={}, cm=cm, val=_shadow_val)
        try:
            hy.eval(hy.read_many(text), mod.__dict__, module=mod)
            got = dict(mod.R)
        except Exception as x:
            got = f"{type(x).__name__}: {x}"
        if got != want:
            run.violation("shadow:" + text, f"{rec['b']} ({rec['cls']}) of a let-bound name at {rec['lvl']} level: reads {got}, "
                          f"the documentation gives {want}; program:\n{text}", {"text": text, "spec": rec})
        else:
            run.cov["traces_validated_against_impl"] += 1


def main_c06(run):
    rng = random.Random(run.seed)
    q = run.quick
    nv = 4
    hoist_family(run)
    shadow_family(run)
    fam = c06_rebinding_family(rng, q)
    run.log(f"rebinding family: {len(fam)} programs")
    fcases = build_cases(run, fam + [wrap_in_fn(t, 4) for t in fam[:: (4 if q else 1)]], rng, nv, fault_limit=0)
    us = decide(run, fcases, nv, "c06-rebind")
    for c in us[:1]:
        run.sample(sample_of(c))
    forms_small = {"let", "fn", "setv", "var", "do", "call", "lit", "list"}
    en = Enum(forms_small, nv=2, lits=(["int", 1, []],))
    trees = []
    for size in ([2, 3, 4, 5] if q else [2, 3, 4, 5, 6]):
        xs = [x for x in en.exprs(size) if "let" in render(x)]
        if len(xs) > (2500 if q else 12000):
            xs = rng.sample(xs, 2500 if q else 12000)
        trees += [wrap_reads(T("do", 0, [clone(x)])) for x in xs]
    run.log(f"exhaustive let programs: {len(trees)}")
    cases = build_cases(run, trees, rng, nv, fault_limit=0)
    # function level: same programs inside (defn h [] ...) (h)
    ftrees = [wrap_in_fn(t, 4) for t in (trees if not q else rng.sample(trees, min(len(trees), 1200)))]
    cases += build_cases(run, ftrees, rng, nv, fault_limit=0)
    us = decide(run, cases, nv, "c06-small", explore_small=10)
    for c in us[-2:]:
        run.sample(sample_of(c))
    deep_forms = {"let", "let2", "fn", "defn", "setv", "setv2", "setx", "var", "do", "call", "lit", "list",
                  "if", "for", "eff"}
    deep = []
    for i in range(300 if q else 2500):
        t = wrap_reads(random_program(rng, deep_forms, rng.choice([3, 4, 5]), nv=3), 0.8, rng)
        deep.append(t)
        if i % 2 == 0:
            deep.append(wrap_in_fn(t, 4))
    cases = build_cases(run, deep, rng, nv, fault_limit=0 if q else 2)
    run.log(f"deep let/closure programs: {len(deep)}, {len(cases)} executions")
    us = decide(run, cases, nv, "c06-deep")
    for c in sorted(us, key=lambda c: -len(c.obs["log"]))[:2]:
        run.sample(sample_of(c))
    return run.finish("model_checking",
                      "programs over let/fn/defn/setv/setx/call with every variable read wrapped as (e k x) so "
                      "the value seen at each reference is in the log; exhaustive by size at module and function "
                      "level + random deep; final module globals compared; non-trivial = at least one logged read",
                      assumptions=["defn inside a let binding the same name is not generated (hoisting corner, DESIGN 6/C06)"])


# ---------------------------------------------------------------- C09
def c09_handler_family(rng, quick):
    """try with two or three handlers; an earlier handler binds a name that a later one
    (which does not bind it) reads and assigns as an outer variable."""
    import itertools
    V = lambda i: T("var", i)
    L = lambda i: T("lit", 0, (), v=["int", i, []])
    out = []
    tsets = [[1], [2], [3], [1, 3], [10]]
    for t1, t2 in itertools.product(tsets, [[], [1], [2], [3]]):
        for hv2 in (0, 1):
            for h2 in range(3):
                for fin in (0, 1):
                    h1 = T("except", 0, [V(1), T("eff", 0, [V(1)])], ts=t1, hv=1)
                    b2 = [T("eff", 0, [V(1)])] if h2 == 0 else \
                        [T("setv", 0, [V(1), L(7)]), T("eff", 0, [V(1)])] if h2 == 1 else \
                        [T("setx", 0, [V(1), L(8)])]
                    if hv2 and not t2:
                        continue
                    h2n = T("except", 0, ([V(2)] if hv2 else []) + b2, ts=t2, hv=hv2)
                    cl = [h1, h2n] + ([T("finally", 0, [T("eff", 0, [V(1)])])] if fin else [])
                    tr = T("try", 0, [T("eff", 0)] + cl)
                    out.append(T("do", 0, [T("setv", 0, [V(1), L(1), V(2), L(2)]), tr,
                                           T("args", "list", [V(1), V(2)])]))
    return out


def c09_with_family():
    """one form with two managers; the second manager may compile to statements"""
    import itertools
    V = lambda i: T("var", i)
    out = []
    for t1, t2 in itertools.product(("var", "nov"), repeat=2):
        for m2 in ("cm", "do"):
            for body in range(3):
                mgr2 = T("cm", 0) if m2 == "cm" else T("do", 0, [T("setv", 0, [V(3), T("eff", 0)]), T("cm", 0)])
                b = [T("eff", 0)] if body == 0 else [T("args", "list", [V(1), V(2)])] if body == 1 else []
                inner = T("with", 0, [V(2) if t2 == "var" else T("nov"), mgr2] + b)
                outer = T("with", 0, [V(1) if t1 == "var" else T("nov"), T("cm", 0), inner], merge=1)
                out.append(T("do", 0, [T("setv", 0, [V(1), T("lit", 0, (), v=["int", 1, []]), V(2),
                                                      T("lit", 0, (), v=["int", 2, []])]),
                                       T("args", "list", [outer, V(1), V(2)])]))
    return out


def main_c09(run):
    rng = random.Random(run.seed)
    q = run.quick
    nv = 4
    wfam = c09_with_family()
    wcases = build_cases(run, wfam + [wrap_in_fn(t, 4) for t in wfam[::3]], rng, nv, fault_limit=8, scripts=2,
                         merged_suppress=True)
    for c in wcases:
        c.tag += " |with2"
    run.log(f"two-manager with family: {len(wfam)} programs, {len(wcases)} executions")
    us = decide(run, wcases, nv, "c09-with2")
    for c in us[3:4]:
        run.sample(sample_of(c))
    fam = c09_handler_family(rng, q)
    fcases = []
    for t in fam + [wrap_in_fn(t, 4) for t in fam[::3]]:
        t = clone(t)
        ns, ncm = number(t)
        sc, supp = make_script(rng, t, ns, ncm)
        for ty in (0, 1, 2, 3):
            fcases.append(observe(t, sc, supp, {1: [ty]} if ty else {}, nv, tag=f"body raises {ty}"))
    run.log(f"multi-handler family: {len(fam)} programs, {len(fcases)} executions")
    us = decide(run, fcases, nv, "c09-handlers")
    for c in us[5:6]:
        run.sample(sample_of(c))
    forms_small = {"try", "with", "raise", "eff", "eff1", "do", "lit", "var", "setv"}
    en = Enum(forms_small, nv=2, lits=(["int", 1, []],))
    trees = []
    for size in ([3, 4, 5] if q else [3, 4, 5, 6]):
        xs = [x for x in en.exprs(size) if x.k in ("try", "with") or "(try" in render(x) or "(with" in render(x)]
        cap = 2000 if q else 8000
        if len(xs) > cap:
            xs = rng.sample(xs, cap)
        trees += [T("do", 0, [x]) for x in xs]
    run.log(f"exhaustive try/with programs: {len(trees)}")
    cases = build_cases(run, trees, rng, nv, fault_limit=3 if q else 5, pairs=not q)
    us = decide(run, cases, nv, "c09-small", explore_small=9)
    for c in us[-2:]:
        run.sample(sample_of(c))
    deep_forms = {"try", "with", "raise", "eff", "eff1", "do", "lit", "var", "setv", "if", "list", "fn", "call",
                  "return", "while", "break", "for", "when"}
    deep = []
    for i in range(250 if q else 2000):
        t = random_program(rng, deep_forms, rng.choice([3, 4]), nv=3)
        if "(try" not in render(t) and "(with" not in render(t):
            continue
        deep.append(t)
        if i % 3 == 0:
            deep.append(wrap_in_fn(t, 4))
    cases = build_cases(run, deep, rng, nv, fault_limit=4 if q else 6, pairs=True)
    run.log(f"deep try/with programs: {len(deep)}, {len(cases)} executions")
    us = decide(run, cases, nv, "c09-deep")
    for c in sorted(us, key=lambda c: -len(c.obs["log"]))[:2]:
        run.sample(sample_of(c))
    return run.finish("model_checking",
                      "try/except/else/finally and with programs (managers log enter/exit, may suppress); an "
                      "exception of one of three types is injected at each effect call -- body, handler, else, "
                      "finally, __enter__, __exit__ -- singly and in pairs; non-trivial = at least one effect",
                      assumptions=["break/continue/return inside finally are not generated"])


def main(run):
    return {"C01": main_c01, "C02": main_c02, "C06": main_c06, "C09": main_c09}[run.pid](run)


def replay(run, path):
    d = json.load(open(path))["replay"]
    ns = max([0] + [int(k) for k in d["script"]]) - 2 * len(d["supp"])
    obs = run_hy(d["text"], {int(k): v for k, v in d["script"].items()},
                 {int(k): v for k, v in d["fault"].items()}, {int(k): v for k, v in d["supp"].items()},
                 ns, nv=d.get("nv", 4))
    print("program :", d["text"])
    print("observed:", obs)
    print("allowed :", d.get("allowed"))
    ok = "log" in obs and any(norm({"out": obs["out"], "log": obs["log"], "globals": obs["globals"]}) == norm(a)
                              for a in d.get("allowed", []))
    return 0 if ok else 1
