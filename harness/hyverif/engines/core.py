"""HyCore-based engines: C01 (whole language), C02 (and/or), C06 (let),
C09 (try/with at every raise point) ...  Programs are enumerated / generated
here, run on the real compiler, and decided by TLC against specs/HyCore.tla:
  trace mode   (code -> spec): the observed effect log drives the spec;
  explore mode (spec -> code): TLC enumerates every interleaving and exports
                               the set of allowed outcomes.
"""
import json
import random
from concurrent.futures import ThreadPoolExecutor

from .. import tlc
from ..core import MachineryError
from ..corpus import (ALL_FORMS, Enum, clone, make_script, number, random_program)
from ..hycore import T, record, render, run_hy, sites_of

INVS = ["UnselectedBranchSilent", "ShortCircuit", "OrderedOneAtATime", "HeapWellFormed", "LogCounts"]


def _tlc_batch(run, recs, mode, label, timeout=3600, workers=16):
    pf = run.work / f"progs-{label}.ndjson"
    with open(pf, "w") as f:
        for r in recs:
            f.write(json.dumps(r) + "\n")
    first = "Accept" if mode == "trace" else "ExportOutcome"
    cfg = tlc.cfg(invariants=[first, "OutOfScope"] + INVS, constraint="Bound")
    r = tlc.run("HyCoreRun", cfg, run.work, workers=workers, env={"PROG_FILE": str(pf)}, label=label,
                timeout=timeout)
    if r.violated:
        raise MachineryError(f"HyCore invariant {r.violated} violated in batch {label}")
    return r, {int(x) for x in r.ex("ACC")}, {int(x) for x in r.ex("OOS")}


def tlc_parallel(run, recs, mode, label, chunk=20000, par=1, timeout=3600):
    """Run TLC over recs (in chunks to bound memory).  Returns (accepted idx set,
    oos idx set, outcomes dict idx->list) with 0-based indices into recs."""
    chunks = [(i, recs[i:i + chunk]) for i in range(0, len(recs), chunk)]
    acc, oos, outs = set(), set(), {}
    for i0, rs in chunks:
        r, a, o = _tlc_batch(run, rs, mode, f"{label}-{i0}", timeout,
                             workers=16 if len(rs) > 30 else 4)
        run.add_tlc(r, f"HyCoreRun {mode} batch {label}@{i0} ({len(a)} accepted)")
        acc |= {i0 + x - 1 for x in a}
        oos |= {i0 + x - 1 for x in o}
        for e in r.ex("OUT"):
            outs.setdefault(i0 + e["pid"] - 1, []).append(e["o"])
    return acc, oos, outs


def norm(o):
    return json.dumps(o, sort_keys=True)


class Case:
    __slots__ = ("tree", "text", "script", "supp", "fault", "obs", "ns", "rec", "tag")


def observe(t, script, supp, fault, nv, tag=""):
    c = Case()
    c.tree, c.script, c.supp, c.fault, c.tag = t, script, supp, fault, tag
    c.text = render(t)
    c.ns = max(sites_of(t) + [0])
    c.obs = run_hy(c.text, script, fault, supp, c.ns, nv=nv)
    return c


def fault_variants(rng, base, nv, limit, types=(1, 2, 3), pairs=False):
    """One execution per (call in the fault-free log) x exception type."""
    log = base.obs["log"]
    seen = {}
    points = []
    for k, _v in log:
        seen[k] = seen.get(k, 0) + 1
        points.append((k, seen[k]))
    if len(points) > limit:
        points = rng.sample(points, limit)
    out = []
    for (k, i) in points:
        ty = rng.choice(types)
        fl = {k: [0] * (i - 1) + [ty]}
        out.append(observe(base.tree, base.script, base.supp, fl, nv, tag=f"fault {k}#{i}={ty}"))
    if pairs and len(points) >= 2:
        for _ in range(min(limit, len(points))):
            (k1, i1), (k2, i2) = rng.sample(points, 2)
            fl = {}
            for (k, i, ty) in ((k1, i1, rng.choice(types)), (k2, i2, rng.choice(types))):
                cur = fl.get(k, [])
                cur = cur + [0] * (i - len(cur))
                cur[i - 1] = ty
                fl[k] = cur
            out.append(observe(base.tree, base.script, base.supp, fl, nv, tag="fault pair"))
    return out


def decide(run, cases, nv, label, explore_small=0):
    """Trace-validate every case; diagnose rejections by exploration."""
    usable = []
    skipped = {"compile_error": 0, "runaway": 0}
    for c in cases:
        if "log" not in c.obs:
            key = "compile_error" if "compile_error" in c.obs else "runaway"
            skipped[key] += 1
            if key == "compile_error":
                run.cov.setdefault("compile_error_samples", [])
                if len(run.cov["compile_error_samples"]) < 5:
                    run.cov["compile_error_samples"].append([c.text, c.obs["compile_error"]])
            continue
        usable.append(c)
    recs = [record(c.tree, c.script, c.fault, c.supp, "trace", c.obs, nv=nv,
                   maxlog=len(c.obs["log"]) + 1) for c in usable]
    # negative controls: corrupted observations that must be rejected
    negs = []
    for c in usable[:3]:
        o = c.obs
        negs.append(("extra effect of an unknown site", c, dict(o, log=o["log"] + [[c.ns + 40, ["none", 0, []]]])))
        negs.append(("impossible outcome", c, dict(o, out=["exc", 77])))
        negs.append(("corrupted final global", c, dict(o, globals=[["int", 77, []]] + o["globals"][1:])))
    nrec = [record(c.tree, c.script, c.fault, c.supp, "trace", bad, nv=nv, maxlog=len(bad["log"]) + 1)
            for (_, c, bad) in negs]
    acc, oos, _ = tlc_parallel(run, recs + nrec, "trace", label)
    n = len(recs)
    for j, (what, c, bad) in enumerate(negs):
        # a swap may be a legal interleaving; only flag controls that cannot be legal
        if n + j in acc:
            raise MachineryError(f"negative control accepted by HyCore: {what}: {c.text}")
    run.cov["negative_controls"] = run.cov.get("negative_controls", 0) + len(negs)
    rejected = [i for i in range(n) if i not in acc and i not in oos]
    run.cov["traces_validated_against_impl"] += len(acc & set(range(n)))
    run.cov["out_of_scope"] = run.cov.get("out_of_scope", 0) + len(oos & set(range(n)))
    for k, v in skipped.items():
        run.cov[k] = run.cov.get(k, 0) + v
    for i, c in enumerate(usable):
        run.case((c.text, norm(c.script), norm(c.fault)), nontrivial=len(c.obs["log"]) > 0)
    # diagnose rejections: what does the spec allow?
    if rejected:
        rr = rejected[:40]
        erecs = [record(usable[i].tree, usable[i].script, usable[i].fault, usable[i].supp, "explore",
                        None, nv=nv, maxlog=len(usable[i].obs["log"]) + 6) for i in rr]
        try:
            _, _, outs = tlc_parallel(run, erecs, "explore", label + "-diag", timeout=150)
        except MachineryError as x:
            if "timeout" not in str(x):
                raise
            outs = None
        for j, i in enumerate(rr):
            c = usable[i]
            allowed = outs.get(j, []) if outs is not None else []
            obs = {"out": c.obs["out"], "log": c.obs["log"], "globals": c.obs["globals"]}
            if any(norm(a) == norm(obs) for a in allowed):
                raise MachineryError(f"trace rejected but outcome explored as allowed: {c.text}")
            allowed_s = sorted({norm(a) for a in allowed})[:6]
            run.violation(c.text + " | " + c.tag,
                          f"{c.text} [{c.tag}] observed out={c.obs['out']} log={c.obs['log']} "
                          f"globals={c.obs['globals']}; spec allows {len(allowed)} outcome(s)",
                          {"text": c.text, "script": c.script, "fault": c.fault, "supp": c.supp,
                           "observed": obs, "allowed": [json.loads(a) for a in allowed_s], "nv": nv})
        for i in rejected[40:]:
            c = usable[i]
            run.violation(c.text + " | " + c.tag, f"{c.text} [{c.tag}] rejected by HyCore",
                          {"text": c.text, "script": c.script, "fault": c.fault, "supp": c.supp,
                           "observed": c.obs, "nv": nv})
    # spec -> code: explore the small ones and check membership
    if explore_small:
        small = [c for c in usable if c.tree.size() <= explore_small][:3000]
        erecs = [record(c.tree, c.script, c.fault, c.supp, "explore", None, nv=nv,
                        maxlog=len(c.obs["log"]) + 6) for c in small]
        _, eoos, outs = tlc_parallel(run, erecs, "explore", label + "-exp")
        multi = 0
        for j, c in enumerate(small):
            if j in eoos:
                continue
            allowed = {norm(a) for a in outs.get(j, [])}
            obs = norm({"out": c.obs["out"], "log": c.obs["log"], "globals": c.obs["globals"]})
            multi += len(allowed) > 1
            if obs not in allowed and (c.text + " | " + c.tag) not in [v["key"] for v in run.violations if v]:
                run.violation(c.text + " | " + c.tag,
                              f"{c.text} [{c.tag}] outcome not among the {len(allowed)} the spec allows",
                              {"text": c.text, "script": c.script, "fault": c.fault, "supp": c.supp,
                               "observed": c.obs, "allowed": [json.loads(a) for a in sorted(allowed)[:6]],
                               "nv": nv})
        run.cov["explored_programs"] = run.cov.get("explored_programs", 0) + len(small)
        run.cov["explored_with_several_allowed_outcomes"] = \
            run.cov.get("explored_with_several_allowed_outcomes", 0) + multi
    return usable


def build_cases(run, trees, rng, nv, fault_limit, pairs=False, scripts=1):
    cases = []
    for t in trees:
        t = clone(t)
        ns, ncm = number(t)
        for _ in range(scripts):
            sc, supp = make_script(rng, t, ns, ncm)
            base = observe(t, sc, supp, {}, nv, tag="no fault")
            cases.append(base)
            if "log" in base.obs and fault_limit:
                cases += fault_variants(rng, base, nv, fault_limit, pairs=pairs)
    return cases


def wrap_in_fn(t, nv):
    """(do (defn h [] body...) (h)) -- the same program at function level"""
    return T("do", 0, [T("defn", 0, [T("var", nv), T("do", 0, [clone(c) for c in t.ch])]),
                       T("call", 0, [T("var", nv)])])


RULE = ("programs: exhaustive by node count over the property's form set + seeded random deep "
        "programs; each executed on hy fault-free and with an exception injected at each call of "
        "each effect site; non-trivial = at least one effect logged; distinct = different "
        "(text, script, fault plan)")


def sample_of(c):
    return {"program": c.text, "fault": c.tag, "observed_log": c.obs.get("log"),
            "observed_out": c.obs.get("out")}


# ---------------------------------------------------------------- C01
def main_c01(run):
    rng = random.Random(run.seed)
    q = run.quick
    nv = 4
    # exhaustive small programs over a core form set
    forms_small = {"lit", "var", "eff", "eff1", "do", "if", "and", "or", "setv", "setx", "list", "+",
                   "when", "while", "break", "let", "fn", "call", "try", "raise"}
    en = Enum(forms_small, nv=2, lits=(["none", 0, []], ["int", 1, []]))
    trees = []
    for size in ([1, 2, 3, 4] if q else [1, 2, 3, 4, 5]):
        xs = [T("do", 0, [x]) for x in en.exprs(size)]
        if q and len(xs) > 2500:
            xs = rng.sample(xs, 2500)
        trees += xs
    run.log(f"exhaustive part: {len(trees)} programs")
    cases = build_cases(run, trees, rng, nv, fault_limit=2 if q else 4)
    run.log(f"  {len(cases)} executions")
    us = decide(run, cases, nv, "c01-small", explore_small=8 if q else 9)
    for c in us[:2]:
        run.sample(sample_of(c))
    # deep random programs, module level and function level
    deep = []
    for i in range(250 if q else 6000):
        t = random_program(rng, ALL_FORMS, rng.choice([3, 4, 5]), nv=3)
        deep.append(t)
        if i % 3 == 0:
            deep.append(wrap_in_fn(t, 4))
    cases = build_cases(run, deep, rng, nv, fault_limit=3 if q else 6, pairs=not q)
    run.log(f"deep part: {len(deep)} programs, {len(cases)} executions")
    us = decide(run, cases, nv, "c01-deep")
    big = sorted(us, key=lambda c: -len(c.obs["log"]))[:3]
    for c in big:
        run.sample(sample_of(c))
    return run.finish("model_checking", RULE,
                      assumptions=["Python primitives on small ints/lists are as transcribed in HyCore!OpApply",
                                   "function activations are atomic w.r.t. sibling arguments",
                                   "programs with recursion / call depth > 3 / str arithmetic are out of scope (counted)"])


def main(run):
    return {"C01": main_c01}[run.pid](run)


def replay(run, path):
    d = json.load(open(path))["replay"]
    obs = run_hy(d["text"], {int(k): v for k, v in d["script"].items()},
                 {int(k): v for k, v in d["fault"].items()}, {int(k): v for k, v in d["supp"].items()},
                 max([0] + [int(k) for k in d["script"]]) - 2 * len(d["supp"]), nv=d.get("nv", 4))
    print("program :", d["text"])
    print("observed:", obs)
    print("allowed :", d.get("allowed"))
    ok = any(norm({"out": obs["out"], "log": obs["log"], "globals": obs["globals"]}) == norm(a)
             for a in d.get("allowed", []))
    return 0 if ok else 1
