"""C10: every model tree compiles to an AST Python accepts, or is rejected with a user-facing error (HyForms.tla)."""
import json
import marshal
import random
import types
import warnings

from .. import tlc
from ..core import REPO, MachineryError, pmap

ATOM = {
    "sym": "x", "sym2": "y", "kw": ":k", "int": "1", "float": "1.5", "str": '"s"', "bytes": 'b"s"', "none": "None", "true": "True",
    "dotted": "a.b", "fstr": 'f"{x}"', "quote": "'x", "list0": "[]", "list1": "[x]", "list2": "[x 1]", "listkw": "[:k 1]",
    "listpair": "[[x 1]]", "tuple1": "#(x)", "set1": "#{x}", "dict0": "{}", "dict1": "{x}", "dict2": "{x 1}", "call": "(f x)",
    "empty-expr": "()", "star": "#* x", "dstar": "#** x", "star-star": "#* #* x", "annot": "#^ int x", "else": "(else 1)",
    "except0": "(except [] 1)", "except1": "(except [E] 1)", "except2": "(except [e E] 1)", "finally": "(finally 1)",
    "ellipsis": "...", "colon-kw": ":", "dotsym": ".x", "or0": "(|)", "fstr-stmt": 'f"{(setv q 1)}"', "fstr-star": 'f"{#* x}"',
    "dstar0": "(unpack-mapping)", "star0": "(unpack-iterable)", "dstar2": "(unpack-mapping x y)", "quote0": "(quote)",
    "unquote1": "~x", "dot0": "(.)", "dotkw": "(. x :k)",
    "tryval": "(try 1 (except [] 2))", "ifstmt": "(if x (do (setv q 1) 2) 3)", "fnval": "(fn [] 1)", "listnone1": "[None]",
    "listnone2": "[None x]",
}
# heads that run user code while compiling: an exception of that code is the user's, not the compiler's
COMPILE_TIME_CODE = {"do-mac", "eval-and-compile", "eval-when-compile", "defreader"}


def render_arg(a):
    if a[0] == "atom":
        return ATOM[a[1]]
    return "(" + " ".join([a[1]] + [ATOM[k] for k in a[2]]) + ")"


def render(rec):
    return ("(setv x 0 y 0)\n" if rec.get("pre") else "") + "(" + " ".join([rec["head"]] + [render_arg(a) for a in rec["args"]]) + ")"


def pipeline(text):
    """-> list of events, or None if the text is not readable (nothing to compile)"""
    import hy
    from hy.compiler import hy_compile
    from hy.errors import HyLanguageError
    from hy.reader import read_many
    try:
        forms = list(read_many(text, filename="<forms>"))
    except BaseException:
        return None
    mod = types.ModuleType("hyv_forms")
    ev = []

    def exc(stage, x):
        ev.append({"stage": stage, "result": "exc", "cls": type(x).__name__,
                   "user": isinstance(x, (HyLanguageError, SyntaxError)), "msg": str(x)[:160]})
    with warnings.catch_warnings():
        warnings.simplefilter("ignore")
        try:
            tree = hy_compile(hy.models.Lazy(iter(forms)), mod, filename="<forms>", source=text)
            ev.append({"stage": "hy_compile", "result": "ok", "cls": "", "user": False})
        except RecursionError:
            return None
        except BaseException as x:
            exc("hy_compile", x)
            return ev
        try:
            code = compile(tree, "<forms>", "exec")
            ev.append({"stage": "pycompile", "result": "ok", "cls": "", "user": False})
        except BaseException as x:
            exc("pycompile", x)
            return ev
        try:
            marshal.dumps(code)
            ev.append({"stage": "marshal", "result": "ok", "cls": "", "user": False})
        except BaseException as x:
            exc("marshal", x)
    return ev


def _one(text):
    return pipeline(text)


def mutate_corpus(rng, n):
    """model trees of greater depth: real Hy forms from the repository's native tests, mutated
    (drop / duplicate / swap / replace a subform, wrap in an unpacking, empty a collection)"""
    import hy
    from pathlib import Path
    forms = []
    for p in sorted((REPO / "tests" / "native_tests").glob("*.hy")):
        try:
            for f in hy.read_many(p.read_text(), filename=str(p)):
                if isinstance(f, hy.models.Expression) and len(hy.repr(f)) < 400:
                    forms.append(f)
        except BaseException:
            continue
    rng.shuffle(forms)
    M = hy.models
    atoms = [M.Symbol("x"), M.Keyword("k"), M.Integer(1), M.String("s"), M.List([]), M.Expression([]), M.Dict([M.Symbol("x")]),
             M.Expression([M.Symbol("unpack-iterable"), M.Symbol("x")]), M.Expression([M.Symbol("unpack-mapping"), M.Symbol("x")]),
             M.Symbol("None"), M.Keyword(""), M.Symbol("...")]

    def paths(t, pre=()):
        out = [pre]
        if isinstance(t, M.Sequence):
            for i, c in enumerate(t):
                out += paths(c, pre + (i,))
        return out

    def rebuild(t, path, fn):
        if not path:
            return fn(t)
        items = list(t)
        res = rebuild(items[path[0]], path[1:], fn)
        if res is None:
            del items[path[0]]
        elif isinstance(res, tuple):
            items[path[0]:path[0] + 1] = list(res)
        else:
            items[path[0]] = res
        return type(t)(items)
    out = []
    i = 0
    while len(out) < n and forms:
        f = forms[i % len(forms)]
        i += 1
        ps = [p for p in paths(f) if p]
        if not ps:
            continue
        p = rng.choice(ps)
        kind = rng.choice(["drop", "dup", "atom", "unpack", "empty", "swap"])
        try:
            if kind == "drop":
                g = rebuild(f, p, lambda t: None)
            elif kind == "dup":
                g = rebuild(f, p, lambda t: (t, t))
            elif kind == "atom":
                a = rng.choice(atoms)
                g = rebuild(f, p, lambda t: a)
            elif kind == "unpack":
                s = rng.choice(["unpack-iterable", "unpack-mapping"])
                g = rebuild(f, p, lambda t: M.Expression([M.Symbol(s), t]))
            elif kind == "empty":
                g = rebuild(f, p, lambda t: type(t)([]) if isinstance(t, M.Sequence) else M.List([]))
            else:
                q = rng.choice(ps)
                if q[:len(p)] == p or p[:len(q)] == q:
                    continue
                a, b = f, f
                for k in p:
                    a = a[k]
                for k in q:
                    b = b[k]
                g = rebuild(rebuild(f, p, lambda t: b), q, lambda t: a)
            text = hy.repr(g)
            text = text[1:] if text.startswith("'") else text
        except BaseException:
            continue
        if any(("(" + h) in text for h in COMPILE_TIME_CODE) or "defmacro" in text or "require" in text or "import" in text:
            continue
        out.append(text)
    return out


def main(run):
    import hy
    import hy.core.macros
    import hy.core.result_macros as rm
    rng = random.Random(run.seed)
    q = run.quick
    heads = sorted(set(hy.unmangle(k) for k in list(rm._hy_macros) + list(hy.core.macros._hy_macros)) - COMPILE_TIME_CODE)
    # not macros, but heads with their own compilation paths: a plain call, method-call sugar, a dotted call,
    # a keyword call, a call of a literal
    heads += ["f", ".m", "o.m", ":k", "1", "[x]"]
    consts = {"Heads": set(heads), "MaxArgs": 2, "Mode": "gen", "AllowNested": False, "NestedArgs": 1}
    r = tlc.run("HyForms", tlc.cfg(constants=consts, invariants=["Export"]), run.work, workers=16,
                label="forms-gen", timeout=3000)
    if r.violated:
        raise MachineryError(f"HyForms: {r.violated}")
    run.add_tlc(r, f"HyForms generator: {len(heads)} core macro heads x every sequence of <= 2 atoms out of 51 kinds")
    rows = r.ex("FORM")
    sim = tlc.run("HyForms", tlc.cfg(constants=dict(consts, MaxArgs=5, AllowNested=True), invariants=["Export"]), run.work, workers=4,
                  simulate=f"num={3 if q else 40}", depth=6, seed=run.seed + 7, label="forms-sim", timeout=3000)
    # (in simulation mode TLC evaluates the invariant, and so exports, every successor of every state on the path)
    run.add_tlc(sim, "HyForms generator, random behaviours and all their one-step extensions: <= 5 arguments, nested forms")
    rows += sim.ex("FORM")
    texts = sorted({render(x) for x in rows})
    texts += mutate_corpus(rng, 6000 if q else 60000)
    run.log(f"{len(texts)} model trees")
    results = pmap(_one, texts, chunk=64)
    runs = []
    for i, (t, ev) in enumerate(zip(texts, results)):
        if ev is None:
            continue
        runs.append({"id": i, "events": [{k: v for k, v in e.items() if k != "msg"} for e in ev]})
    rf = run.work / "forms_runs.ndjson"
    rf.write_text("".join(json.dumps(x) + "\n" for x in runs))
    v = tlc.run("HyForms", tlc.cfg(constants=dict(consts, Mode="file"),
                                   invariants=["Verdicts", "InternalNeverAccepted", "DoneMeansAllStages", "MarshalNeverRejects"]),
                run.work, workers=1, label="forms-validate", env={"RUNS_FILE": str(rf)}, timeout=3000, heap="8g")
    if v.violated:
        raise MachineryError(f"HyForms: {v.violated} violated on the specification")
    run.add_tlc(v, f"HyForms pipeline: {len(runs)} recorded runs validated against the pipeline state machine")
    verdicts = {x["id"]: x["final"] for x in v.ex("VERDICT")}
    if len(verdicts) != len(runs):
        raise MachineryError(f"TLC gave {len(verdicts)} verdicts for {len(runs)} runs")
    stats = {"done": 0, "rejected": 0, "wrapped_internal": 0}
    fams = {}
    for i, (t, ev) in enumerate(zip(texts, results)):
        if ev is None:
            continue
        run.case(t)
        final = verdicts[i]
        if final in ("done", "rejected"):
            stats[final] += 1
            if final == "rejected" and ev[-1]["cls"] == "HyMacroExpansionError" and "Error" in ev[-1].get("msg", ""):
                stats["wrapped_internal"] += 1
            run.cov["traces_validated_against_impl"] += 1
            continue
        last = ev[-1]
        fam = f"{last['stage']} raised {last['cls']}: {last.get('msg', '')[:60]}"
        fams.setdefault(fam, []).append(t)
        run.violation(fam if False else t, f"{t}: {last['stage']} raised {last['cls']} ({last.get('msg', '')}); the pipeline may only "
                      f"end with a marshalled code object or a HyLanguageError / SyntaxError (spec state: {final})",
                      {"form": t, "events": ev, "family": fam})
    if fams:
        run.notes.append("violation families: " + json.dumps({k: [len(v), v[0]] for k, v in sorted(fams.items())}))
        for k, vs in sorted(fams.items(), key=lambda kv: -len(kv[1])):
            run.log(f"  family ({len(vs)}): {k}   e.g. {vs[0][:100]}")
    if stats["done"] == 0 or stats["rejected"] == 0:
        raise MachineryError(f"vacuous: {stats}")
    run.sample({"form": texts[len(texts) // 2]})
    return run.finish("model_checking",
                      f"model trees: every core macro head ({len(heads)}; those that run user code at compile time excluded) x "
                      "every sequence of <= 2 atoms of 51 kinds (symbols, keywords, literals, collections, odd dicts, unpackings, "
                      "clause forms, ...), random behaviours of the generator with <= 5 arguments including nested forms, and "
                      "mutations of the forms in tests/native_tests (drop / duplicate / swap / replace / unpack / empty a subform); "
                      "each is compiled by Hy, Python's compile() and marshal, the events are validated by TLC against the "
                      "pipeline state machine", extra=stats)
