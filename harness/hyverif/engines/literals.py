"""C22 (numeric literals / identifiers), C23 (string literals), C26 (model constructors)."""
import ast
import json
import random
import math

from .. import tlc
from ..core import MachineryError

NUM_ALPHA = ["0", "1", "9", "_", ",", ".", "e", "E", "j", "J", "+", "-", "x", "o", "b", "a", "f", "N", "I", "n"]
IDENT_LAWS = ["SeparatorsTransparent", "SignSymmetric", "LeadingSeparatorIsSymbol", "ClassesDisjoint"]


def strip_sep(s):
    return s[0] + s[1:].replace("_", "").replace(",", "") if len(s) > 1 else s


def cpython_accepts(s):
    """Would any of CPython's numeric constructors take the (separator-stripped) text?"""
    t = strip_sep(s)
    for f in (lambda x: int(x, 0) if not x.isdigit() else int(x), float, complex):
        try:
            f(t)
            return True
        except Exception:
            pass
    return False


def python_literal_type(s):
    """Type name if s is, by itself, a Python numeric literal token (unsigned)."""
    try:
        n = ast.parse(s, mode="eval").body
    except SyntaxError:
        return None
    if isinstance(n, ast.Constant) and type(n.value) in (int, float, complex):
        return type(n.value).__name__
    return None


def real_class(s):
    import hy
    from hy.reader.exceptions import LexException, PrematureEndOfInput
    import hy.models as M
    try:
        ms = list(hy.read_many(s))
    except PrematureEndOfInput:
        return "eof", None
    except LexException:
        return "lex", None
    except Exception as e:
        return "other:" + type(e).__name__, None
    if len(ms) != 1:
        return f"{len(ms)} forms", None
    m = ms[0]
    c = {M.Integer: "int", M.Float: "float", M.Complex: "complex", M.Symbol: "sym", M.Expression: "dotted"}.get(type(m), type(m).__name__)
    return c, m


def same_value(v, w):
    if isinstance(v, complex) or isinstance(w, complex):
        v, w = complex(v), complex(w)
        return same_value(v.real, w.real) and same_value(v.imag, w.imag)
    if isinstance(v, float) and isinstance(w, float):
        return (math.isnan(v) and math.isnan(w)) or (v == w and math.copysign(1, v) == math.copysign(1, w))
    return v == w


def py_value(cls, canon):
    if cls == "int":
        return int(canon, 0) if not canon.lstrip("+-").isdigit() else int(canon)
    if cls == "float":
        return float({"NaN": "nan", "Inf": "inf", "-Inf": "-inf"}.get(canon, canon))
    return complex(canon)


def check_rows(run, rows, where):
    n_open = 0
    for row in rows:
        s = "".join(row["s"])
        if not s:
            continue
        spec = row["c"]
        canon = "".join(row["canon"])
        cls, m = real_class(s)
        run.case(s, nontrivial=spec in ("int", "float", "complex", "dotted", "lex"))
        plt = python_literal_type(s)
        if plt is not None and spec != plt:
            raise MachineryError(f"spec classifies the Python {plt} literal {s!r} as {spec}")
        if spec in ("int", "float", "complex"):
            try:
                want = py_value(spec, canon)
            except Exception as e:
                raise MachineryError(f"spec says {s!r} is {spec} (canonical {canon!r}) but CPython rejects it: {e}")
            if cls != spec:
                run.violation("num:" + s, f"{s!r} should read as {spec} ({canon}), reads as {cls}", {"text": s})
            elif not same_value({"int": int, "float": float, "complex": complex}[spec](m), want):
                run.violation("num:" + s, f"{s!r} reads as {m!r}, Python's value of {canon!r} is {want!r}", {"text": s})
            else:
                run.cov["traces_validated_against_impl"] += 1
        else:
            parts = [p_ for p_ in s.lstrip(".").split(".") if p_] if "." in s else []
            if cpython_accepts(s) or any(ord(c) > 127 for c in s) or any(cpython_accepts(p_) for p_ in parts):
                n_open += 1          # not decided by the documentation
                continue
            if cls != spec:
                run.violation("ident:" + s, f"{s!r} is not a number by the documented rules and should read as "
                              f"{spec}; reads as {cls}", {"text": s})
            else:
                run.cov["traces_validated_against_impl"] += 1
    run.cov[f"open_texts_{where}"] = n_open


def random_numbers(rng, n):
    out = []
    digs = lambda k, alpha="0123456789": "".join(rng.choice(alpha) for _ in range(rng.randint(1, k)))
    for _ in range(n):
        kind = rng.random()
        if kind < 0.25:
            t = rng.choice([digs(6), "0x" + digs(4, "0123456789abcdefABCDEF"), "0o" + digs(4, "01234567"),
                            "0b" + digs(6, "01"), "0X" + digs(3, "0123456789abcdef"), "00" + digs(3)])
        elif kind < 0.6:
            t = rng.choice([digs(3) + "." + digs(3), "." + digs(3), digs(3) + ".", digs(2) + "e" + rng.choice(["", "+", "-"]) + digs(2),
                            digs(2) + "." + digs(2) + "E" + digs(1)])
        elif kind < 0.8:
            t = rng.choice([digs(2) + "j", digs(2) + "." + digs(1) + "J", digs(1) + "e" + digs(1) + "j"])
        else:
            t = digs(2) + rng.choice("+-") + digs(2) + rng.choice([".5", ""]) + "j"
        if rng.random() < 0.3:
            t = rng.choice("+-") + t
        # documented separator freedom
        for _ in range(rng.randint(0, 3)):
            i = rng.randint(1, len(t))
            t = t[:i] + rng.choice(["_", ",", "__", ",_"]) + t[i:]
        out.append(t)
        if rng.random() < 0.3:      # near misses
            i = rng.randrange(len(t))
            out.append(t[:i] + rng.choice("ejxob.+-_,9aN") + t[i + 1:])
    return out


def main_c22(run):
    rng = random.Random(run.seed)
    q = run.quick
    L = 4 if q else 5
    r = tlc.run("HyReaderIdent", tlc.cfg(constants={"MaxLen": L, "Mode": "enum"}, invariants=IDENT_LAWS + ["Export"]),
                run.work, workers=16, timeout=3400, heap="16g", label="enum",
                defs={"Alphabet": tlc.tla(set(NUM_ALPHA))})
    if r.violated:
        raise MachineryError(f"HyReaderIdent: law {r.violated} fails on the specification")
    run.add_tlc(r, f"HyReaderIdent: all texts <= {L} over {len(NUM_ALPHA)} number characters")
    rows = r.ex("ROW")
    run.log(f"{len(rows)} texts classified by TLC")
    check_rows(run, rows, "enum")
    texts = random_numbers(rng, 3000 if q else 200000)
    tf = run.work / "nums.ndjson"
    with open(tf, "w") as f:
        for t in texts:
            f.write(json.dumps({"s": list(t)}) + "\n")
    r = tlc.run("HyReaderIdent", tlc.cfg(constants={"MaxLen": 0, "Mode": "file"}, invariants=IDENT_LAWS + ["Export"]),
                run.work, workers=16, timeout=3400, env={"TEXT_FILE": str(tf)}, label="file", defs={"Alphabet": "{}"})
    if r.violated:
        raise MachineryError(f"HyReaderIdent: law {r.violated} fails on the specification (generated literals)")
    run.add_tlc(r, f"HyReaderIdent: {len(texts)} generated literals / near misses")
    check_rows(run, r.ex("ROW"), "generated")
    ex = [row for row in rows if row["c"] in ("float", "complex")][:2]
    for row in ex:
        run.sample({"text": "".join(row["s"]), "class": row["c"], "canonical": "".join(row["canon"])})
    run.sample({"text": texts[0]})
    return run.finish("model_checking",
                      "every text <= %d characters over 20 number-relevant characters (digits, separators, . e j + - radix "
                      "letters, NaN/Inf letters) classified by TLC (MUST int/float/complex with canonical text, MUST "
                      "symbol/dotted/lex, or open when only CPython's constructors would accept it) and read by the real "
                      "reader: type and value vs CPython's evaluation; every Python literal among them must be numeric; plus "
                      "generated long literals with separators and near misses" % L,
                      assumptions=["CPython's int/float/complex and its tokenizer are the reference for values and for "
                                   "what a Python literal is"], extra={"exhaustive": True})


def main(run):
    return {"C22": main_c22}[run.pid](run)


def replay(run, path):
    d = json.load(open(path))["replay"]
    print(repr(d["text"]), "->", real_class(d["text"]))
    return 1
