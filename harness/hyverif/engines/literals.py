"""C22 (numeric literals / identifiers), C23 (string literals), C26 (model constructors)."""
import ast
import json
import random
import math

from .. import tlc
from ..core import MachineryError

NUM_ALPHA = ["0", "1", "9", "_", ",", ".", "e", "E", "j", "J", "+", "-", "x", "o", "b", "a", "f", "N", "I", "n"]
IDENT_LAWS = ["SeparatorsTransparent", "SignSymmetric", "LeadingSeparatorIsSymbol", "ClassesDisjoint"]


def strip_sep(s):
    return s[0] + s[1:].replace("_", "").replace(",", "") if len(s) > 1 else s


def cpython_accepts(s):
    """Would any of CPython's numeric constructors take the (separator-stripped) text?"""
    t = strip_sep(s)
    for f in (lambda x: int(x, 0) if not x.isdigit() else int(x), float, complex):
        try:
            f(t)
            return True
        except Exception:
            pass
    return False


def python_literal_type(s):
    """Type name if s is, by itself, a Python numeric literal token (unsigned)."""
    try:
        n = ast.parse(s, mode="eval").body
    except SyntaxError:
        return None
    if isinstance(n, ast.Constant) and type(n.value) in (int, float, complex):
        return type(n.value).__name__
    return None


def real_class(s):
    import hy
    from hy.reader.exceptions import LexException, PrematureEndOfInput
    import hy.models as M
    try:
        ms = list(hy.read_many(s))
    except PrematureEndOfInput:
        return "eof", None
    except LexException:
        return "lex", None
    except Exception as e:
        return "other:" + type(e).__name__, None
    if len(ms) != 1:
        return f"{len(ms)} forms", None
    m = ms[0]
    c = {M.Integer: "int", M.Float: "float", M.Complex: "complex", M.Symbol: "sym", M.Expression: "dotted"}.get(type(m), type(m).__name__)
    return c, m


def same_value(v, w):
    if isinstance(v, complex) or isinstance(w, complex):
        v, w = complex(v), complex(w)
        return same_value(v.real, w.real) and same_value(v.imag, w.imag)
    if isinstance(v, float) and isinstance(w, float):
        return (math.isnan(v) and math.isnan(w)) or (v == w and math.copysign(1, v) == math.copysign(1, w))
    return v == w


def py_value(cls, canon):
    if cls == "int":
        return int(canon, 0) if not canon.lstrip("+-").isdigit() else int(canon)
    if cls == "float":
        return float({"NaN": "nan", "Inf": "inf", "-Inf": "-inf"}.get(canon, canon))
    return complex(canon)


def check_rows(run, rows, where):
    n_open = 0
    for row in rows:
        s = "".join(row["s"])
        if not s:
            continue
        spec = row["c"]
        canon = "".join(row["canon"])
        cls, m = real_class(s)
        run.case(s, nontrivial=spec in ("int", "float", "complex", "dotted", "lex"))
        plt = python_literal_type(s)
        if plt is not None and spec != plt:
            raise MachineryError(f"spec classifies the Python {plt} literal {s!r} as {spec}")
        if spec in ("int", "float", "complex"):
            try:
                want = py_value(spec, canon)
            except Exception as e:
                raise MachineryError(f"spec says {s!r} is {spec} (canonical {canon!r}) but CPython rejects it: {e}")
            if cls != spec:
                run.violation("num:" + s, f"{s!r} should read as {spec} ({canon}), reads as {cls}", {"text": s})
            elif not same_value({"int": int, "float": float, "complex": complex}[spec](m), want):
                run.violation("num:" + s, f"{s!r} reads as {m!r}, Python's value of {canon!r} is {want!r}", {"text": s})
            else:
                run.cov["traces_validated_against_impl"] += 1
        else:
            parts = [p_ for p_ in s.lstrip(".").split(".") if p_] if "." in s else []
            # NaN / Inf are words, not digit strings: with a separator inside they are ordinary symbols
            # (a separator after the complete word, as in NaN_, is not decided by the documentation)
            word_with_sep = (("_" in s or "," in s) and strip_sep(s).lstrip("+-").lower() in ("nan", "inf", "infinity")
                             and "NaN" not in s and "Inf" not in s)
            if not word_with_sep and (cpython_accepts(s) or any(ord(c) > 127 for c in s) or any(cpython_accepts(p_) for p_ in parts)):
                n_open += 1          # not decided by the documentation
                continue
            if cls != spec:
                run.violation("ident:" + s, f"{s!r} is not a number by the documented rules and should read as "
                              f"{spec}; reads as {cls}", {"text": s})
            else:
                run.cov["traces_validated_against_impl"] += 1
    run.cov[f"open_texts_{where}"] = n_open


def compound_numbers():
    """every real part x sign x imaginary part, with exponents (signed or not) and the special spellings"""
    reals = ["1", "1.5", "1e5", "1e-5", "1e+5", "1E-5", "-1e-5", "+1e+5", ".5e-1", "1_0e+1_0", "NaN", "Inf", "-Inf", "nan", "1e"]
    imags = ["2j", "2J", "NaNj", "Infj", "nanj", "infj", "INFj", "Infinityj", "1e-3j", "1e+3J", "NaNJ", ".5j", "1e-j", "NaN"]
    out = []
    for r_ in reals:
        for sg in "+-":
            for i_ in imags:
                out.append(r_ + sg + i_)
    return out + [x + "j" for x in reals] + reals


def random_numbers(rng, n):
    out = compound_numbers()
    digs = lambda k, alpha="0123456789": "".join(rng.choice(alpha) for _ in range(rng.randint(1, k)))
    for _ in range(n):
        kind = rng.random()
        if kind < 0.25:
            t = rng.choice([digs(6), "0x" + digs(4, "0123456789abcdefABCDEF"), "0o" + digs(4, "01234567"),
                            "0b" + digs(6, "01"), "0X" + digs(3, "0123456789abcdef"), "00" + digs(3)])
        elif kind < 0.6:
            t = rng.choice([digs(3) + "." + digs(3), "." + digs(3), digs(3) + ".", digs(2) + "e" + rng.choice(["", "+", "-"]) + digs(2),
                            digs(2) + "." + digs(2) + "E" + digs(1)])
        elif kind < 0.8:
            t = rng.choice([digs(2) + "j", digs(2) + "." + digs(1) + "J", digs(1) + "e" + digs(1) + "j"])
        else:
            t = digs(2) + rng.choice("+-") + digs(2) + rng.choice([".5", ""]) + "j"
        if rng.random() < 0.3:
            t = rng.choice("+-") + t
        # documented separator freedom
        for _ in range(rng.randint(0, 3)):
            i = rng.randint(1, len(t))
            t = t[:i] + rng.choice(["_", ",", "__", ",_"]) + t[i:]
        out.append(t)
        if rng.random() < 0.3:      # near misses
            i = rng.randrange(len(t))
            out.append(t[:i] + rng.choice("ejxob.+-_,9aN") + t[i + 1:])
    return out


def main_c22(run):
    rng = random.Random(run.seed)
    q = run.quick
    L = 4 if q else 5
    r = tlc.run("HyReaderIdent", tlc.cfg(constants={"MaxLen": L, "Mode": "enum"}, invariants=IDENT_LAWS + ["Export"]),
                run.work, workers=16, timeout=3400, heap="16g", label="enum",
                defs={"Alphabet": tlc.tla(set(NUM_ALPHA))})
    if r.violated:
        raise MachineryError(f"HyReaderIdent: law {r.violated} fails on the specification")
    run.add_tlc(r, f"HyReaderIdent: all texts <= {L} over {len(NUM_ALPHA)} number characters")
    rows = r.ex("ROW")
    run.log(f"{len(rows)} texts classified by TLC")
    check_rows(run, rows, "enum")
    texts = random_numbers(rng, 3000 if q else 200000)
    tf = run.work / "nums.ndjson"
    with open(tf, "w") as f:
        for t in texts:
            f.write(json.dumps({"s": list(t)}) + "\n")
    r = tlc.run("HyReaderIdent", tlc.cfg(constants={"MaxLen": 0, "Mode": "file"}, invariants=IDENT_LAWS + ["Export"]),
                run.work, workers=16, timeout=3400, env={"TEXT_FILE": str(tf)}, label="file", defs={"Alphabet": "{}"})
    if r.violated:
        raise MachineryError(f"HyReaderIdent: law {r.violated} fails on the specification (generated literals)")
    run.add_tlc(r, f"HyReaderIdent: {len(texts)} generated literals / near misses")
    check_rows(run, r.ex("ROW"), "generated")
    # Where the documentation leaves a compound a+bj with a NaN / Inf word open (CPython's constructor ignores
    # case, Hy's words are case-sensitive), one thing is still decided: the case rule is about the word, so the
    # class of the compound cannot depend on how an ordinary real part is spelled (exponent, its sign, separators)
    plain_reals = ["1", "1.5", "1e5", "1e-5", "1e+5", "1E-5", "1_0e+1_0", ".5e-1", "15e-1_0"]
    words = ["NaNj", "Infj", "nanj", "infj", "INFj", "Infinityj", "NaNJ", "InfJ", "2j", "nAnj"]
    nmeta = 0
    for sg in "+-":
        for w_ in words:
            classes = {r_: real_class(r_ + sg + w_)[0] for r_ in plain_reals}
            nmeta += 1
            run.case(("compound", sg + w_))
            # (what a non-number then is -- a symbol, a dotted form, an error -- does depend on the dots in it)
            if len({c == "complex" for c in classes.values()}) > 1:
                run.violation("compound:" + sg + w_, f"whether <real part>{sg}{w_} is a complex number depends on the spelling of the real part: {classes}",
                              {"text": sg + w_, "classes": classes})
            else:
                run.cov["traces_validated_against_impl"] += 1
    run.cov["compound_word_groups"] = nmeta
    ex = [row for row in rows if row["c"] in ("float", "complex")][:2]
    for row in ex:
        run.sample({"text": "".join(row["s"]), "class": row["c"], "canonical": "".join(row["canon"])})
    run.sample({"text": texts[0]})
    return run.finish("model_checking",
                      "every text <= %d characters over 20 number-relevant characters (digits, separators, . e j + - radix "
                      "letters, NaN/Inf letters) classified by TLC (MUST int/float/complex with canonical text, MUST "
                      "symbol/dotted/lex, or open when only CPython's constructors would accept it) and read by the real "
                      "reader: type and value vs CPython's evaluation; every Python literal among them must be numeric; plus "
                      "generated long literals with separators and near misses, and compounds a+bj of every real-part spelling with "
                      "every NaN / Inf word spelling (class independent of the real part's spelling)" % L,
                      assumptions=["CPython's int/float/complex and its tokenizer are the reference for values and for "
                                   "what a Python literal is"], extra={"exhaustive": True})


# ---------------------------------------------------------------- C23
STR_ALPHA = ["\"", "\\", "a", "n", "x", "0", "1", "8", "N", "{", "}", "\r", "\n", "é", "u", " ", "'"]
PREFIXES = ["", "r", "b", "br", "rb"]
BR_ALPHA = ["[", "]", "a", "\n", "\r", "d", "=", "\""]


def python_literal(prefix, body):
    """Value of the equivalent Python literal, or ('error', msg).  Unrecognised escapes are
    warnings in Python: reported as ('badescape',)."""
    import warnings
    src_body = body.replace("\r\n", "\n").replace("\r", "\n")
    for q in ('"""', "\'\'\'"):
        if q in src_body or src_body.endswith(q[0]):
            continue
        src = prefix + q + src_body + q
        break
    else:
        return ("skip",)
    with warnings.catch_warnings():
        warnings.simplefilter("error")
        try:
            return ("ok", ast.literal_eval(src))
        except SyntaxWarning:
            return ("badescape",)
        except DeprecationWarning:
            return ("badescape",)
        except SyntaxError as e:
            if "invalid escape" in str(e):
                return ("badescape",)
            return ("error", str(e))
        except ValueError as e:
            return ("error", str(e))


def main_c23(run):
    from .reader import enum_bind, read_models
    from ..readerlib import decode_body
    rng = random.Random(run.seed)
    q = run.quick
    L = 2 if q else 4
    total = 0
    for pre in PREFIXES:
        rows, real = enum_bind(run, L + 1, STR_ALPHA, list(pre) + ["\""], f"str-{pre or 'plain'}")
        for t, row in rows.items():
            st, val = real[t]
            body = None
            if t.endswith("\"") and len(t) > len(pre) + 1:
                body = t[len(pre) + 1:-1]
            run.case(t, nontrivial=body is not None)
            total += 1
            spec = row["st"]
            if st.startswith("other"):
                run.violation("str:" + t, f"reading {t!r} raised {st}", {"text": t})
                continue
            if spec == "ok" or spec == "unk":
                # complete literal: the reference is the equivalent Python literal
                if spec == "ok" and (len(row["ch"]) != 1 or row["ch"][0]["t"] not in ("str", "bytes")):
                    continue      # closing quote came early; the rest is other forms (e.g. "a"a)
                if spec == "ok":
                    sb = "".join(row["ch"][0]["v"])
                    py = python_literal(pre, sb)
                else:
                    if body is None:
                        continue
                    # (an unescaped quote inside: the text is several forms, not one literal)
                    i_, bare = 0, False
                    while i_ < len(body):
                        if body[i_] == "\\":
                            i_ += 2
                            continue
                        if body[i_] == "\"":
                            bare = True
                            break
                        i_ += 1
                    if bare:
                        continue
                    py = python_literal(pre, body)
                if py[0] == "skip":
                    continue
                if py[0] == "ok":
                    if st != "ok" or len(val) != 1:
                        run.violation("str:" + t, f"{t!r}: Python reads the equivalent literal as {py[1]!r}, Hy: {st}",
                                      {"text": t})
                        continue
                    got = val[0]["v"][1]
                    want = py[1].decode("latin-1") if isinstance(py[1], bytes) else py[1]
                    if got != want or (val[0]["t"] == "bytes") != isinstance(py[1], bytes):
                        run.violation("str:" + t, f"{t!r} reads as {got!r}, the Python literal is {want!r}", {"text": t})
                    else:
                        run.cov["traces_validated_against_impl"] += 1
                elif py[0] == "badescape" or py[0] == "error":
                    if spec == "ok" and py[0] == "error":
                        raise MachineryError(f"spec accepts {t!r} but Python rejects the literal: {py[1]}")
                    if st == "ok":
                        run.violation("str:" + t, f"{t!r} has an escape Python does not recognise ({py}) but Hy reads it",
                                      {"text": t})
                    else:
                        run.cov["traces_validated_against_impl"] += 1
            elif spec == "lex":
                if st != "lex":
                    run.violation("str:" + t, f"{t!r}: unrecognised escape / bad literal must be a LexException, got {st}",
                                  {"text": t})
                else:
                    run.cov["traces_validated_against_impl"] += 1
    # longer bodies (numeric / named escapes, line continuations): spec verdict via TLC's file mode
    from .reader import file_validate
    pieces = ["\\x41", "\\x4", "\\xg1", "\\101", "\\18", "\\0", "\\N{BULLET}", "\\N{EN DASH}", "\\N{dash}", "\\N{NOPE}", "\\N{",
              "\\u00e9", "\\u00e", "\\U0001F600", "\\U00110000", "\\\n", "\\\r\n", "é", "\\'", "\\\"", "\\\\", "{", "}",
              "a", " ", "\n", "\r", "\r\n", "\\a\\b\\f\\n\\r\\t\\v", "\\q", "\\z", "\\8", "\\N", "\\u", "\\U", "\\x"]
    texts = []
    for pre in PREFIXES:
        for a in pieces:
            texts.append(pre + '"' + a + '"')
        for _ in range(150 if q else 5000):
            texts.append(pre + '"' + "".join(rng.choice(pieces) for _ in range(rng.randint(2, 4))) + '"')
    recs, acc, unk, says = file_validate(run, texts, "longer")
    for i, rc in enumerate(recs, 1):
        t = "".join(rc["text"])
        pre = t[:t.index('"')]
        body = t[len(pre) + 1:-1]
        spec = says[i]["st"]
        run.case(t)
        if spec == "ok" and not (len(says[i]["ch"]) == 1 and says[i]["ch"][0]["ix"] == [1, len(t)]):
            continue        # an unescaped quote inside: several forms, not one literal
        if spec == "eof":
            continue
        py = python_literal(pre, body)
        st, val = rc["_real"], rc["_models"]
        if py[0] == "skip":
            continue
        if py[0] == "ok":
            if spec == "lex":
                raise MachineryError(f"spec rejects {t!r} but Python reads the literal as {py[1]!r}")
            want = py[1].decode("latin-1") if isinstance(py[1], bytes) else py[1]
            if st != "ok" or len(val) != 1 or val[0]["v"][1] != want:
                run.violation("str:" + t, f"{t!r}: the Python literal is {want!r}, Hy gives {st} "
                              f"{val[0]['v'][1] if st == 'ok' and val else ''!r}", {"text": t})
            else:
                run.cov["traces_validated_against_impl"] += 1
        else:
            if spec == "ok":
                raise MachineryError(f"spec accepts {t!r} but Python says {py}")
            if st != "lex":
                run.violation("str:" + t, f"{t!r}: not a valid Python literal ({py[0]}) but Hy gives {st}", {"text": t})
            else:
                run.cov["traces_validated_against_impl"] += 1
    run.cov["longer_literals"] = len(texts)
    # bracket strings
    rows, real = enum_bind(run, 5 if q else 6, BR_ALPHA, ["#", "["], "bracket")
    nbr = 0
    for t, row in rows.items():
        st, val = real[t]
        run.case(t, nontrivial=row["st"] == "ok")
        if row["st"] != "ok" or len(row["ch"]) != 1 or row["ch"][0]["t"] != "str" or row["ch"][0]["ix"] != [1, len(t)]:
            continue
        nbr += 1
        content = "".join(row["ch"][0]["v"]).replace("\r\n", "\n").replace("\r", "\n")
        delim = "".join(row["ch"][0]["x"][1:])
        # independent reading of the text: #[delim[ content ]delim] with one leading newline removed
        inner = t[2 + len(delim) + 1: len(t) - len(delim) - 2]
        for nl in ("\r\n", "\n", "\r"):
            if inner.startswith(nl):
                inner = inner[len(nl):]
                break
        verbatim = inner.replace("\r\n", "\n").replace("\r", "\n")
        if verbatim != content:
            raise MachineryError(f"spec content {content!r} differs from the verbatim content {verbatim!r} of {t!r}")
        if st != "ok" or len(val) != 1 or val[0]["v"][1] != content or "".join(val[0]["x"][1:]) != delim:
            run.violation("bracket:" + t, f"{t!r} should read as {content!r} (delimiter {delim!r}); got {st} "
                          f"{val[0]['v'] if st == 'ok' and val else ''}", {"text": t})
        else:
            run.cov["traces_validated_against_impl"] += 1
    # longer delimiters, with content that holds beginnings of the closing delimiter: built so that the text is
    # #[D[ content ]D] with no earlier closing; the spec (TLC file mode) and the reader must both read `content`
    import itertools
    br_pieces = ["]", "a", "b", "]a", "]a]", "]ab", "=", "x", "]]", "\n", "[", "a]"]
    btexts = {}
    for delim in ("", "a", "ab", "aa", "aba", "=="):
        close = "]" + delim + "]"
        combos = list(itertools.product(br_pieces, repeat=2)) + [(a,) for a in br_pieces]
        combos += [tuple(rng.choice(br_pieces) for _ in range(rng.randint(3, 5))) for _ in range(60 if q else 1500)]
        for c in combos:
            content = "".join(c)
            if (content + close).index(close) != len(content):
                continue        # the content itself closes the string earlier
            btexts["#[" + delim + "[" + content + close] = (delim, content[1:] if content.startswith("\n") else content)
    recs, acc, unk, says = file_validate(run, list(btexts), "bracket-long")
    for i, rc in enumerate(recs, 1):
        t = "".join(rc["text"])
        delim, content = btexts[t]
        run.case(t)
        nbr += 1
        sp = says[i]
        if sp["st"] != "ok" or len(sp["ch"]) != 1 or "".join(sp["ch"][0]["v"]) != content or "".join(sp["ch"][0]["x"][1:]) != delim:
            raise MachineryError(f"the specification does not read {t!r} as the bracket string {content!r} / {delim!r}: {sp}")
        st, val = rc["_real"], rc["_models"]
        if st != "ok" or len(val) != 1 or val[0]["t"] != "str" or val[0]["v"][1] != content or "".join(val[0]["x"][1:]) != delim:
            run.violation("bracket:" + t, f"{t!r} should read as {content!r} (delimiter {delim!r}); got {st} "
                          f"{[(m['t'], m['v']) for m in val] if st == 'ok' else ''}", {"text": t})
        else:
            run.cov["traces_validated_against_impl"] += 1
    run.cov["bracket_strings"] = nbr
    run.sample({"text": 'b"\\x41\\n"', "python": repr(python_literal("b", "\\x41\\n"))})
    run.sample({"text": "#[d[a]]d]", "content": "a]"})
    return run.finish("model_checking",
                      "every double-quoted literal with prefix '', r, b, br, rb and body <= %d characters over 17 body "
                      "characters (quote, backslash, escape letters, digits, N{}, CR, LF, non-ASCII), and every bracket-string "
                      "text <= %d characters, enumerated by TLC with the reader spec's verdict; value compared with the "
                      "equivalent Python literal (CPython decides escapes and \\N / \\U cases), invalid escapes must be "
                      "LexException, bracket content verbatim minus one leading newline" % (L, 5 if q else 6),
                      assumptions=["CPython's literal evaluation (ast.literal_eval, warnings as errors) is the reference"],
                      extra={"exhaustive": True})


# ---------------------------------------------------------------- C26
def main_c26(run):
    import hy
    from hy.models import Symbol, Keyword, String
    from .reader import gather, read_models
    rng = random.Random(run.seed)
    q = run.quick
    rows, real, dis = gather(run, q)
    L = 3 if q else 4

    def ctor_ok(f, *a, **k):
        try:
            f(*a, **k)
            return True
        except ValueError:
            return False
        except Exception as e:
            return "raised " + type(e).__name__

    def reads_as(text, t, v):
        st, ms = real[text] if text in real else read_models(text)
        return st == "ok" and len(ms) == 1 and ms[0]["t"] == t and "".join(ms[0]["v"]) == v

    nsym = nkw = 0
    for t, row in rows.items():
        if not t or len(t) > L:
            continue
        # Symbol(t)  <=>  reading t yields exactly that symbol
        want = reads_as(t, "sym", t)
        got = ctor_ok(Symbol, t)
        run.case(("sym", t), nontrivial=want)
        nsym += 1
        if got is not want:
            run.violation("Symbol:" + t, f"Symbol({t!r}) {'succeeds' if got is True else 'fails' if got is False else got} "
                          f"but reading {t!r} {'yields' if want else 'does not yield'} that symbol", {"text": t})
        elif row["st"] != "unk":
            spec = row["st"] == "ok" and len(row["ch"]) == 1 and row["ch"][0]["t"] == "sym" and "".join(row["ch"][0]["v"]) == t
            if spec == want:
                run.cov["traces_validated_against_impl"] += 1
        # Keyword(t)  <=>  reading ":" + t yields exactly that keyword
        kt = ":" + t
        want = reads_as(kt, "kw", t)
        got = ctor_ok(Keyword, t)
        nkw += 1
        run.case(("kw", t), nontrivial=want)
        if got is not want:
            run.violation("Keyword:" + t, f"Keyword({t!r}) {'succeeds' if got is True else 'fails' if got is False else got} "
                          f"but reading {kt!r} {'yields' if want else 'does not yield'} that keyword", {"text": t})
    # String(s, brackets=d)  <=>  #[d[s]d] reads back as s
    import itertools
    nbr = 0
    balpha = ["]", "[", "a", "=", "\n", "\r", " ", "\""]
    for d in ("", "a", "==", "f", "f-x"):
        for n in range(0, 4 if q else 5):
            for tup in itertools.product(balpha, repeat=n):
                s_ = "".join(tup)
                text = "#[" + d + "[" + s_ + "]" + d + "]"
                st, ms = read_models(text)
                want = st == "ok" and len(ms) == 1 and ms[0]["t"] == "str" and ms[0]["v"][1] == s_ \
                    and "".join(ms[0]["x"][1:]) == d
                if d.startswith("f"):
                    continue       # f- delimiters make f-strings, not String models
                got = ctor_ok(String, s_, brackets=d)
                nbr += 1
                run.case(("br", d, s_), nontrivial=want)
                if got is not want:
                    key = "String:leading-newline-or-CR" if (s_[:1] in "\r\n" or "\r" in s_) and got is True else \
                        f"String:{d}:{s_}"
                    run.violation(key, f"String({s_!r}, brackets={d!r}) "
                                  f"{'succeeds' if got is True else 'fails' if got is False else got} but {text!r} "
                                  f"{'reads' if want else 'does not read'} back as that string", {"text": text})
    run.cov["symbol_cases"] = nsym
    run.cov["keyword_cases"] = nkw
    run.cov["bracket_cases"] = nbr
    run.sample({"Symbol": "a.b", "constructor": str(ctor_ok(Symbol, "a.b")), "reads_as_symbol": reads_as("a.b", "sym", "a.b")})
    run.sample({"String": "a]", "brackets": "", "text": "#[[a]]]"})
    return run.finish("model_checking",
                      "every string <= %d characters over the reader alphabet (delimiters, whitespace, digits, dots, quote "
                      "characters) as Symbol(s) and Keyword(s), and every (delimiter, content <= %d) pair as a bracket "
                      "String: constructor success compared with the real reader's result on the corresponding text, which "
                      "is itself bound to the TLC-enumerated reader spec" % (L, 3 if q else 4),
                      extra={"exhaustive": True})


# ---------------------------------------------------------------- C24
class Formatted:
    """format(), str(), repr() and ascii() of this object all differ: which of them a field uses is visible"""
    def __format__(self, spec):
        return "F[" + spec + "]"

    def __str__(self):
        return "Sé"

    def __repr__(self):
        return "Ré"


FVARS = {"x": 5, "y": "ab", "z": 3.14159, "w": 8, "n": None, "lst": [1, 2], "neg": -7, "obj": Formatted()}
# (hy source, python source) of field expressions
FEXPR = [("x", "x"), ("y", "y"), ("z", "z"), ("n", "n"), ("lst", "lst"), ("neg", "neg"), ("obj", "obj"), ("(+ x 1)", "(x + 1)"),
         ("(get lst 0)", "lst[0]"), ('"q"', '"q"'), ("(.upper y)", "y.upper()"), ("[x y]", "[x, y]")]
FLIT = [("a", "a"), (" ", " "), ("{{", "{{"), ("}}", "}}"), ("\\N{BULLET}", "\\N{BULLET}"), ("\\N{NO SUCH NAME}", "\\N{NO SUCH NAME}"), ("\\n", "\\n"), ("é", "é"),
        ("\\x41", "\\x41"), (":", ":"), ("!", "!"), ("=", "="), ("\\\\", "\\\\")]
FSPEC = ["", ">5", "^8", "<6", ".2f", "03d", "+", "x", "s", ">{w}", "{w}", "0{w}", "^{w}.{x}", "{w}{w}", "é>4", ","]


def gen_fstring(rng, depth=0):
    """returns (hy text inside the quotes, python text inside the quotes, well-formed?)"""
    hy_, py_ = [], []
    good = True
    for _ in range(rng.randint(1, 4)):
        r = rng.random()
        if r < 0.4:
            a, b = rng.choice(FLIT)
            hy_.append(a)
            py_.append(b)
            continue
        he, pe = rng.choice(FEXPR)
        dbg = rng.random() < 0.15 and he.isalpha()
        conv = rng.choice(["", "", "!r", "!s", "!a"])
        spec = rng.choice(FSPEC) if rng.random() < 0.5 else None
        if spec is not None and "{" in spec and depth >= 1:
            spec = ">5"
        mal = rng.random() < 0.12
        if mal:
            good = False
            kind = rng.choice(["conv", "empty", "junk", "brace", "convempty"])
            if kind == "conv":
                hy_.append("{" + he + " !z}")
                py_.append("{" + pe + "!z}")
            elif kind == "empty":
                hy_.append("{}")
                py_.append("{}")
            elif kind == "junk":
                hy_.append("{x y}")
                py_.append("{x y}")
            elif kind == "brace":
                hy_.append("}")
                py_.append("}")
            else:
                hy_.append("{" + he + " !}")
                py_.append("{" + pe + "!}")
            continue
        h = "{" + he + (" = " if dbg else "") + (((("" if dbg else " ") + conv)) if conv else "") + \
            (((" " if conv or not dbg else "") + ":" + spec) if spec is not None else "") + "}"
        p_ = "{" + pe + (" = " if dbg else "") + conv + ((":" + spec) if spec is not None else "") + "}"
        hy_.append(h)
        py_.append(p_)
    return "".join(hy_), "".join(py_), good


def main_c24(run):
    import hy
    from hy.errors import HyLanguageError
    from .reader import enum_bind, file_validate, FALPHA
    rng = random.Random(run.seed)
    q = run.quick
    # the reader's f-string machinery against the spec: all short field texts
    rows, real = enum_bind(run, 4 if q else 5, FALPHA, ["f", "\"", "{"], "fields")
    ndis = 0
    from ..readerlib import same
    for t, row in rows.items():
        st, val = real[t]
        run.case(t, nontrivial=row["st"] == "ok")
        if row["st"] == "unk":
            continue
        if st != row["st"]:
            ndis += 1
            if row["st"] in ("lex", "eof") and st == "ok":
                run.violation("field:" + t, f"malformed f-string {t!r} is read without error", {"text": t})
            continue
        if st == "ok" and not any(same(a, b, t) for a, b in zip(row["ch"], val)):
            run.cov["traces_validated_against_impl"] += 1
    run.cov["spec_disagreements"] = ndis
    # evaluation against the equivalent Python f-string
    cases = []
    # every combination of expression kind x "=" debugging x conversion x format spec, one field each
    # (the last four are spelled the same in both languages, so their = debugging text can be compared too)
    for he, pe in (("x", "x"), ("y", "y"), ("lst", "lst"), ("obj", "obj"), ("(+ x 1)", "(x + 1)"), ('f"<{x}>"', 'f"<{x}>"'),
                   ('f"{x}{y !r}"', 'f"{x}{y !r}"'), ("x.real", "x.real"), ("[x]", "[x]")):
        for dbg in (False, True):
            if dbg and he != pe:
                continue
            for conv in ("", "!r", "!s", "!a"):
                for spec in (None, "", ">5", "s", "{w}", "03d"):
                    h = "{" + he + (" = " if dbg else "") + (((("" if dbg else " ") + conv)) if conv else "") + \
                        (((" " if conv or not dbg else "") + ":" + spec) if spec is not None else "") + "}"
                    p_ = "{" + pe + (" = " if dbg else "") + conv + ((":" + spec) if spec is not None else "") + "}"
                    cases.append((h, p_, True))
                    cases.append(("a" + h + "b", "a" + p_ + "b", True))
    # every pair (and, around a named escape, every triple) of literal-text pieces side by side, alone and
    # next to a field: the reader's state between pieces (\\N{...}, doubled braces, backslashes)
    for a in FLIT:
        for b in FLIT:
            cases.append((a[0] + b[0], a[1] + b[1], True))
            cases.append(("{x}" + a[0] + b[0], "{x}" + a[1] + b[1], True))
            if "N{" in a[0] or "N{" in b[0]:
                for c in FLIT:
                    cases.append((a[0] + b[0] + c[0], a[1] + b[1] + c[1], True))
    for a in FLIT:
        cases.append((a[0] + "}", a[1] + "}", False))       # a stray closing brace after each piece
    for _ in range(1500 if q else 60000):
        h, p_, good = gen_fstring(rng)
        cases.append((h, p_, good))
    recs, acc, unk, says = file_validate(run, ['f"' + c[0] + '"' for c in cases], "fstrings")
    nval = 0
    for i, (h, p_, good) in enumerate(cases, 1):
        htext = 'f"' + h + '"'
        ptext = 'f"' + p_ + '"'
        run.case(htext)
        try:
            want = ("ok", eval(ptext, dict(FVARS)))
        except SyntaxError:
            want = ("syntax",)
        except Exception as e:
            want = ("exc", type(e).__name__)
        try:
            got = ("ok", hy.eval(hy.read(htext), dict(FVARS)))
        except (HyLanguageError, SyntaxError):
            got = ("syntax",)
        except Exception as e:
            got = ("exc", type(e).__name__)
        spec_st = says[i]["st"]
        if want[0] == "syntax":
            if got[0] != "syntax":
                run.violation("fstr:" + htext, f"{htext!r}: the Python f-string {ptext!r} is a syntax error, Hy gives {got}",
                              {"text": htext, "python": ptext})
            else:
                nval += 1
        elif got != want:
            run.violation("fstr:" + htext, f"{htext!r} evaluates to {got}, the Python f-string {ptext!r} to {want}",
                          {"text": htext, "python": ptext})
        else:
            nval += 1
            if spec_st == "ok":
                run.cov["traces_validated_against_impl"] += 1
        if want[0] != "syntax" and spec_st in ("lex", "eof"):
            raise MachineryError(f"reader spec rejects {htext!r} ({spec_st}) but Python accepts {ptext!r}")
    run.cov["evaluated_fstrings"] = nval
    run.sample({"hy": 'f"' + cases[0][0] + '"', "python": 'f"' + cases[0][1] + '"'})
    run.sample({"hy": 'f"' + cases[7][0] + '"', "python": 'f"' + cases[7][1] + '"'})
    return run.finish("model_checking",
                      "f-string structures (literal text with {{ }} and \\N{...}, fields with expressions, = debugging, "
                      "!s/!r/!a, format specs with nested fields, and malformed fields / conversions) rendered as Hy and as "
                      "Python source; hy.eval of one vs eval of the other; the Hy text is validated by TLC against the "
                      "reader spec's f-string machinery, which is also enumerated exhaustively on all field texts <= %d "
                      "characters" % (4 if q else 5),
                      assumptions=["CPython's f-string evaluation and format() are the reference"])


def main(run):
    return {"C22": main_c22, "C23": main_c23, "C26": main_c26, "C24": main_c24}[run.pid](run)


def replay(run, path):
    d = json.load(open(path))["replay"]
    print(repr(d["text"]), "->", real_class(d["text"]))
    return 1
