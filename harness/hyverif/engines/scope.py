"""C07: nonlocal / global across nested functions, classes and lets (HyScope.tla)."""
import json
import random
import types

from .. import tlc
from ..core import MachineryError, pmap

NAMES = ("x", "y")
INIT = {"x": 10, "y": 20}
ASSIGNED = {"x": 99, "y": 98}


def render(rec):
    ks, ds = rec["ks"], rec["ds"]
    D = len(ks)

    def observe(i, names):
        return [f'(setv (get R "{i}:{n}") {n})' for n in names]

    def body(i):
        """forms of level i (after its own definitions)"""
        defs = [n for n in NAMES if ds[i][n]]
        out = []
        kind = "module" if i == 0 else ks[i - 1]
        if i >= 1 and rec["gs"][i - 1] != "none":
            out.append(f"({rec['gs'][i - 1]} x)")
        if kind != "let":
            out += [f"(setv {n} {INIT[n] + i})" for n in defs]
        if i < D:
            out += level(i + 1)
            out += observe(i, defs)
        else:
            declared = [n for n in NAMES if rec["dn"][n]]
            if rec["decl"] != "none":
                out.append(f"({rec['decl']} {' '.join(declared)})")
            out.append(f"(setv x {ASSIGNED['x']} y {ASSIGNED['y']})")
            out += observe(i, NAMES)
        return out

    def level(i):
        kind = ks[i - 1]
        inner = "\n".join("  " + l for f in body(i) for l in f.split("\n"))
        if kind == "fn":
            return [f"(defn f{i} []\n{inner})", f"(f{i})"]
        if kind == "class":
            return [f"(defclass C{i} []\n{inner})"]
        defs = [n for n in NAMES if ds[i][n]]
        binds = " ".join(f"{n} {INIT[n] + i}" for n in defs) or f"hyv-d{i} 0"
        return [f"(let [{binds}]\n{inner})"]

    return "\n".join(["(setv R {})"] + body(0)) + "\n"


def run_program(text):
    import hy
    from hy.compiler import hy_compile
    from hy.reader import read_many
    mod = types.ModuleType("hyv_scope")
    try:
        tree = hy_compile(hy.models.Lazy(read_many(text, filename="<scope>")), mod, filename="<scope>", source=text)
        code = compile(tree, "<scope>", "exec")
    except SyntaxError as x:       # HySyntaxError is a SyntaxError as well
        return {"outcome": "syntax", "msg": f"{type(x).__name__}: {x.msg}"}
    except BaseException as x:
        return {"outcome": "error", "msg": f"compile: {type(x).__name__}: {x}"[:300]}
    try:
        exec(code, mod.__dict__)
    except BaseException as x:
        return {"outcome": "error", "msg": f"run: {type(x).__name__}: {x}"[:300]}
    G = mod.__dict__
    return {"outcome": "ok", "R": dict(G["R"]), "glob": {n: G.get(n, 0) for n in NAMES}}


def expected(rec):
    if rec["outcome"] == "syntax":
        return {"outcome": "syntax"}
    D = len(rec["ks"])
    R = {}
    for i, row in enumerate(rec["seen"]):
        for n in NAMES:
            if i < D and rec["ds"][i][n]:
                R[f"{i}:{n}"] = row[n]
    for n in NAMES:
        R[f"{D}:{n}"] = ASSIGNED[n]
    return {"outcome": "ok", "R": R, "glob": rec["glob"]}


def shape_key(rec):
    """finding key: the kinds of the levels from the binding reached to the declaration"""
    return json.dumps([rec["ks"], rec["gs"], rec["ds"], rec["decl"], rec["dn"]])


def finding_family(rec):
    """structural family of a known defect: a nonlocal (innermost or intermediate) that has to reach a
    let binding living in a class body"""
    ks = rec["ks"]
    D = len(ks)

    def pyscope(i):
        while i > 0 and ks[i - 1] == "let":
            i -= 1
        return i
    # (declaring level, target level) of every nonlocal declaration in the program
    pairs = []
    if rec["decl"] == "nonlocal":
        pairs += [(D, rec["target"][n]) for n in NAMES if rec["dn"][n]]
    pairs += [(i, t) for i, t in enumerate(rec["res"], 1) if rec["gs"][i - 1] == "nonlocal"]
    for lvl, t in pairs:
        if 0 < t <= D and ks[t - 1] == "let" and pyscope(t) != pyscope(lvl) and pyscope(t) > 0 \
                and ks[pyscope(t) - 1] == "class":
            return "nonlocal reaching a let binding that lives in a class body"
    return ""


def _one(rec):
    return run_program(render(rec))


def main(run):
    rng = random.Random(run.seed)
    q = run.quick
    md = 3 if q else 4
    r = tlc.run("HyScope", tlc.cfg(constants={"MaxDepth": md, "MaxMid": 1 if q else 2},
                                   invariants=["GlobalIsModule", "NonlocalSkipsClasses", "OneBindingChanges", "Nearest", "Export"]),
                run.work, workers=16, label="scope", timeout=3000)
    if r.violated:
        raise MachineryError(f"HyScope: {r.violated} violated on the specification")
    run.add_tlc(r, f"HyScope: every chain of <= {md} nested fn/class/let levels x definitions of x, y per level x declaration")
    rows = r.ex("PROG")
    run.log(f"TLC: {len(rows)} specified programs")
    rows.sort(key=lambda x: json.dumps(x, sort_keys=True))
    cap = 18000 if q else 400000
    if len(rows) > cap:
        short = [x for x in rows if len(x["ks"]) <= 2]
        rest = [x for x in rows if len(x["ks"]) > 2]
        # programs with a declaration are the interesting ones
        decl = [x for x in rest if x["decl"] != "none" or any(g != "none" for g in x["gs"])]
        other = [x for x in rest if x["decl"] == "none" and not any(g != "none" for g in x["gs"])]
        rng.shuffle(decl)
        rng.shuffle(other)
        rows = short + decl[:int((cap - len(short)) * 0.85)] + other[:int((cap - len(short)) * 0.15)]
    outcomes = {"ok": 0, "syntax": 0}
    for rec, got in zip(rows, pmap(_one, rows)):
        text = render(rec)
        want = expected(rec)
        key = shape_key(rec)
        run.case(key)
        outcomes[want["outcome"]] += 1
        g = {k: v for k, v in got.items() if k != "msg"}
        if g != want:
            run.violation(finding_family(rec) or key, f"observed {got}, specification {want}; program:\n{text}",
                          {"program": text, "spec": rec, "got": got, "want": want})
        else:
            run.cov["traces_validated_against_impl"] += 1
    if min(outcomes.values()) == 0:
        raise MachineryError(f"vacuous: {outcomes}")
    run.sample({"program": render(rows[len(rows) // 2]), "spec": rows[len(rows) // 2]})
    return run.finish("model_checking",
                      f"chains of <= {md} nested levels (function, class, let) under the module, each defining any subset of "
                      "{x, y}; the innermost level declares any non-empty subset nonlocal or global (or nothing) and assigns "
                      "both; compared: syntax error or not, the value of every binding at every level afterwards, the module "
                      "globals", extra={"programs": len(rows), "expected_outcomes": outcomes})
