"""C35 (macro lookup / require), C36 (macroexpand), C37 (reader macros), C16 (staging), C15 (bytecode)."""
import importlib
import json
import os
import random
import sys
import types
import warnings

from .. import tlc
from ..core import MachineryError

SRC = '''
(defmacro a [#* x] 901)
(defmacro b [#* x] 902)
(defmacro _c [#* x] 903)
'''
SRC2 = SRC + '\n(setv _hy_export_macros ["a"])\n'
SRC3 = SRC + '\n(setv _hy_export_macros [])\n'


def prepare_sources(run):
    d = run.work / "macromods"
    d.mkdir(exist_ok=True)
    (d / "S.hy").write_text(SRC)
    (d / "S2.hy").write_text(SRC2)
    (d / "S3.hy").write_text(SRC3)
    if str(d) not in sys.path:
        sys.path.insert(0, str(d))
    for m in ("S", "S2", "S3"):
        sys.modules.pop(m, None)
    return d


REQ_TEXT = {"plain": "(require S)", "as": "(require S :as p)", "list": "(require S [a b :as bb _c])",
            "star": "(require S *)", "plain-exp": "(require S2)", "star-exp": "(require S2 *)",
            "star-empty": "(require S3 *)"}


def render_history(h, variant=0):
    """history of events -> Hy module text; call i stores its expansion in (get R i).
    variant 0: every scope is a function; otherwise the scopes rotate through function, class body and
    comprehension (all three open a local macro scope)"""
    out = ["(setv R {})"]
    depth = 0
    fn = 0
    stack = []
    kinds = ["fn", "class", "lfor", "lambda"]
    for i, e in enumerate(h, 1):
        ev, n = e["ev"], e["n"]
        if ev == "def":
            out.append(f"(defmacro {n} [#* args] {e['tag']})")
        elif ev == "req":
            out.append(REQ_TEXT[n])
        elif ev == "enter":
            fn += 1
            kind = kinds[(variant + fn) % 4] if variant else "fn"
            stack.append((fn, kind))
            out.append({"fn": f"(defn f{fn} []", "class": f"(defclass C{fn} []", "lfor": f"(lfor hyv-q{fn} [0] (do",
                        "lambda": "((fn []"}[kind])
        elif ev == "exit":
            k, kind = stack.pop()
            out.append({"fn": f"None) (f{k})", "class": "None)", "lfor": "None))", "lambda": "None))"}[kind])
        elif ev == "pragma":
            out.append("(pragma :warn-on-core-shadow False)")
        elif ev == "call":
            out.append(f'(setv (get R {i}) (try ({n} True 999) (except [NameError] 0)))')
        elif ev in ("evalloc", "evallocx"):
            macros = ' :macros {"%s" (fn [#* a] 800)}' % __import__("hy").mangle(n) if ev == "evallocx" else ""
            kind = kinds[(variant + i) % 3] if variant else "fn"
            inner = {"fn": f"(do (defn hyv-g [] (defmacro {n} [#* args] 700) ({n} True 999)) (hyv-g))",
                     "class": f"(do (defclass hyv-K [] (defmacro {n} [#* args] 700) (setv v ({n} True 999))) hyv-K.v)",
                     "lfor": f"(get (lfor hyv-j [0] (do (defmacro {n} [#* args] 700) ({n} True 999))) 0)"}[kind]
            out.append(f"(setv (get R {i}) (try (hy.eval '{inner}{macros}) (except [NameError] 0)))")
        elif ev in ("eval", "evalx"):
            macros = ' :macros {"%s" (fn [#* a] 800)}' % __import__("hy").mangle(n) if ev == "evalx" else ""
            out.append(f"(setv (get R {i}) (try (hy.eval '({n} True 999){macros}) (except [NameError] 0)))")
    return "\n".join(out)


def run_history(text, name):
    import hy
    from hy.compiler import hy_compile
    mod = types.ModuleType(name)
    sys.modules[name] = mod
    try:
        with warnings.catch_warnings(record=True) as w:
            warnings.simplefilter("always")
            tree = hy_compile(hy.read_many(text, filename=name), mod, filename=name, source=text)
            code = compile(tree, name, "exec")
            exec(code, mod.__dict__)
        warned = [str(x.message) for x in w if issubclass(x.category, RuntimeWarning) and "shadow" in str(x.message)]
        return dict(mod.__dict__.get("R", {})), warned, None
    except Exception as e:
        return None, None, f"{type(e).__name__}: {e}"
    finally:
        sys.modules.pop(name, None)


def main_c35(run):
    rng = random.Random(run.seed)
    q = run.quick
    prepare_sources(run)
    invs = ["LocalsPopped", "InnerShadows", "CoreAvailable", "RequireBringsExactly", "ExtraFirst", "Export"]
    n = 3 if q else 4
    r = tlc.run("HyMacros", tlc.cfg(constants={"MaxEvents": n, "Focus": "all"}, invariants=invs), run.work, workers=16,
                timeout=3400, heap="16g", label="exh")
    if r.violated:
        raise MachineryError(f"HyMacros: {r.violated} violated on the specification")
    run.add_tlc(r, f"HyMacros exhaustive: every history of {n} events")
    hists = r.ex("HIST")
    # deep nestings of scopes with redefinitions of one name, exhaustively
    nn = 7 if q else 9
    r3 = tlc.run("HyMacros", tlc.cfg(constants={"MaxEvents": nn, "Focus": "nest"}, invariants=invs), run.work, workers=16,
                 timeout=3400, heap="16g", label="nest")
    if r3.violated:
        raise MachineryError(f"HyMacros (nest): {r3.violated} violated")
    run.add_tlc(r3, f"HyMacros exhaustive, nesting focus: every history of {nn} events over def/enter/exit/call/require *")
    nest = r3.ex("HIST")

    def shadowing(rec):
        """a call that sees the same name bound in at least two open tables"""
        tables = [set()]          # names bound per open scope (index 0 = module)
        for e in rec["h"]:
            if e["ev"] == "enter":
                tables.append(set())
            elif e["ev"] == "exit":
                tables.pop()
            elif e["ev"] == "def":
                tables[-1].add(e["n"])
            elif e["ev"] == "req":
                tables[-1].update(["a", "b"])
            elif e["ev"] == "call" and sum(1 for t in tables if e["n"] in t) >= 2:
                return True
        return False
    hot = [x for x in nest if shadowing(x)]
    cold = [x for x in nest if not shadowing(x)]
    cap = 1200 if q else 40000
    nest = (hot if len(hot) <= cap else rng.sample(hot, cap)) + rng.sample(cold, min(len(cold), 300 if q else 10000))
    run.cov["nested_shadowing_histories"] = len(hot)
    # longer histories by simulation
    r2 = tlc.run("HyMacros", tlc.cfg(constants={"MaxEvents": 7, "Focus": "all"}, invariants=invs), run.work, workers=8,
                 simulate=f"num={300 if q else 8000}", depth=9, seed=run.seed + 1, label="sim", timeout=3400)
    if r2.violated:
        raise MachineryError(f"HyMacros (simulation): {r2.violated} violated")
    run.add_tlc(r2, "HyMacros simulation: random histories of 7 events")
    sim = list({json.dumps(x, sort_keys=True): x for x in r2.ex("HIST")}.values())
    run.log(f"TLC: {r.distinct} states, {len(hists)} exhaustive + {len(sim)} simulated histories")
    if len(hists) > (1500 if q else 60000):
        hists = rng.sample(hists, 1500 if q else 60000)
    if len(sim) > (1000 if q else 30000):
        sim = rng.sample(sim, 1000 if q else 30000)
    nrun = 0
    for hi, rec in enumerate(hists + nest + sim):
        h = rec["h"]
        variant = hi % 5          # a fifth all-function, the rest mixing functions, class bodies, comprehensions and anonymous functions
        text = render_history(h, variant)
        key = json.dumps([[e["ev"], e["n"]] for e in h] + ([f"scopes:{variant}"] if variant else []))
        R, warned, err = run_history(text, f"hyv_macro_{hi}")
        run.case(key)
        if err:
            run.violation("history:" + key, f"history {key} failed: {err}\n{text}", {"history": h, "text": text})
            continue
        nrun += 1
        ok = True
        for i, e in enumerate(h, 1):
            if e["ev"] in ("call", "eval", "evalx", "evalloc", "evallocx"):
                if R.get(i) != e["res"]:
                    ok = False
                    run.violation("history:" + key, f"event {i} ({e['ev']} {e['n']}) of {key} expanded to {R.get(i)}, the "
                                  f"documented lookup order gives {e['res']}", {"history": h, "text": text})
                    break
        import re as _re
        wn = [(_re.search(r"`([^`]+)`", x).group(1) if _re.search(r"`([^`]+)`", x) else x) for x in warned]
        if ok and wn != rec["warned"]:
            ok = False
            run.violation("warn:" + key, f"history {key}: shadow warnings {wn}, expected {rec['warned']}",
                          {"history": h, "text": text})
        if ok:
            run.cov["traces_validated_against_impl"] += 1
    run.cov["histories_run"] = nrun
    run.sample({"history": [[e["ev"], e["n"], e["res"]] for e in sim[0]["h"]] if sim else None,
                "text": render_history(sim[0]["h"]) if sim else None})
    return run.finish("model_checking",
                      "histories of defmacro / require (6 shapes, with and without _hy_export_macros) / scopes (defn, class body, "
                      "comprehension, anonymous fn) / "
                      "pragma / macro calls / hy.eval with a macros argument, also of code that defines local macros itself: every history of %d events exhaustively and "
                      "7-event histories by TLC simulation; each is rendered as a module, compiled and run; every call's "
                      "expansion tag and the core-shadow warnings are compared with the spec" % n,
                      extra={"exhaustive": True})


# ---------------------------------------------------------------- C36
def main_c36(run):
    import copy
    import hy
    from hy.compiler import hy_compile
    from ..engines.models import model_diff
    rng = random.Random(run.seed)
    r = tlc.run("HyExpand", tlc.cfg(invariants=["OneStepOnly", "FixpointHeadNotMacro", "FixIsIteratedStep",
                                                "ResultMacroLeftAlone", "Export"]), run.work, workers=8, label="expand")
    if r.violated:
        raise MachineryError(f"HyExpand: {r.violated} violated on the specification")
    run.add_tlc(r, "HyExpand: every macro environment over m1..m3 x every start head")
    envs = r.ex("ENV")
    run.log(f"TLC: {len(envs)} (environment, start) pairs")

    def form_text(f):
        if f["shape"] == "int":
            return "5"
        if f["shape"] == "ifform":
            return "(if 7 (do) None)"
        return "(if 7 8 9)" if f["h"] == "if" else f"({f['h']} 7)"
    n = 0
    for k, e in enumerate(envs):
        name = f"hyv_expand_{k}"
        mod = types.ModuleType(name)
        sys.modules[name] = mod
        try:
            defs = []
            for m in ("m3", "m2", "m1"):
                t = e["env"][m]
                body = "5" if t == "5" else "`(if ~x 8 9)" if t == "if" else f"`({t} ~x)"
                defs.append(f"(defmacro {m} [x] {body})")
            text = "\n".join(defs) + "\n(defn f [x] x)"
            exec(compile(hy_compile(hy.read_many(text), mod), name, "exec"), mod.__dict__)
            # the same macros once more under dotted names, as (require lib :as p) registers them
            for m in ("m1", "m2", "m3"):
                t = e["env"][m]
                tgt = f"p.{t}" if t in ("m1", "m2", "m3") else t
                body = "5" if t == "5" else "`(if ~x 8 9)" if t == "if" else f"`({tgt} ~x)"
                mod._hy_macros[f"p.{m}"] = hy.eval(hy.read(f"(fn [x] {body})"), mod.__dict__, module=mod)
            for variant in ("module", "extra", "dotted", "local"):
                dotted = variant == "dotted"
                pre = "p." if dotted and e["start"] in ("m1", "m2", "m3") else ""
                src = hy.read("(if 7 8 9)" if e["start"] == "if" else f"({pre}{e['start']} 7)")
                before = copy.deepcopy(src)
                kw = {"module": mod}
                if variant == "extra":
                    # the same macros supplied through the `macros` argument of another module
                    kw = {"module": types.ModuleType(name + "_x"), "macros": dict(mod._hy_macros)}
                    sys.modules[name + "_x"] = kw["module"]
                one = hy.macroexpand_1(src, **kw)
                allx = hy.macroexpand(src, **kw)
                run.case((json.dumps(e["env"], sort_keys=True), e["start"], variant))
                if model_diff(before, src):
                    run.violation(f"mutated:{k}:{variant}", f"macroexpand mutated its input ({e['start']} 7) in env {e['env']}",
                                  {"env": e})
                for got, want, which in ((one, e["one"], "macroexpand-1"), (allx, e["all"], "macroexpand")):
                    wt = form_text(want)
                    if dotted and want["shape"] == "call" and want["h"] in ("m1", "m2", "m3"):
                        wt = f"(p.{want['h']} 7)"
                    wm = hy.read(wt)
                    d = model_diff(hy.as_model(wm), hy.as_model(got))
                    if d:
                        run.violation(f"{which}:{json.dumps(e['env'], sort_keys=True)}:{e['start']}:{variant}",
                                      f"hy.{which} of ({e['start']} 7) with macros {e['env']} [{variant}] gives "
                                      f"{hy.repr(got)}, expected {form_text(want)}: {d}", {"env": e, "variant": variant})
                    else:
                        n += 1
                        run.cov["traces_validated_against_impl"] += 1
                if variant == "extra":
                    sys.modules.pop(name + "_x", None)
                if variant == "local":
                    break
        finally:
            sys.modules.pop(name, None)
    # ResultMacroLeftAlone for every macro that yields a compiler result, not only `if`: whatever such a macro
    # returns (a Result, a bare AST node), hy.macroexpand and hy.macroexpand-1 hand back the form unchanged --
    # given directly, and at the end of a chain of user macros
    import hy.core.result_macros as rm
    import ast as _ast
    heads = sorted(hy.unmangle(k) for k in rm._hy_macros)
    shapes = ["({h})", "({h} x)", "({h} x 1)", "({h} [x] 1)", "({h} [x [1]] x)", "({h} x [] 1)", "({h} 1 2 3)"]
    chain_mod = types.ModuleType("hyv_expand_chain")
    sys.modules["hyv_expand_chain"] = chain_mod
    nres = 0
    try:
        for h in heads:
            for sh in shapes:
                text = sh.format(h=h)
                try:
                    src = hy.read(text)
                except Exception:
                    continue
                for via in ("direct", "chain"):
                    form = src
                    if via == "chain":
                        # (hyv-wrap) expands to the form
                        chain_mod.__dict__.setdefault("_hy_macros", {})["hyv_wrap"] = (lambda f: (lambda: copy.deepcopy(f)))(src)
                        form = hy.read("(hyv-wrap)")
                    for fn_name, fn in (("macroexpand", hy.macroexpand), ("macroexpand-1", hy.macroexpand_1)):
                        try:
                            got = fn(copy.deepcopy(form), module=chain_mod)
                        except Exception:
                            continue      # the form is rejected (by the macro's pattern, or it runs user code): not an expansion
                        nres += 1
                        run.case(("result-macro", text, via, fn_name))
                        if isinstance(got, _ast.AST) or not isinstance(got, hy.models.Object):
                            run.violation(f"result-macro:{text}:{via}:{fn_name}", f"hy.{fn_name} of {text} ({via}) returned "
                                          f"{type(got).__name__} {got!r}, not a model", {"form": text})
                        elif model_diff(hy.as_model(src), hy.as_model(got)):
                            run.violation(f"result-macro:{text}:{via}:{fn_name}", f"hy.{fn_name} of {text} ({via}) changed a form "
                                          f"whose head yields a compiler result: {hy.repr(got)}", {"form": text})
                        else:
                            run.cov["traces_validated_against_impl"] += 1
    finally:
        sys.modules.pop("hyv_expand_chain", None)
    run.cov["result_macro_forms"] = nres
    # local macros are invisible unless passed: (local-macros)
    text = "(defn g [] (defmacro lm [x] `(f ~x)) [(hy.macroexpand-1 '(lm 7)) (hy.macroexpand-1 '(lm 7) :macros (local-macros))]) (defn f [x] x) (setv out (g))"
    mod = types.ModuleType("hyv_expand_local")
    sys.modules["hyv_expand_local"] = mod
    try:
        exec(compile(hy_compile(hy.read_many(text), mod), "hyv_expand_local", "exec"), mod.__dict__)
        a, b = mod.out
        if hy.repr(a) != "'(lm 7)" or hy.repr(b) != "'(f 7)":
            run.violation("local-macros", f"local macro expansion through hy.macroexpand-1: {hy.repr(a)} / {hy.repr(b)}", {})
    finally:
        sys.modules.pop("hyv_expand_local", None)
    run.sample({"env": envs[5]["env"], "start": envs[5]["start"], "one": envs[5]["one"], "all": envs[5]["all"]})
    return run.finish("model_checking",
                      "every macro environment over three user macros (each expanding to another user macro, the Hy-level "
                      "core macro `when`, the result-producing core form `if`, a function call or an integer) x every "
                      "start form; hy.macroexpand-1 / hy.macroexpand results compared with HyExpand (checked by TLC: one "
                      "step exactly, fixpoint head is not a macro, fixpoint = iterated step), with module macros and with "
                      "the macros argument; input model compared before and after",
                      extra={"exhaustive": True})


# ---------------------------------------------------------------- C37
def render_stream(items, base, other=None):
    out = ["(setv OUT [])"]
    for i, (k, n) in enumerate(items, 1):
        tag = base + i + 1
        if k == "def":
            out.append(f"(defreader {n} {tag})")
        elif k == "defnone":
            out.append(f"(defreader {n} None)")
        elif k == "use":
            out.append(f"(.append OUT [{i} #{n}])")
        elif k == "both":
            out.append(f"(do (defreader {n} {tag}) (.append OUT [{i} #{n}]))")
        elif k == "req":
            out.append(f"(require {other} :readers [{n}])")
    return "\n".join(out) + "\n"


def expected_out(res):
    return [[i] if v == 0 else [i, v] for i, v in res["out"]]


def main_c37(run):
    import hy
    from hy.reader import HyReader
    from hy.reader.exceptions import LexException
    from hy.errors import HyRequireError
    from hy.compiler import hy_compile
    rng = random.Random(run.seed)
    q = run.quick
    r = tlc.run("HyReaderMacros", tlc.cfg(constants={"MaxA": 3 if q else 3, "MaxB": 3},
                                          invariants=["UseNeedsEarlierDef", "ModulesIsolated", "StrictAlternation",
                                                      "FreshReaderStartsEmpty", "Export"]),
                run.work, workers=16, timeout=3000, label="rm")
    if r.violated:
        raise MachineryError(f"HyReaderMacros: {r.violated} violated on the specification")
    run.add_tlc(r, "HyReaderMacros: every pair of streams (<= 3 items in A, <= 3 in B)")
    cases = r.ex("CASE")
    run.log(f"TLC: {len(cases)} stream pairs")
    # streams where B re-binds a reader name it already has (define then require, require then define) first
    def rebinding(c):
        seen = set()
        for k_, n_ in c["sb"]:
            if k_ in ("def", "req"):
                if n_ in seen:
                    return True
                seen.add(n_)
        return False
    hot = [c for c in cases if rebinding(c) and c["sb"][-1][0] == "use"]
    cold = [c for c in cases if not (rebinding(c) and c["sb"][-1][0] == "use")]
    cap = 1400 if q else 40000
    nh = min(len(hot), cap // 3)
    cases = rng.sample(hot, nh) + rng.sample(cold, min(len(cold), cap - nh))
    d = run.work / "rmods"
    d.mkdir(exist_ok=True)
    sys.path.insert(0, str(d))
    importlib.invalidate_caches()
    try:
        for k, c in enumerate(cases):
            an, bn = f"hyv_rma_{k}", f"hyv_rmb_{k}"
            ta = render_stream(c["sa"], 100)
            tb = render_stream(c["sb"], 200, an)
            (d / f"{an}.hy").write_text(ta)
            (d / f"{bn}.hy").write_text(tb)
            importlib.invalidate_caches()
            key = json.dumps([c["sa"], c["sb"]])
            run.case(key)

            def load(name):
                try:
                    m = importlib.import_module(name)
                    return m, None
                except LexException as e:
                    return sys.modules.get(name), "lex"
                except (HyRequireError,) as e:
                    return None, "require"
                except Exception as e:
                    return None, type(e).__name__
            # route 1: file import
            ma, ea = load(an)
            ok = True
            wa = c["ra"]
            if (ea is not None) != (wa["err"] != 0):
                ok = False
                run.violation("A:" + key, f"module A stream {c['sa']}: import {'failed with ' + str(ea) if ea else 'succeeded'}, "
                              f"expected {'an error at item %d' % wa['err'] if wa['err'] else 'success'}\n{ta}", {"case": c, "text": ta})
            elif ea is None:
                if ma.OUT != expected_out(wa):
                    ok = False
                    run.violation("A:" + key, f"module A stream {c['sa']}: OUT={ma.OUT}, expected {expected_out(wa)}\n{ta}",
                                  {"case": c, "text": ta})
                have = set(ma.__dict__.get("_hy_reader_macros", {}))
                want = {n for n, t in wa["tab"].items() if t != 0}
                if have != want:
                    ok = False
                    run.violation("A-table:" + key, f"module A defines reader macros {sorted(have)}, expected {sorted(want)}",
                                  {"case": c})
            elif ea not in ("lex",):
                ok = False
                run.violation("A:" + key, f"module A stream {c['sa']} failed with {ea}, expected a Hy syntax error", {"case": c})
            # route 2: the same stream through hy_compile with an explicit, fresh reader
            mod = types.ModuleType(an + "_c")
            sys.modules[mod.__name__] = mod
            try:
                exec(compile(hy_compile(hy.read_many(ta, filename="<a>", reader=HyReader()), mod), "<a>", "exec"), mod.__dict__)
                e2 = None
            except LexException:
                e2 = "lex"
            except Exception as e:
                e2 = type(e).__name__
            finally:
                sys.modules.pop(mod.__name__, None)
            # (this route compiles the whole stream before running any of it: when reading fails nothing
            # has run yet, so only the outcome is compared then)
            if (e2 is not None) != (wa["err"] != 0) or (e2 is None and mod.OUT != expected_out(wa)):
                ok = False
                run.violation("A-compile:" + key, f"stream {c['sa']} through hy_compile with a fresh HyReader: error={e2} "
                              f"OUT={mod.__dict__.get('OUT')}, expected error={'lex' if wa['err'] else None} "
                              f"OUT={expected_out(wa)}", {"case": c, "text": ta})
            if HyReader._current_reader is not None:
                ok = False
                run.violation("current-reader:" + key, "HyReader._current_reader is not None after reading", {"case": c})
                HyReader._current_reader = None
            if ea is None and wa["err"] == 0:
                mb, eb = load(bn)
                wb = c["rb"]
                if (eb is not None) != (wb["err"] != 0):
                    ok = False
                    run.violation("B:" + key, f"module B stream {c['sb']} after A {c['sa']}: import "
                                  f"{'failed with ' + str(eb) if eb else 'succeeded'}, expected "
                                  f"{'an error at item %d' % wb['err'] if wb['err'] else 'success'}\n{tb}", {"case": c, "text": tb})
                elif eb is None and mb.OUT != expected_out(wb):
                    ok = False
                    run.violation("B:" + key, f"module B stream {c['sb']} after A {c['sa']}: OUT={mb.OUT}, expected "
                                  f"{expected_out(wb)}", {"case": c, "text": tb})
            # route 4: continuation streams read by a fresh reader and evaluated in module B
            if ea is None and wa["err"] == 0 and c["rb"]["err"] == 0 and sys.modules.get(bn) is not None and k % (6 if q else 1) == 0:
                mbx = sys.modules[bn]
                for ct in c["cont"]:
                    tc = render_stream(ct["sc"], 300, an)
                    saved = mbx.OUT
                    rdr = HyReader()
                    err_at = 0
                    try:
                        # (read and evaluate one top-level form at a time, as the file importer and the REPL do)
                        for form in hy.read_many(tc, filename="<cont>", reader=rdr):
                            hy.eval(form, mbx.__dict__, module=mbx)
                    except LexException:
                        err_at = -1
                    except Exception as e:
                        err_at = -2 if not isinstance(e, HyRequireError) else -1
                    got_out = mbx.OUT
                    mbx.OUT = saved
                    wc = ct["rc"]
                    if (err_at != 0) != (wc["err"] != 0) or (err_at == 0 and got_out != expected_out(wc)) or err_at == -2:
                        ok = False
                        run.violation("cont:" + key + json.dumps(ct["sc"]), f"stream {ct['sc']} read by a fresh reader into module B "
                                      f"(B: {c['sb']}, A: {c['sa']}): {'error' if err_at else 'OUT=' + str(got_out)}, expected "
                                      f"{'an error at item %d' % wc['err'] if wc['err'] else expected_out(wc)}",
                                      {"case": c, "cont": ct, "text": tc})
                    if HyReader._current_reader is not None:
                        HyReader._current_reader = None
            # route 3: fresh copies, B imported first, so that A is read and compiled while B is being compiled
            # (by B's require); both modules must behave exactly as when imported one after the other
            if wa["err"] == 0 and any(k_ == "req" for k_, _n in c["sb"]):
                an2, bn2 = an + "_n", bn + "_n"
                (d / f"{an2}.hy").write_text(ta)
                (d / f"{bn2}.hy").write_text(render_stream(c["sb"], 200, an2))
                importlib.invalidate_caches()
                mb2, eb2 = load(bn2)
                wb = c["rb"]
                ma2 = sys.modules.get(an2)
                if (eb2 is not None) != (wb["err"] != 0):
                    ok = False
                    run.violation("nested:" + key, f"module B stream {c['sb']} imported first (A {c['sa']} compiled during B's "
                                  f"require): import {'failed with ' + str(eb2) if eb2 else 'succeeded'}, expected "
                                  f"{'an error at item %d' % wb['err'] if wb['err'] else 'success'}", {"case": c, "text": tb})
                elif eb2 is None and (mb2.OUT != expected_out(wb) or ma2 is None or ma2.OUT != expected_out(wa)
                                      or set(ma2.__dict__.get("_hy_reader_macros", {})) != {n_ for n_, t_ in wa["tab"].items() if t_ != 0}):
                    ok = False
                    run.violation("nested:" + key, f"B imported first: B.OUT={mb2.OUT} (expected {expected_out(wb)}), "
                                  f"A.OUT={getattr(ma2, 'OUT', None)} (expected {expected_out(wa)}), A's reader macros "
                                  f"{sorted(getattr(ma2, '_hy_reader_macros', {}))}", {"case": c, "text": tb})
                if HyReader._current_reader is not None:
                    ok = False
                    run.violation("current-reader:" + key, "HyReader._current_reader is not None after a nested import", {"case": c})
                    HyReader._current_reader = None
                for nm in (an2, bn2):
                    sys.modules.pop(nm, None)
            if ok:
                run.cov["traces_validated_against_impl"] += 1
            for nm in (an, bn):
                sys.modules.pop(nm, None)
    finally:
        sys.path.remove(str(d))
    run.sample({"A": cases[0]["sa"], "B": cases[0]["sb"], "text_A": render_stream(cases[0]["sa"], 100)})
    return run.finish("model_checking",
                      "every pair of top-level streams (module A <= 3 items, module B <= 3) over defreader, defreader "
                      "returning None, uses, a form that defines and uses at once, and require :readers, for two reader "
                      "names; TLC computes per stream the results of the uses and the item at which reading must fail; each "
                      "pair is written as two module files and imported, and A is also compiled through an explicit fresh "
                      "HyReader; results, errors, per-module reader tables and HyReader._current_reader compared",
                      extra={"exhaustive": True})


# ---------------------------------------------------------------- C16
HIT_PY = '''
import os
def hit(k):
    with open(os.environ["HYV_LOG"], "a") as f:
        f.write("s%s\\n" % k)
def val(k, v):
    with open(os.environ["HYV_LOG"], "a") as f:
        f.write("v%s=%r\\n" % (k, v))
    return v
'''


def render_staging(prog):
    out = ["(import hyv_hit)"]
    for i, (kind, (where, runs), inner) in enumerate(prog, 1):
        s1, s2, s3, s4 = 10 * i + 1, 10 * i + 2, 10 * i + 3, 10 * i + 4
        n = {"none": "", "ewc": f" (eval-when-compile (import hyv_hit) (hyv_hit.hit {s3}))",
             "eac": f" (eval-and-compile (import hyv_hit) (hyv_hit.hit {s3}))",
             "domac": f" (do-mac (import hyv_hit) (hyv_hit.hit {s3}) '(hyv_hit.hit {s4}))"}[inner]
        if kind == "ewc":
            form = f"(eval-when-compile (import hyv_hit) (hyv_hit.hit {s1}){n})"
        elif kind == "eac":
            form = f"(hyv_hit.val {i} (eval-and-compile (import hyv_hit) (hyv_hit.hit {s1}){n} (+ 40 {i})))"
        elif kind == "eac0":
            form = f"(hyv_hit.val {i} (eval-and-compile (import hyv_hit) (hyv_hit.hit {s1}){n} 0))"
        elif kind == "domac0":
            form = f"(hyv_hit.val {i} (do-mac (import hyv_hit) (hyv_hit.hit {s1}){n} 0))"
        else:
            form = f"(hyv_hit.val {i} (do-mac (import hyv_hit) (hyv_hit.hit {s1}){n} '(do (hyv_hit.hit {s2}) (+ 50 {i}))))"
        if where == "top":
            out.append(form)
        elif where == "let":
            out.append(f"(setv hyv-x{i} 0)")
            out.append(f"(let [hyv-x{i} 7] {form} (hyv_hit.val {100 + i} hyv-x{i}))")
        else:
            out.append(f"(defn f{i} [] {form} None)")
            out += [f"(f{i})"] * runs
    return "\n".join(out) + "\n"


def main_c16(run):
    import subprocess
    from concurrent.futures import ThreadPoolExecutor
    from ..core import PY
    rng = random.Random(run.seed)
    q = run.quick
    mf = 2 if q else 3
    r = tlc.run("HyStaging", tlc.cfg(constants={"MaxForms": mf},
                                     invariants=["CachedIsRunTimePart", "EwcNeverAtRunTime", "BodiesOncePerCompilation",
                                                 "InnerFollowsOuter", "Export"]),
                run.work, workers=8, label="staging")
    if r.violated:
        raise MachineryError(f"HyStaging: {r.violated} violated on the specification")
    run.add_tlc(r, f"HyStaging: every module of <= {mf} staging forms x placement x call count")
    progs = r.ex("PROG")
    run.log(f"TLC: {len(progs)} programs")
    progs.sort(key=lambda x: json.dumps(x["prog"]))
    single = [x for x in progs if len(x["prog"]) == 1]
    rest = [x for x in progs if len(x["prog"]) > 1]
    if len(rest) > (200 if q else 3500):
        rest = rng.sample(rest, 200 if q else 3500)
    progs = single + rest
    d = run.work / "staging"
    d.mkdir()
    (d / "hyv_hit.py").write_text(HIT_PY)
    base_env = {k: v for k, v in os.environ.items() if k not in ("PYTHONDONTWRITEBYTECODE", "HY_VERIF_TRACE")}
    base_env.update(PYTHONPATH=os.pathsep.join([str(d)] + [x for x in [os.environ.get("PYTHONPATH")] if x]), HY_MESSAGE_WHEN_COMPILING="1")
    # warm the bytecode caches of hy itself
    for pre in ("pyc-a", "pyc-b"):
        subprocess.run([PY, "-c", "import hy, hy.core.hy_repr, hy.pyops"], env=dict(base_env, PYTHONPYCACHEPREFIX=str(d / pre),
                       HYV_LOG=str(d / "warm.log")), capture_output=True)

    def run_prog(k_prog):
        k, rec = k_prog
        name = f"hyv_stage_{k}"
        text = render_staging(rec["prog"])
        (d / f"{name}.hy").write_text(text)
        res = {}
        for hist, cmd, pre in (("compile", f"import hy, py_compile; py_compile.compile({str(d / (name + '.hy'))!r}, doraise=True)", "pyc-a"),
                               ("source", f"import hy, {name}", "pyc-b"), ("bytecode", f"import hy, {name}", "pyc-b")):
            log = d / f"{name}.{hist}.log"
            p = subprocess.run([PY, "-c", cmd], env=dict(base_env, PYTHONPYCACHEPREFIX=str(d / pre), HYV_LOG=str(log)),
                               capture_output=True, text=True, cwd=d, timeout=120)
            lines = log.read_text().split() if log.exists() else []
            res[hist] = {"rc": p.returncode, "lines": lines, "compiled": f"{name}.hy" in p.stderr and "Compiling" in p.stderr,
                         "err": p.stderr[-300:] if p.returncode else ""}
        return rec, text, res

    with ThreadPoolExecutor(max_workers=12) as ex:
        results = list(ex.map(run_prog, enumerate(progs)))
    for rec, text, res in results:
        key = json.dumps(rec["prog"])
        ok = True
        for hist in ("compile", "source", "bytecode"):
            run.case((key, hist))
            o = res[hist]
            if o["rc"] != 0:
                ok = False
                run.violation(f"{hist}:{key}", f"{hist} of module {rec['prog']} failed: {o['err']}\n{text}", {"prog": rec, "text": text})
                continue
            want = rec[hist]
            for i, per in enumerate(want, 1):
                for sidx, cnt in enumerate(per, 1):
                    got = o["lines"].count(f"s{10 * i + sidx}")
                    if got != cnt:
                        ok = False
                        kind = rec["prog"][i - 1][0]
                        what = {1: "body", 2: "generated code", 3: "body of the inner form", 4: "code generated by the inner form"}[sidx]
                        run.violation(f"{hist}:{key}", f"{hist}: {what} of form {i} ({kind}, inner {rec['prog'][i - 1][2]}) "
                                      f"ran {got} times, expected {cnt}; module:\n{text}", {"prog": rec, "text": text})
            # values: eval-and-compile returns its last value, do-mac's result is compiled and evaluated
            for i, (kind, (where, runs), _inner) in enumerate(rec["prog"], 1):
                if kind != "ewc" and hist != "compile":
                    vals = [l for l in o["lines"] if l.startswith(f"v{i}=")]
                    wantv = [f"v{i}={rec['values'][i - 1]}"] * runs
                    if vals != wantv:
                        ok = False
                        run.violation(f"value:{key}", f"{hist}: form {i} ({kind}) produced values {vals}, expected {wantv}",
                                      {"prog": rec, "text": text})
            for i, want_read in enumerate(rec["letread"], 1):
                if want_read and hist != "compile":
                    vals = [l for l in o["lines"] if l.startswith(f"v{100 + i}=")]
                    if vals != [f"v{100 + i}={want_read}"]:
                        ok = False
                        run.violation(f"let:{key}", f"{hist}: after form {i} ({rec['prog'][i - 1][0]}) inside (let [x 7] ...) the name reads "
                                      f"{vals}, expected {want_read}; module:\n{text}", {"prog": rec, "text": text})
            if hist == "source" and not o["compiled"]:
                run.notes.append(f"'from source' run of {key} did not report compiling")
            if hist == "bytecode" and o["compiled"]:
                ok = False
                run.violation(f"recompiled:{key}", f"second import of {key} compiled again instead of loading the bytecode",
                              {"prog": rec})
        if ok:
            run.cov["traces_validated_against_impl"] += 3
    run.sample({"module": render_staging(results[0][0]["prog"]), "expected": {k: results[0][0][k] for k in ("compile", "source", "bytecode")}})
    return run.finish("model_checking",
                      "every module of <= %d staging forms (eval-when-compile, eval-and-compile, do-mac) each at top level or "
                      "in a function called 0-2 times or in a let (whose binding the following code must still see), each optionally "
                      "holding another staging form in its body; HyStaging gives per effect site the number of firings for three "
                      "histories (compile only, import from source, import again from cached bytecode); each history is a "
                      "separate interpreter process, firings counted from a log file, returned values checked" % mf,
                      extra={"exhaustive": len(progs) == len(r.ex("PROG"))})


def main(run):
    return {"C35": main_c35, "C36": main_c36, "C37": main_c37, "C16": main_c16}[run.pid](run)


def replay(run, path):
    d = json.load(open(path))["replay"]
    prepare_sources(run)
    print(d.get("text"))
    print(run_history(d["text"], "hyv_replay"))
    return 1
