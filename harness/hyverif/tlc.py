"""Run TLC (exhaustive / simulate / trace batches) and parse its output."""
import json
import os
import re
import shutil
import subprocess
import time
from pathlib import Path

from .core import SPECS, MachineryError

JAR = "/opt/veriftools/tla/tla2tools.jar:/opt/veriftools/tla/CommunityModules-deps.jar"


class TLCResult:
    def __init__(self):
        self.generated = 0
        self.distinct = 0
        self.exports = {}      # tag -> list of decoded JSON
        self.violated = None   # name of violated invariant/property or None
        self.ok = False
        self.stdout = ""
        self.coverage = {}
        self.wall = 0.0
        self.post_failed = False

    def ex(self, tag):
        return self.exports.get(tag, [])


_EXPORT = re.compile(r'<<"([A-Z][A-Z_0-9]{2,})", "((?:[^"\\]|\\.)*)">>')


def _unescape(s):
    # TLC prints a string value with \" and \\ escaped
    return s.replace('\\"', '"').replace("\\\\", "\\")


def run(module, cfg, work, *, workers=16, simulate=None, depth=None, seed=None,
        timeout=1800, env=None, coverage=False, deadlock=False, heap="8g",
        dfid=None, tool_opts=None, label=None, defs=None, keep=False):
    """Run TLC on specs/<module>.tla with config text `cfg` in a scratch dir.
    `defs` (name -> TLA+ expression text) are written to a wrapper module
    MC_<module> and substituted for the constants of the same name."""
    d = Path(work) / f"tlc-{label or module}-{int(time.time()*1000)%10**9}"
    d.mkdir(parents=True)
    for f in SPECS.glob("*.tla"):
        shutil.copy(f, d / f.name)
    if defs:
        mc = f"MC_{module}"
        body = "\n".join(f"MC_{k} == {v}" for k, v in defs.items())
        (d / f"{mc}.tla").write_text(
            f"---- MODULE {mc} ----\nEXTENDS {module}\n{body}\n====\n")
        cfg += "CONSTANTS\n" + "".join(f"  {k} <- MC_{k}\n" for k in defs)
        module = mc
    (d / f"{module}.cfg").write_text(cfg)
    if workers == 1:
        # many single-worker TLCs run side by side: keep each JVM lean
        cmd = ["java", "-XX:+UseSerialGC", "-Xms128m", "-Xmx768m", "-XX:TieredStopAtLevel=1",
               "-XX:CICompilerCount=1", "-Xshare:auto", "-cp", JAR]
    else:
        cmd = ["java", "-XX:+UseParallelGC", f"-Xmx{heap}", "-Xss64m", "-cp", JAR]   # deep recursive operators (HyCompr traces)
    if tool_opts:
        cmd += tool_opts
    cmd += ["tlc2.TLC", "-workers", str(workers), "-metadir", str(d / "meta"),
            "-noGenerateSpecTE", "-config", f"{module}.cfg"]
    if not deadlock:
        cmd += ["-deadlock"]
    if coverage:
        cmd += ["-coverage", "1"]
    if simulate:
        cmd += ["-simulate", simulate]
    if depth:
        cmd += ["-depth", str(depth)]
    if seed is not None:
        cmd += ["-seed", str(seed)]
    cmd += [f"{module}.tla"]
    e = dict(os.environ)
    e.pop("JAVA_TOOL_OPTIONS", None)
    if env:
        e.update(env)
    t0 = time.time()
    try:
        p = subprocess.run(cmd, cwd=d, env=e, capture_output=True, text=True,
                           timeout=timeout)
    except subprocess.TimeoutExpired as x:
        raise MachineryError(f"TLC timeout on {module} after {timeout}s") from x
    r = TLCResult()
    r.wall = time.time() - t0
    r.stdout = out = p.stdout
    for m in _EXPORT.finditer(out):
        try:
            r.exports.setdefault(m.group(1), []).append(json.loads(_unescape(m.group(2))))
        except json.JSONDecodeError as x:
            raise MachineryError(f"bad export from TLC: {m.group(0)[:200]}") from x
    m = None
    for m in re.finditer(r"(\d+) states generated, (\d+) distinct states found", out):
        pass
    if m:
        r.generated, r.distinct = int(m.group(1)), int(m.group(2))
    if simulate and not m:
        mm = re.search(r"(\d+) states checked", out)
        if mm:
            r.generated = r.distinct = int(mm.group(1))
    mv = re.search(r"Error: (?:Invariant|Property) (\S+) is violated", out) or \
        re.search(r"Error: Action property (\S+) is violated", out) or \
        re.search(r"Error: Temporal properties were violated", out)
    if mv:
        r.violated = mv.group(1) if mv.groups() else "temporal"
    if "Error: Deadlock reached" in out:
        r.violated = "deadlock"
    if re.search(r"Error: The postcondition", out) or "POSTCONDITION" in out and "violated" in out:
        r.post_failed = True
    for cm in re.finditer(r"^<(\w+) line \d+, col \d+ to line \d+, col \d+ of module \w+>: (\d+):(\d+)", out, re.M):
        r.coverage[cm.group(1)] = r.coverage.get(cm.group(1), 0) + int(cm.group(3))
    r.ok = (p.returncode == 0 and r.violated is None)
    if not r.ok and r.violated is None and not r.post_failed:
        errs = [l for l in out.splitlines() if "rror" in l][:8]
        tail = "\n".join(out.splitlines()[-25:])
        raise MachineryError(f"TLC failed on {module} (rc={p.returncode}): {errs}\n{tail}")
    if not keep:
        shutil.rmtree(d, ignore_errors=True)
    return r


def cfg(spec="Spec", constants=None, invariants=(), properties=(), constraint=None,
        post=None, init=None, next_=None, view=None, action_constraint=None):
    lines = []
    if init:
        lines += [f"INIT {init}", f"NEXT {next_}"]
    else:
        lines.append(f"SPECIFICATION {spec}")
    if constants:
        lines.append("CONSTANTS")
        for k, v in constants.items():
            lines.append(f"  {k} = {tla(v)}" if not (isinstance(v, str) and v.startswith("<-"))
                         else f"  {k} {v}")
    for i in invariants:
        lines.append(f"INVARIANT {i}")
    for i in properties:
        lines.append(f"PROPERTY {i}")
    if constraint:
        lines.append(f"CONSTRAINT {constraint}")
    if action_constraint:
        lines.append(f"ACTION_CONSTRAINT {action_constraint}")
    if view:
        lines.append(f"VIEW {view}")
    if post:
        lines.append(f"POSTCONDITION {post}")
    lines.append("CHECK_DEADLOCK FALSE")
    return "\n".join(lines) + "\n"


def tla(v):
    """Python value -> TLA+ constant text (for cfg files)."""
    if isinstance(v, bool):
        return "TRUE" if v else "FALSE"
    if isinstance(v, int):
        return str(v)
    if isinstance(v, str):
        return ('"' + v.replace("\\", "\\\\").replace('"', '\\"').replace("\n", "\\n")
                .replace("\t", "\\t").replace("\r", "\\r").replace("\f", "\\f") + '"')
    if isinstance(v, (list, tuple)):
        return "<<" + ", ".join(tla(x) for x in v) + ">>"
    if isinstance(v, (set, frozenset)):
        return "{" + ", ".join(tla(x) for x in sorted(v, key=repr)) + "}"
    if isinstance(v, dict):
        return "[" + ", ".join(f"{k} |-> {tla(x)}" for k, x in v.items()) + "]"
    raise TypeError(v)
