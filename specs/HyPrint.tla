------------------------------- MODULE HyPrint -------------------------------
(* hy.repr for models (hy/core/hy_repr.hy) composed with the reader spec:    *)
(* property C25.  Pr(m) maps a model (as produced by HyReader) to text;   *)
(* the laws say that the text reads back to an equal model and that printing *)
(* is idempotent.  The texts are enumerated like in HyReaderCheck, so every  *)
(* model the reader can produce from a short text is printed and re-read.    *)
(*                                                                           *)
(* String values: the reader spec keeps raw bodies; here a body is decoded   *)
(* just enough to compare and re-print it (simple escapes; numeric escapes   *)
(* stay symbolic: \x41 is the token sequence ESC-x,4,1 and prints as \x41).  *)
EXTENDS Naturals, Sequences, FiniteSets, TLC, Json

CONSTANTS Alphabet, MaxLen, Start,
          FixedPrinter   \* TRUE: all format-spec components are printed and a bracket string whose
                         \* content starts with a newline gets an extra one (the printer after the fix);
                         \* FALSE: the printer as it was at the pinned commit

VARIABLE inp
P(t) == INSTANCE HyReader WITH inp <- t
Parse(t) == P(t)!ReadAll

Q == "\""
BS == "\\"
Chars(s) == s

\* ---------------------------------------------------------------- string values
\* value tokens: a plain character, or a symbolic escape \c
Tok(c) == [e |-> FALSE, c |-> c]
Esc(c) == [e |-> TRUE, c |-> c]
Toks(b) == [k \in 1..Len(b) |-> Tok(b[k])]
IsRawPre(x) == \E k \in 1..Len(x) : x[k] = "r"
IsBracket(x) == x # <<>> /\ x[1] = "#"
RECURSIVE Dec(_, _), NormCR(_)
NormCR(b) == IF b = <<>> THEN <<>>
             ELSE IF Head(b) = "\r" THEN
                  <<"\n">> \o NormCR(IF Len(b) >= 2 /\ b[2] = "\n" THEN Tail(Tail(b)) ELSE Tail(b))
             ELSE <<Head(b)>> \o NormCR(Tail(b))
Dec(b, k) ==   \* non-raw body -> value tokens
  IF k > Len(b) THEN <<>>
  ELSE IF b[k] # BS \/ k = Len(b) THEN <<Tok(b[k])>> \o Dec(b, k + 1)
  ELSE LET c == b[k + 1] IN
       (IF c \in {BS, Q, "'"} THEN <<Tok(c)>>
        ELSE IF c = "n" THEN <<Tok("\n")>>
        ELSE IF c = "\n" THEN <<>>
        ELSE <<Esc(c)>>) \o Dec(b, k + 2)
StrVal(m) == IF IsBracket(m.x) \/ IsRawPre(m.x) THEN Toks(NormCR(m.v)) ELSE Dec(NormCR(m.v), 1)
\* in f-strings the literal text has {{ and }} for braces
RECURSIVE Unbrace(_)
Unbrace(b) == IF b = <<>> THEN <<>>
              ELSE IF Len(b) >= 2 /\ b[1] \in {"{", "}"} /\ b[2] = b[1] THEN <<b[1]>> \o Unbrace(Tail(Tail(b)))
              ELSE <<Head(b)>> \o Unbrace(Tail(b))

\* print a value token sequence inside double quotes
RECURSIVE EscapeVal(_), Brace(_), Join(_, _)
EscapeVal(v) == IF v = <<>> THEN <<>>
                ELSE LET t == Head(v)
                         c == t.c IN
                     (IF t.e THEN <<BS, c>>
                      ELSE IF c = BS THEN <<BS, BS>> ELSE IF c = Q THEN <<BS, Q>>
                      ELSE IF c = "\n" THEN <<BS, "n">>
                      ELSE IF c = "\r" THEN <<BS, "r">>
                      ELSE <<c>>) \o EscapeVal(Tail(v))
Brace(v) == IF v = <<>> THEN <<>>
            ELSE (IF Head(v) \in {"{", "}"} THEN <<Head(v), Head(v)>> ELSE <<Head(v)>>) \o Brace(Tail(v))
Join(ss, sep) == IF ss = <<>> THEN <<>> ELSE IF Len(ss) = 1 THEN ss[1] ELSE ss[1] \o sep \o Join(Tail(ss), sep)

\* ---------------------------------------------------------------- the printer
SymIs(m, name) == m.t = "sym" /\ m.v = name
Sugar == [k \in {"quote", "quasiquote", "unquote", "unquote-splice", "unpack-iterable", "unpack-mapping"} |->
            CASE k = "quote" -> <<"'">> [] k = "quasiquote" -> <<"`">> [] k = "unquote" -> <<"~">>
              [] k = "unquote-splice" -> <<"~", "@">> [] k = "unpack-iterable" -> <<"#", "*", " ">>
              [] k = "unpack-mapping" -> <<"#", "*", "*", " ">>]
Name(s) == CASE s = "quote" -> <<"q", "u", "o", "t", "e">>
             [] s = "quasiquote" -> <<"q", "u", "a", "s", "i", "q", "u", "o", "t", "e">>
             [] s = "unquote" -> <<"u", "n", "q", "u", "o", "t", "e">>
             [] s = "unquote-splice" -> <<"u", "n", "q", "u", "o", "t", "e", "-", "s", "p", "l", "i", "c", "e">>
             [] s = "unpack-iterable" -> <<"u", "n", "p", "a", "c", "k", "-", "i", "t", "e", "r", "a", "b", "l", "e">>
             [] s = "unpack-mapping" -> <<"u", "n", "p", "a", "c", "k", "-", "m", "a", "p", "p", "i", "n", "g">>
SugarKey(m) == IF m.t # "sym" THEN "" ELSE
  IF m.v = Name("quote") THEN "quote" ELSE IF m.v = Name("quasiquote") THEN "quasiquote"
  ELSE IF m.v = Name("unquote") THEN "unquote" ELSE IF m.v = Name("unquote-splice") THEN "unquote-splice"
  ELSE IF m.v = Name("unpack-iterable") THEN "unpack-iterable"
  ELSE IF m.v = Name("unpack-mapping") THEN "unpack-mapping" ELSE ""
AllDotsS(s) == s # <<>> /\ \A k \in 1..Len(s) : s[k] = "."
NoneSym(m) == SymIs(m, <<"N", "o", "n", "e">>)

RECURSIVE Pr(_), PrintSeq(_), PrintSpec(_), PrintFParts(_, _)
PrintSeq(ms) == Join([k \in 1..Len(ms) |-> Pr(ms[k])], <<" ">>)
\* literal parts and fields of an f-string; q = TRUE inside "..." (escape), FALSE inside #[[...]] (verbatim)
PrintFParts(ms, q) ==
  IF ms = <<>> THEN <<>>
  ELSE (IF Head(ms).t = "str"
        THEN (IF q THEN Brace(EscapeVal(Dec(NormCR(Unbrace(Head(ms).v)), 1))) ELSE Head(ms).v)
        ELSE Pr(Head(ms))) \o PrintFParts(Tail(ms), q)
\* the components of a format spec: literal parts verbatim except that { is doubled
RECURSIVE BraceOpen(_)
BraceOpen(v) == IF v = <<>> THEN <<>>
                ELSE (IF Head(v) = "{" THEN <<"{", "{">> ELSE <<Head(v)>>) \o BraceOpen(Tail(v))
PrintSpec(ms) ==
  IF ~FixedPrinter
  THEN (IF ms[1].t = "str" THEN ms[1].v ELSE Pr(ms[1]))           \* only the first component
  ELSE IF ms = <<>> THEN <<>>
  ELSE (IF Head(ms).t = "str" THEN BraceOpen(Unbrace(Head(ms).v)) ELSE Pr(Head(ms))) \o
       (IF Len(ms) > 1 THEN PrintSpec(Tail(ms)) ELSE <<>>)
Pr(m) ==
  CASE m.t \in {"sym", "int"} -> m.v
    [] m.t = "kw" -> <<":">> \o m.v
    [] m.t \in {"str", "bytes"} ->
         IF IsBracket(m.x)
         THEN <<"#", "[">> \o Tail(m.x) \o <<"[">> \o
              (IF FixedPrinter /\ NormCR(m.v) # <<>> /\ NormCR(m.v)[1] = "\n" THEN <<"\n">> ELSE <<>>) \o
              NormCR(m.v) \o <<"]">> \o Tail(m.x) \o <<"]">>
         ELSE (IF m.t = "bytes" THEN <<"b">> ELSE <<>>) \o <<Q>> \o EscapeVal(StrVal(m)) \o <<Q>>
    [] m.t = "fstr" ->
         IF IsBracket(m.x)
         THEN <<"#", "[">> \o Tail(m.x) \o <<"[">>
              \o (IF FixedPrinter /\ m.ch # <<>> /\ m.ch[1].t = "str" /\ NormCR(m.ch[1].v) # <<>> /\ NormCR(m.ch[1].v)[1] = "\n"
                  THEN <<"\n">> ELSE <<>>)
              \o PrintFParts(m.ch, FALSE) \o <<"]">> \o Tail(m.x) \o <<"]">>
         ELSE <<IF \E k \in 1..Len(m.x) : m.x[k] = "t" THEN "t" ELSE "f", Q>> \o PrintFParts(m.ch, TRUE) \o <<Q>>
    [] m.t = "fcomp" ->
         LET form == Pr(m.ch[1])
             rest == (IF m.x # <<>> THEN <<" ", "!">> \o m.x ELSE <<>>)
                     \o (IF Len(m.ch) > 1 THEN <<" ", ":">> \o PrintSpec(Tail(m.ch)) ELSE <<>>)
         IN <<"{">> \o (IF FixedPrinter /\ form # <<>> /\ form[1] = "{" THEN <<" ">> ELSE <<>>) \o form
            \o (IF FixedPrinter /\ rest = <<>> /\ form # <<>> /\ form[Len(form)] = "}" THEN <<" ">> ELSE <<>>)
            \o rest \o <<"}">>
    [] m.t = "list" -> <<"[">> \o PrintSeq(m.ch) \o <<"]">>
    [] m.t = "tuple" -> <<"#", "(">> \o PrintSeq(m.ch) \o <<")">>
    [] m.t = "set" -> <<"#", "{">> \o PrintSeq(m.ch) \o <<"}">>
    [] m.t = "dict" -> <<"{">> \o PrintSeq(m.ch) \o <<"}">>
    [] m.t = "expr" ->
         LET n == Len(m.ch)
             allsym == \A k \in 1..n : m.ch[k].t = "sym"
         IN IF n >= 3 /\ allsym /\ (SymIs(m.ch[1], <<".">>) \/ (NoneSym(m.ch[2]) /\ AllDotsS(m.ch[1].v)))
            THEN (IF NoneSym(m.ch[2]) THEN m.ch[1].v ELSE <<>>) \o
                 Join([k \in 1..(n - (IF NoneSym(m.ch[2]) THEN 2 ELSE 1)) |->
                          m.ch[k + (IF NoneSym(m.ch[2]) THEN 2 ELSE 1)].v], <<".">>)
            ELSE IF n = 2 /\ SugarKey(m.ch[1]) # ""
            THEN IF SugarKey(m.ch[1]) = "unquote" /\ m.ch[2].t = "sym" /\ m.ch[2].v # <<>> /\ m.ch[2].v[1] = "@"
                 THEN <<"~", " ">> \o Pr(m.ch[2])
                 ELSE Sugar[SugarKey(m.ch[1])] \o Pr(m.ch[2])
            ELSE <<"(">> \o PrintSeq(m.ch) \o <<")">>

\* ---------------------------------------------------------------- model equality by value
RECURSIVE EqVal(_, _), EqSeqVal(_, _)
EqVal(a, b) ==
  /\ a.t = b.t
  /\ IF a.t \in {"str", "bytes"}
       THEN StrVal(a) = StrVal(b) /\ (IsBracket(a.x) = IsBracket(b.x)) /\ (IsBracket(a.x) => a.x = b.x)
       ELSE a.v = b.v
  /\ (a.t = "fcomp" => a.x = b.x)
  /\ (a.t = "fstr" => (IsBracket(a.x) = IsBracket(b.x)) /\ (IsBracket(a.x) => a.x = b.x))
  /\ IF a.t \in {"fstr", "fcomp"}
       THEN Len(a.ch) = Len(b.ch) /\
            \A k \in 1..Len(a.ch) :
               IF a.ch[k].t = "str" /\ b.ch[k].t = "str"
               THEN (IF IsBracket(a.x) THEN Toks(NormCR(Unbrace(a.ch[k].v))) ELSE Dec(NormCR(Unbrace(a.ch[k].v)), 1)) =
                    (IF IsBracket(b.x) THEN Toks(NormCR(Unbrace(b.ch[k].v))) ELSE Dec(NormCR(Unbrace(b.ch[k].v)), 1))
               ELSE EqVal(a.ch[k], b.ch[k])
       ELSE EqSeqVal(a.ch, b.ch)
EqSeqVal(as, bs) == Len(as) = Len(bs) /\ \A k \in 1..Len(as) : EqVal(as[k], bs[k])

\* ---------------------------------------------------------------- checking
VARIABLE res
vars == <<inp, res>>
Init == inp = Start /\ res = Parse(Start)
Grow == /\ Len(inp) < MaxLen + Len(Start)
        /\ \E c \in Alphabet : inp' = Append(inp, c) /\ res' = Parse(Append(inp, c))
Spec == Init /\ [][Grow]_vars

\* every model read from the text prints to text that reads back to an equal model
PrintReadsBack ==
  res.st = "ok" =>
     \A k \in 1..Len(res.ch) :
        LET r == Parse(Pr(res.ch[k])) IN
        r.st = "ok" /\ Len(r.ch) = 1 /\ EqVal(r.ch[1], res.ch[k])
\* printing the re-read model gives the same text
PrintIdempotent ==
  res.st = "ok" =>
     \A k \in 1..Len(res.ch) :
        LET r == Parse(Pr(res.ch[k])) IN
        (r.st = "ok" /\ Len(r.ch) = 1) => Pr(r.ch[1]) = Pr(res.ch[k])
Export == (res.st = "ok" /\ res.ch # <<>>) =>
            PrintT(<<"ROW", ToJson([text |-> inp, printed |-> [k \in 1..Len(res.ch) |-> Pr(res.ch[k])]])>>)
=============================================================================
