------------------------------- MODULE HyForms -------------------------------
(* The compile pipeline as a whole (hy/compiler.py HyASTCompiler.compile,     *)
(* hy/macros.py pattern_macro / MacroExceptions, _storeize, then Python's     *)
(* compile() and marshal) -- property C10.                                    *)
(*                                                                           *)
(* Two parts.                                                                *)
(* 1. A generator of model trees: a core macro head applied to a sequence of *)
(*    arguments, each an atom of some kind or a nested form (a head applied  *)
(*    to atoms).  Nothing is assumed about well-formedness.                  *)
(* 2. The pipeline as a state machine over the events the harness records    *)
(*    for one tree, and the property: every run ends in `done` (an AST that  *)
(*    Python compiled and marshalled) or in `rejected` with a user-facing    *)
(*    error; no other event is enabled.                                      *)
EXTENDS Naturals, Sequences, FiniteSets, TLC, Json, IOUtils

CONSTANTS Heads,      \* the core macro names (taken from the implementation's macro tables)
          MaxArgs,
          NestedArgs,    \* number of (atom) arguments of a nested form
          AllowNested,   \* FALSE: arguments are atoms only (exhaustive runs); TRUE: nested forms too (random behaviours)
          Mode        \* "gen": generate trees; "file": validate the recorded runs in RUNS_FILE

AtomKinds == {"sym", "sym2", "kw", "int", "float", "str", "bytes", "none", "true", "dotted", "fstr", "quote",
              "list0", "list1", "list2", "listkw", "listpair", "tuple1", "set1", "dict0", "dict1", "dict2",
              "call", "empty-expr", "star", "dstar", "star-star", "annot",
              "else", "except0", "except1", "except2", "finally", "ellipsis", "colon-kw", "dotsym",
              "or0", "fstr-stmt", "fstr-star", "dstar0", "star0", "dstar2", "quote0", "unquote1", "dot0", "dotkw",
              \* values that leave their result in a compiler temporary, and constants in binding positions
              "tryval", "ifstmt", "fnval", "listnone1", "listnone2"}
\* a nested form: <<"form", head, <<atom kinds>>>>
Nested == IF AllowNested
          THEN {<<"form", h, as>> : h \in Heads, as \in UNION {[1..k -> {"sym", "int", "list1", "kw", "star", "call"}] : k \in 0..NestedArgs}}
          ELSE {}

\* forms about names are also tried after a form that binds the names x and y at module level
PreludeHeads == {"nonlocal", "global", "del", "setx", "annotate", "setv"}
VARIABLES head, args, pre
vars == <<head, args, pre>>
Init == IF Mode = "gen" THEN head \in Heads /\ args = <<>> /\ pre \in (IF head \in PreludeHeads THEN BOOLEAN ELSE {FALSE})
        ELSE head = "" /\ args = <<>> /\ pre = FALSE
Grow == /\ Mode = "gen" /\ Len(args) < MaxArgs
        /\ \E a \in {<<"atom", k>> : k \in AtomKinds} \cup Nested : args' = Append(args, a)
        /\ UNCHANGED <<head, pre>>
Spec == Init /\ [][Grow]_vars

Export == Mode = "gen" => PrintT(<<"FORM", ToJson([head |-> head, args |-> args, pre |-> pre])>>)

\* ---------------------------------------------------------------- the pipeline
\* events: [stage, result, cls, user]  stage in hy_compile / pycompile / marshal; result "ok" or "exc";
\* cls the exception class; user = TRUE iff the exception is a HyLanguageError or a SyntaxError
Stages == <<"hy_compile", "pycompile", "marshal">>
\* the state after a prefix of events
RECURSIVE After(_, _, _)
After(evs, i, st) ==
  IF i > Len(evs) THEN st
  ELSE LET e == evs[i] IN
       \* an event is enabled only in the state that expects its stage
       IF st \notin {"start", "ast", "code"} THEN "stuck"
       ELSE IF (st = "start" /\ e.stage # "hy_compile") \/ (st = "ast" /\ e.stage # "pycompile")
               \/ (st = "code" /\ e.stage # "marshal") THEN "stuck"
       ELSE IF e.result = "ok" THEN After(evs, i + 1, CASE st = "start" -> "ast" [] st = "ast" -> "code" [] st = "code" -> "done")
       \* a user-facing error may end the run while Hy compiles or while Python compiles the AST
       ELSE IF e.user /\ st \in {"start", "ast"} THEN After(evs, i + 1, "rejected")
       ELSE "bad:" \o e.stage \o ":" \o e.cls
Final(evs) == After(evs, 1, "start")
Accepted(evs) == Final(evs) \in {"done", "rejected"}

Runs == IF Mode = "file" THEN ndJsonDeserialize(IOEnv.RUNS_FILE) ELSE <<>>
\* one verdict line per recorded run
Verdicts == Mode = "file" =>
  \A i \in 1..Len(Runs) : PrintT(<<"VERDICT", ToJson([id |-> Runs[i].id, final |-> Final(Runs[i].events)])>>)

\* ---- laws of the pipeline
\* a run with an internal exception is never accepted, whatever follows
InternalNeverAccepted ==
  \A st \in {"hy_compile", "pycompile", "marshal"} : \A c \in {"ValueError", "TypeError", "IndexError"} :
     ~Accepted(<<[stage |-> st, result |-> "exc", cls |-> c, user |-> FALSE]>>)
\* the only accepted complete run without an error has all three stages
DoneMeansAllStages ==
  /\ Accepted(<<[stage |-> "hy_compile", result |-> "ok", cls |-> "", user |-> FALSE],
               [stage |-> "pycompile", result |-> "ok", cls |-> "", user |-> FALSE],
               [stage |-> "marshal", result |-> "ok", cls |-> "", user |-> FALSE]>>)
  /\ ~Accepted(<<[stage |-> "hy_compile", result |-> "ok", cls |-> "", user |-> FALSE]>>)
  /\ ~Accepted(<<[stage |-> "pycompile", result |-> "ok", cls |-> "", user |-> FALSE]>>)
\* a user-facing error from marshal does not exist: only the two compilers may reject
MarshalNeverRejects ==
  ~Accepted(<<[stage |-> "hy_compile", result |-> "ok", cls |-> "", user |-> FALSE],
              [stage |-> "pycompile", result |-> "ok", cls |-> "", user |-> FALSE],
              [stage |-> "marshal", result |-> "exc", cls |-> "ValueError", user |-> TRUE]>>)
=============================================================================
