------------------------------ MODULE HyCoreRun ------------------------------
(* Drives HyCore in its two modes and states the invariants that are checked *)
(* on every reachable state.                                                 *)
(*  explore: every interleaving of every program in PROG_FILE; each terminal *)
(*           outcome is exported (spec -> code: the harness checks that the  *)
(*           outcome observed on hy is one of them).                         *)
(*  trace:   the log observed on hy drives the Effect steps (code -> spec);   *)
(*           a program is accepted iff a terminal state is reached whose     *)
(*           outcome equals the observed one.                                *)
EXTENDS HyCore

\* ---- invariants of the semantics itself (checked in both modes)
Sub(n) == n..End(n)
\* a branch that was not selected stays untouched (C01)
UnselectedBranchSilent ==
  \A n \in 1..N :
     (K(n) = "if" /\ St(n) = "run" /\ Ph(n) \in {2, 3}) =>
        \A d \in Sub(Ch(n)[IF Ph(n) = 2 THEN 3 ELSE 2]) : St(d) = "idle"
\* and/or: operand i+1 is started only when operand i did not decide (C02)
ShortCircuit ==
  \A n \in 1..N :
     (K(n) \in {"and", "or"} /\ St(n) = "run" /\ Ph(n) >= 1) =>
        /\ \A i \in 1..(Ph(n) - 1) : St(Ch(n)[i]) = "done" /\
              \* (a box may have changed its truthiness since it was tested)
              (nd[Ch(n)[i]].val[1] # "box" => (Truthy(nd[Ch(n)[i]].val) = (K(n) = "and")))
        /\ \A i \in (Ph(n) + 1)..NCh(n) : \A d \in Sub(Ch(n)[i]) : St(d) = "idle"
\* ordered forms run at most one child at a time
OrderedOneAtATime ==
  \A n \in 1..N :
     K(n) \in {"do", "if", "when", "cond", "and", "or", "setv", "let", "while", "for", "try", "with"} =>
        Cardinality({i \in 1..NCh(n) : St(Ch(n)[i]) = "run"}) <= 1
\* environments form a forest rooted in the module environment
HeapWellFormed == \A e \in 1..Len(heap) : heap[e].par < e
\* the log only grows and calls counts the log entries per site
LogCounts == \A k \in DOMAIN calls : calls[k] = Cardinality({i \in 1..Len(log) : log[i][1] = k})

\* ---- explore mode: export terminal outcomes
ExportOutcome ==
  Finished => PrintT(<<"OUT", ToJson([pid |-> pid, o |-> Outcome])>>)

\* ---- trace mode: acceptance
Matches ==
  /\ Finished
  /\ fin[1] # "oos"
  /\ log = P.obs.log
  /\ Outcome.out = P.obs.out
  /\ \A x \in Names : Outcome.globals[x] = P.obs.globals[x]
\* acceptance / out-of-scope are reported by printing (works with any number
\* of TLC workers); the harness collects the ids
Accept == Matches => PrintT(<<"ACC", ToJson(pid)>>)
OutOfScope == (Finished /\ fin[1] = "oos") => PrintT(<<"OOS", ToJson(pid)>>)

Bound == Len(log) <= P.maxlog
=============================================================================
