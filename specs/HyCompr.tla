------------------------------- MODULE HyCompr -------------------------------
(* The comprehension forms lfor / sfor / dfor / gfor and `for`               *)
(* (hy/core/result_macros.py compile_comprehension, hy/scoping.py ScopeGen)  *)
(* -- property C04.                                                          *)
(*                                                                           *)
(* A form is a kind, a list of clauses and a final part.  Its meaning is the *)
(* documented nested loop: clause i encloses clauses i+1.. and the final     *)
(* part.  Every evaluated subform is wrapped in an effect (site i for clause *)
(* i, 90/91 for the final part, 95 for `else`), so a run is a trace of       *)
(* effects and yields.  The specification computes that trace, the variables *)
(* left behind, and says which programs it does not specify.                 *)
EXTENDS Naturals, Sequences, FiniteSets, TLC, Json

CONSTANTS MaxClauses

Vars == {"a", "b"}
\* values of a, b, z in the enclosing scope before the form
Outer == [a |-> 3, b |-> 4, z |-> 9]

Iters == {"L12", "L0", "Ra"}          \* [1 2]   []   (range a)
Conds == {"T", "F", "odd-a", "odd-b"}
Exprs == {"k7", "inc-a"}              \* 7   (+ a 10)
Clauses == {<<"for", v, it>> : v \in Vars, it \in Iters}
           \cup {<<"if", c, "">> : c \in Conds}
           \cup {<<"setv", v, x>> : v \in Vars, x \in Exprs}
           \cup {<<"do", "", "">>}
Kinds == {"seq", "dict", "for"}       \* lfor/sfor/gfor share "seq"
Finals(kind) ==
  IF kind = "for" THEN {<<"val", "a">>, <<"brk", "T">>, <<"brk", "odd-a">>}
  ELSE {<<"val", "a">>, <<"val", "b">>, <<"tup", "">>, <<"star", "a">>, <<"setx", "a">>}

VARIABLES kind, cl, fin
vars == <<kind, cl, fin>>
Init == /\ kind \in Kinds /\ cl = <<>> /\ fin \in Finals(kind)
Grow == /\ Len(cl) < MaxClauses /\ \E c \in Clauses : cl' = Append(cl, c)
        /\ UNCHANGED <<kind, fin>>
Spec == Init /\ [][Grow]_vars

\* ---- reads and writes
ReadsOf(c) ==
  IF c[1] = "for" THEN (IF c[3] = "Ra" THEN {"a"} ELSE {})
  ELSE IF c[1] = "if" THEN (IF c[2] = "odd-a" THEN {"a"} ELSE IF c[2] = "odd-b" THEN {"b"} ELSE {})
  ELSE IF c[1] = "setv" THEN (IF c[3] = "inc-a" THEN {"a"} ELSE {})
  ELSE {}
FinalReads(f) ==
  IF f[1] = "tup" THEN {"a", "b"}
  ELSE IF f[1] = "brk" THEN (IF f[2] = "odd-a" THEN {"a"} ELSE {})
  ELSE {f[2]}
Binds(c) == IF c[1] \in {"for", "setv"} THEN {c[2]} ELSE {}
BoundBefore(i) == UNION {Binds(cl[j]) : j \in 1..(i - 1)}
BoundAnywhere == UNION {Binds(cl[j]) : j \in 1..Len(cl)}
\* a name read before the form binds it refers to the enclosing scope only if the form binds it nowhere;
\* reading the outer variable and then binding the same name is not specified (Python's comprehension
\* scoping makes the outermost iterable special; a generator function does not)
\* ... except in the iterable of a leading iteration clause: as in a Python comprehension, that
\* expression belongs to the enclosing scope, whatever the form binds later
ReadOK(rs, i) == \A v \in rs : v \in BoundBefore(i) \/ v \notin BoundAnywhere \/ (i = 1 /\ cl[1][1] = "for")
\* the leading iterable reads a name that the form itself binds
LeadingIterableShadowed == Len(cl) >= 1 /\ cl[1][1] = "for" /\ ReadsOf(cl[1]) \cap BoundAnywhere # {}
OuterReads == {v \in Vars : \E i \in 1..(Len(cl) + 1) :
                  v \in (IF i <= Len(cl) THEN ReadsOf(cl[i]) ELSE FinalReads(fin)) /\ v \notin BoundBefore(i)}
HasFor == \E i \in 1..Len(cl) : cl[i][1] = "for"
Specified ==
  /\ Len(cl) >= 1                                   \* a form without clauses is not documented
  /\ \A i \in 1..Len(cl) : ReadOK(ReadsOf(cl[i]), i)
  /\ ReadOK(FinalReads(fin), Len(cl) + 1)
  /\ (kind = "for" => HasFor)                      \* `else` / `break` need an iteration clause

\* ---- evaluation
IterVal(it, env) == CASE it = "L12" -> <<1, 2>> [] it = "L0" -> <<>> [] it = "Ra" -> [k \in 1..env.a |-> k - 1]
CondVal(c, env) == CASE c = "T" -> TRUE [] c = "F" -> FALSE [] c = "odd-a" -> env.a % 2 = 1 [] c = "odd-b" -> env.b % 2 = 1
ExprVal(x, env) == CASE x = "k7" -> 7 [] x = "inc-a" -> env.a + 10
E(site) == <<"e", site, 0>>
SetVar(env, v, x) == IF v = "a" THEN [env EXCEPT !.a = x] ELSE [env EXCEPT !.b = x]

\* the final part: the entries it adds and the environment afterwards
Leaf(env) ==
  IF kind = "for" THEN
     [t |-> <<E(90)>>, env |-> env, brk |-> fin[1] = "brk" /\ CondVal(fin[2], env)]
  ELSE IF kind = "seq" THEN
     (CASE fin[1] = "val" -> [t |-> <<E(90), <<"y", IF fin[2] = "a" THEN env.a ELSE env.b, 0>>>>, env |-> env, brk |-> FALSE]
        [] fin[1] = "tup" -> [t |-> <<E(90), <<"y", <<env.a, env.b>>, 0>>>>, env |-> env, brk |-> FALSE]
        \* #* [a 5]: every element of the unpacked iterable is yielded
        [] fin[1] = "star" -> [t |-> <<E(90), <<"y", env.a, 0>>, <<"y", 5, 0>>>>, env |-> env, brk |-> FALSE]
        [] fin[1] = "setx" -> [t |-> <<E(90), <<"y", env.a, 0>>>>, env |-> [env EXCEPT !.z = env.a], brk |-> FALSE])
  ELSE \* dict: key form then value form; value = key + 10
     (CASE fin[1] = "val" -> LET k == IF fin[2] = "a" THEN env.a ELSE env.b IN
                             [t |-> <<E(90), E(91), <<"y", k, k + 10>>>>, env |-> env, brk |-> FALSE]
        [] fin[1] = "tup" -> [t |-> <<E(90), E(91), <<"y", env.a, env.b>>>>, env |-> env, brk |-> FALSE]
        \* #** {a 5  50 a}: all items of the unpacked mapping
        [] fin[1] = "star" -> [t |-> <<E(90), <<"y", env.a, 5>>, <<"y", 50, env.a>>>>, env |-> env, brk |-> FALSE]
        [] fin[1] = "setx" -> [t |-> <<E(90), E(91), <<"y", env.a, 0>>>>, env |-> [env EXCEPT !.z = env.a], brk |-> FALSE])

FirstFor == CHOOSE i \in 1..Len(cl) : cl[i][1] = "for" /\ \A j \in 1..(i - 1) : cl[j][1] # "for"

RECURSIVE Tr(_, _), Loop(_, _, _, _)
\* clause i and everything it encloses, run in environment env
Tr(i, env) ==
  IF i > Len(cl) THEN Leaf(env)
  ELSE LET c == cl[i] IN
    IF c[1] = "for" THEN
       LET r == Loop(i, IterVal(c[3], env), 1, env)
           \* `else` belongs to the outermost iteration clause and runs iff that loop was not broken
           withElse == IF kind = "for" /\ i = FirstFor /\ ~r.brk
                       THEN [r EXCEPT !.t = r.t \o <<E(95)>>] ELSE r
       IN [withElse EXCEPT !.t = <<E(i)>> \o @, !.brk = FALSE]      \* a break ends only this loop
    ELSE IF c[1] = "if" THEN
       IF CondVal(c[2], env)
         THEN LET r == Tr(i + 1, env) IN [r EXCEPT !.t = <<E(i)>> \o @]
         ELSE [t |-> <<E(i)>>, env |-> env, brk |-> FALSE]
    ELSE IF c[1] = "setv" THEN
       LET r == Tr(i + 1, SetVar(env, c[2], ExprVal(c[3], env))) IN [r EXCEPT !.t = <<E(i)>> \o @]
    ELSE LET r == Tr(i + 1, env) IN [r EXCEPT !.t = <<E(i)>> \o @]
\* the iterations k.. of the loop of clause i over xs
Loop(i, xs, k, env) ==
  IF k > Len(xs) THEN [t |-> <<>>, env |-> env, brk |-> FALSE]
  ELSE LET r == Tr(i + 1, SetVar(env, cl[i][2], xs[k])) IN
       IF r.brk THEN r
       ELSE LET rest == Loop(i, xs, k + 1, r.env) IN [rest EXCEPT !.t = r.t \o @]

Result == Tr(1, Outer)
Effects(t) == SelectSeq(t, LAMBDA x : x[1] = "e")
Yields(t) == SelectSeq(t, LAMBDA x : x[1] = "y")

\* ---- what is left behind in the enclosing scope
\* comprehension forms: iteration and :setv variables never leak; setx does.  for: everything leaks.
After == IF kind = "for" THEN Result.env
         ELSE [Outer EXCEPT !.z = Result.env.z]

\* ---- laws of the specification
\* the variables bound by clauses of a comprehension never reach the enclosing scope
NoLeak == (Specified /\ kind # "for") => (After.a = Outer.a /\ After.b = Outer.b)
\* `else` runs at most once, and only as the last effect of the outermost loop
ElseOnce == (Specified /\ kind = "for") => Len(SelectSeq(Result.t, LAMBDA x : x = E(95))) <= 1
\* without break, else always runs
ElseWithoutBreak == (Specified /\ kind = "for" /\ fin[1] # "brk" /\ cl[1][1] = "for") =>
                       Result.t[Len(Result.t)] = E(95)
\* an :if F clause or an empty iterable as first clause produces nothing
EmptyOuter == (Specified /\ kind # "for" /\ (cl[1] = <<"if", "F", "">> \/ (cl[1][1] = "for" /\ cl[1][3] = "L0")))
                 => Yields(Result.t) = <<>>
\* every yield is preceded by the evaluation of the final part
YieldAfterFinal == Specified =>
   \A k \in 1..Len(Result.t) : Result.t[k][1] = "y" => \E j \in 1..(k - 1) : Result.t[j] = E(90)

\* gfor is lazy: creating the generator evaluates nothing, except that (as for a Python generator
\* expression) the expression of the outermost clause may already be evaluated if that clause is an
\* iteration or a :setv (which Hy may express as an iteration over a one-element tuple)
EagerAllowed == IF cl[1][1] \in {"for", "setv"} THEN {0, 1} ELSE {0}

Export == (Specified /\ Len(cl) >= 1) =>
  PrintT(<<"PROG", ToJson([kind |-> kind, cl |-> cl, fin |-> fin, t |-> Result.t,
                           after |-> After, outer |-> OuterReads, eager |-> EagerAllowed, shadow1 |-> LeadingIterableShadowed, usesz |-> fin[1] = "setx"])>>)
=============================================================================
