----------------------------- MODULE HyReprTrace -----------------------------
(* Validates recorded executions of the real hy.repr against HyReprState.    *)
(* The harness wraps hy.core.hy_repr.hy_repr (every nested call goes through *)
(* the module global) and logs, for each call,                               *)
(*   [ev |-> "enter", o, q, n]  after the seen-check / add (q = _quoting,    *)
(*                              n = |_seen|), or "placeholder" if it returned *)
(*   [ev |-> "exit",  o, q, n]  after the finally clause                     *)
(* One trace = one history of top-level calls on one object graph.           *)
EXTENDS HyReprState, IOUtils

Traces == ndJsonDeserialize(IOEnv.TRACE_FILE)
VARIABLES tid, l
tvars == <<vars, tid, l>>
Tr == Traces[tid].ev

TInit == /\ tid \in 1..Len(Traces) /\ l = 1
         /\ kind = Traces[tid].kind /\ kids = Traces[tid].kids
         /\ quoting = FALSE /\ seen = {} /\ stack = <<>> /\ out = <<>>
         /\ unwinding = FALSE /\ ncalls = 0 /\ results = <<>>

Matches(e) == quoting' = e.q /\ Cardinality(seen') = e.n
TStep ==
  /\ l <= Len(Tr)
  /\ LET e == Tr[l] IN
     \/ /\ e.ev \in {"enter", "placeholder"}
        /\ \/ (stack = <<>> /\ ~unwinding /\ Enter(e.o))
           \/ (stack # <<>> /\ Descend /\ kids[Top.o][Top.next] = e.o)
        /\ (e.ev = "placeholder") = (e.o \in seen)
        /\ Matches(e)
        /\ l' = l + 1
     \/ /\ e.ev = "exit"
        /\ Exit /\ Top.o = e.o /\ Matches(e)
        /\ l' = l + 1
     \/ /\ Raise /\ l' = l          \* a printer raising is not logged
  /\ UNCHANGED tid
TSpec == TInit /\ [][TStep]_tvars

TClean == CleanBetweenCalls
TOutput == OutputHistoryIndependent
Accept == (l = Len(Tr) + 1 /\ stack = <<>>) => PrintT(<<"ACC", ToJson(tid)>>)
=============================================================================
