---------------------------- MODULE HyReprValues ----------------------------
(* The shape of hy.repr's output for values of the documented types          *)
(* (hy/core/hy_repr.hy) -- property C27.  A value shape is a tree            *)
(* [k, ch]; Form(v) is the skeleton of the Hy form that hy.repr prints for   *)
(* it (which model types nest how, which constructor heads appear), with the *)
(* documented placeholder for a container that contains itself.  Unform is   *)
(* the evaluation of such a form back to a shape.  TLC checks on every shape *)
(* of bounded size that Unform(Form(v)) = v (so that reading and evaluating  *)
(* the printed text can give the value back, with the same type) and exports *)
(* (shape, form) pairs; the harness fills the atoms (ints, floats, inf, nan, *)
(* strings, bytes, ...) and compares with the real printer, reader and       *)
(* evaluator.                                                                *)
EXTENDS Naturals, Sequences, FiniteSets, TLC, Json, IOUtils

Shapes == ndJsonDeserialize(IOEnv.SHAPE_FILE)
VARIABLE sid
Init == sid \in 1..Len(Shapes)
Next == UNCHANGED sid
Spec == Init /\ [][Next]_sid
V == Shapes[sid].v

S(k, ch) == [k |-> k, ch |-> ch, of |-> ""]
F(f, h, ch) == [f |-> f, h |-> h, ch |-> ch]     \* form kind, head symbol (for expressions), children
Atom == F("atom", "", <<>>)
\* an atom of a known class: "0", "1", "None", or "n" (anything else)
A(c) == F("atom", c, <<>>)
Sym(name) == F("sym", name, <<>>)

Containers == {"list", "tuple", "dict", "set", "frozenset", "deque", "ordereddict", "counter", "defaultdict",
               "chainmap"}
RECURSIVE Form(_), Forms(_), Pairs(_)
Forms(cs) == [i \in 1..Len(cs) |-> Form(cs[i])]
\* OrderedDict prints its items as a list of tuples
Pairs(cs) == IF cs = <<>> THEN <<>>
             ELSE <<F("tuple", "", <<Form(cs[1]), Form(cs[2])>>)>> \o Pairs(SubSeq(cs, 3, Len(cs)))
Form(v) ==
  CASE v.k = "atom" -> Atom
    [] v.k = "self" ->     \* a reference to an enclosing container of kind v.of: the documented placeholder
         CASE v.of = "list" -> F("list", "", <<Sym("...")>>)
           [] v.of = "dict" -> F("dict", "", <<Sym("...")>>)
           [] v.of = "set" -> F("set", "", <<Sym("...")>>)
           [] v.of = "deque" -> F("expr", "deque", <<F("list", "", <<Sym("...")>>)>>)
           [] OTHER -> Sym("...")
    [] v.k = "list" -> F("list", "", Forms(v.ch))
    [] v.k = "tuple" -> F("tuple", "", Forms(v.ch))
    [] v.k = "dict" -> F("dict", "", Forms(v.ch))
    [] v.k = "set" -> F("set", "", Forms(v.ch))
    [] v.k = "frozenset" -> F("expr", "frozenset", <<F("set", "", Forms(v.ch))>>)
    [] v.k = "bytearray" -> F("expr", "bytearray", <<Atom>>)
    [] v.k = "fraction" -> F("expr", "Fraction", <<Atom, Atom>>)
    \* range / slice: v.of = <<start class, step class>>; start and step are printed unless they are the
    \* type's own default (range: 0 and 1; slice: None and None) -- a slice starting at 0 keeps its 0
    [] v.k \in {"range", "slice"} ->
         LET s == v.of[1] t == v.of[2]
             ds == IF v.k = "range" THEN "0" ELSE "None"
             dt == IF v.k = "range" THEN "1" ELSE "None"
         IN F("expr", v.k, IF t # dt THEN <<A(s), A("n"), A(t)>> ELSE IF s # ds THEN <<A(s), A("n")>> ELSE <<A("n")>>)
    [] v.k = "deque" -> F("expr", "deque", <<F("list", "", Forms(v.ch))>>)
    [] v.k = "ordereddict" -> F("expr", "OrderedDict", <<F("list", "", Pairs(v.ch))>>)
    [] v.k = "counter" -> F("expr", "Counter", <<F("dict", "", Forms(v.ch))>>)
    [] v.k = "defaultdict" -> F("expr", "defaultdict", <<Sym("factory"), F("dict", "", Forms(v.ch))>>)
    [] v.k = "chainmap" -> F("expr", "ChainMap", Forms(v.ch))

\* evaluation of a printed form back to a value shape
RECURSIVE Unform(_), Unforms(_), Unpairs(_)
Unforms(fs) == [i \in 1..Len(fs) |-> Unform(fs[i])]
Unpairs(fs) == IF fs = <<>> THEN <<>> ELSE <<Unform(fs[1].ch[1]), Unform(fs[1].ch[2])>> \o Unpairs(Tail(fs))
Unform(f) ==
  CASE f.f = "atom" -> S("atom", <<>>)
    [] f.f = "sym" -> S("self", <<>>)
    [] f.f \in {"list", "tuple", "dict", "set"} -> S(f.f, Unforms(f.ch))
    [] f.f = "expr" ->
         CASE f.h = "frozenset" -> S("frozenset", Unforms(f.ch[1].ch))
           [] f.h = "bytearray" -> S("bytearray", <<>>)
           [] f.h = "Fraction" -> S("fraction", <<>>)
           [] f.h \in {"range", "slice"} ->
                LET ds == IF f.h = "range" THEN "0" ELSE "None"
                    dt == IF f.h = "range" THEN "1" ELSE "None"
                IN [k |-> f.h, ch |-> <<>>,
                    of |-> CASE Len(f.ch) = 1 -> <<ds, dt>> [] Len(f.ch) = 2 -> <<f.ch[1].h, dt>>
                             [] OTHER -> <<f.ch[1].h, f.ch[3].h>>]
           [] f.h = "deque" -> S("deque", Unforms(f.ch[1].ch))
           [] f.h = "OrderedDict" -> S("ordereddict", Unpairs(f.ch[1].ch))
           [] f.h = "Counter" -> S("counter", Unforms(f.ch[1].ch))
           [] f.h = "defaultdict" -> S("defaultdict", Unforms(f.ch[2].ch))
           [] f.h = "ChainMap" -> S("chainmap", Unforms(f.ch))

\* ---- laws
RECURSIVE Acyclic(_)
Acyclic(v) == v.k # "self" /\ \A i \in 1..Len(v.ch) : Acyclic(v.ch[i])
RoundTrip == Acyclic(V) => Unform(Form(V)) = V
\* dict-like shapes have key/value pairs
RECURSIVE WellFormed(_)
WellFormed(v) ==
  /\ (v.k \in {"dict", "ordereddict", "counter", "defaultdict"} => Len(v.ch) % 2 = 0)
  /\ (v.k = "chainmap" => Len(v.ch) >= 1 /\ \A i \in 1..Len(v.ch) : v.ch[i].k = "dict")
  /\ \A i \in 1..Len(v.ch) : WellFormed(v.ch[i])
InputsWellFormed == WellFormed(V)
RECURSIVE Depth(_)
Depth(v) == IF v.ch = <<>> THEN 1 ELSE 1 + (CHOOSE d \in 1..20 : (\E i \in 1..Len(v.ch) : Depth(v.ch[i]) = d) /\ (\A i \in 1..Len(v.ch) : Depth(v.ch[i]) <= d))
\* printing terminates: the form is finite and no deeper than the value (+2 for constructor wrappers)
RECURSIVE FDepth(_)
FDepth(f) == IF f.ch = <<>> THEN 1 ELSE 1 + (CHOOSE d \in 1..40 : (\E i \in 1..Len(f.ch) : FDepth(f.ch[i]) = d) /\ (\A i \in 1..Len(f.ch) : FDepth(f.ch[i]) <= d))
FormBounded == FDepth(Form(V)) <= 3 * Depth(V)

Export == PrintT(<<"FORM", ToJson([sid |-> sid, form |-> Form(V)])>>)
=============================================================================
