----------------------------- MODULE HyReprState -----------------------------
(* The global state of hy.repr (hy/core/hy_repr.hy): `_quoting` and `_seen`  *)
(* -- property C28.  One action per step of hy-repr:                         *)
(*   Enter(o)   decide whether this call starts quoting, look o up in _seen  *)
(*              (placeholder if present), add it                             *)
(*   Descend    the printer of the top object calls hy.repr on its next child*)
(*   Raise      the printer of the top object raises (objects of kind        *)
(*              "raiser" do so after printing their children)                *)
(*   Exit       the `finally`: discard from _seen, stop quoting if this call *)
(*              started it; on the way out of an exception every frame exits *)
(* A history is a sequence of top-level calls on a small universe of objects *)
(* (a graph chosen in Init, cycles included).  Invariants: between top-level *)
(* calls the state is clean, and every successful top-level call produces    *)
(* exactly the text a fresh interpreter produces (RefOut).                   *)
EXTENDS Naturals, Sequences, FiniteSets, TLC, Json

CONSTANTS Objs,       \* e.g. 1..3
          MaxCalls,
          RestoreOnRaise   \* TRUE: the state is restored in a `finally` (as implemented);
                           \* FALSE: only on normal completion (negative control)

Kinds == {"plain", "model", "kw", "raiser"}
SeqsUpTo(S, n) == UNION {[1..k -> S] : k \in 0..n}

VARIABLES kind, kids,           \* the object graph (constant during a behaviour)
          quoting, seen, stack, \* hy-repr's globals and the Python call stack
          out,                  \* tokens emitted by the current top-level call
          unwinding,            \* an exception is propagating
          ncalls, results       \* history of finished top-level calls: <<object, outcome, tokens>>
vars == <<kind, kids, quoting, seen, stack, out, unwinding, ncalls, results>>

Init == /\ kind \in [Objs -> Kinds]
        /\ kids \in [Objs -> SeqsUpTo(Objs, 2)]
        /\ \A o \in Objs : kind[o] = "kw" => kids[o] = <<>>
        /\ quoting = FALSE /\ seen = {} /\ stack = <<>> /\ out = <<>>
        /\ unwinding = FALSE /\ ncalls = 0 /\ results = <<>>

IsModel(o) == kind[o] \in {"model", "kw"}
Frame(o, started) == [o |-> o, started |-> started, next |-> 1]

\* hy-repr is entered for object o (top-level when the stack is empty)
Enter(o) ==
  LET started == ~quoting /\ kind[o] = "model" IN
  /\ ~unwinding
  /\ IF o \in seen
       THEN \* early return with the placeholder (note: taken before the try/finally)
            /\ out' = Append(out, <<"placeholder", o>>)
            /\ quoting' = (quoting \/ started)
            /\ UNCHANGED <<seen, stack>>
       ELSE /\ seen' = seen \cup {o}
            /\ quoting' = (quoting \/ started)
            /\ stack' = Append(stack, Frame(o, started))
            /\ out' = out \o (IF started THEN <<<<"quote", o>>>> ELSE <<>>) \o <<<<"open", o>>>>
  /\ UNCHANGED <<kind, kids, unwinding, ncalls, results>>

TopCall == /\ stack = <<>> /\ ~unwinding /\ ncalls < MaxCalls
           /\ \E o \in Objs : Enter(o)

Top == stack[Len(stack)]
Descend == /\ stack # <<>> /\ ~unwinding
           /\ Top.next <= Len(kids[Top.o])
           /\ LET c == kids[Top.o][Top.next]
                  st2 == [stack EXCEPT ![Len(stack)].next = @ + 1]
              IN \* bump the cursor, then enter the child
                 LET started == ~quoting /\ kind[c] = "model" IN
                 IF c \in seen
                 THEN /\ out' = Append(out, <<"placeholder", c>>)
                      /\ quoting' = (quoting \/ started)
                      /\ stack' = st2 /\ UNCHANGED seen
                 ELSE /\ seen' = seen \cup {c}
                      /\ quoting' = (quoting \/ started)
                      /\ stack' = Append(st2, Frame(c, started))
                      /\ out' = out \o (IF started THEN <<<<"quote", c>>>> ELSE <<>>) \o <<<<"open", c>>>>
           /\ UNCHANGED <<kind, kids, unwinding, ncalls, results>>

\* the printer of the top object raises once its children are printed
Raise == /\ stack # <<>> /\ ~unwinding
         /\ kind[Top.o] = "raiser" /\ Top.next > Len(kids[Top.o])
         /\ unwinding' = TRUE
         /\ UNCHANGED <<kind, kids, quoting, seen, stack, out, ncalls, results>>

\* the finally clause of one frame (normal completion or unwinding)
Exit == /\ stack # <<>>
        /\ (unwinding \/ (Top.next > Len(kids[Top.o]) /\ kind[Top.o] # "raiser"))
        /\ seen' = IF unwinding /\ ~RestoreOnRaise THEN seen ELSE seen \ {Top.o}
        /\ quoting' = IF unwinding /\ ~RestoreOnRaise THEN quoting ELSE IF Top.started THEN FALSE ELSE quoting
        /\ stack' = SubSeq(stack, 1, Len(stack) - 1)
        /\ out' = IF Len(stack) = 1 THEN <<>> ELSE IF unwinding THEN out ELSE Append(out, <<"close", Top.o>>)
        /\ IF Len(stack) = 1
             THEN /\ ncalls' = ncalls + 1
                  /\ results' = Append(results, <<stack[1].o, IF unwinding THEN "raised" ELSE "ok",
                                                  IF unwinding THEN <<>> ELSE Append(out, <<"close", Top.o>>)>>)
                  /\ unwinding' = FALSE
             ELSE UNCHANGED <<ncalls, results, unwinding>>
        /\ UNCHANGED <<kind, kids>>
Next == TopCall \/ Descend \/ Raise \/ Exit
Spec == Init /\ [][Next]_vars

\* ---- reference: what a fresh interpreter prints for o (a function of the graph only)
RECURSIVE Ref(_, _, _)
\* returns <<status, tokens>>; q = quoting, sn = seen
Ref(o, q, sn) ==
  LET started == ~q /\ kind[o] = "model" IN
  IF o \in sn THEN <<"ok", <<<<"placeholder", o>>>>>>
  ELSE LET RECURSIVE Kids(_, _)
           Kids(i, acc) ==
             IF i > Len(kids[o]) THEN <<"ok", acc>>
             ELSE LET r == Ref(kids[o][i], q \/ started, sn \cup {o}) IN
                  IF r[1] = "raised" THEN <<"raised", <<>>>> ELSE Kids(i + 1, acc \o r[2])
           k == Kids(1, <<>>)
       IN IF k[1] = "raised" \/ kind[o] = "raiser" THEN <<"raised", <<>>>>
          ELSE <<"ok", (IF started THEN <<<<"quote", o>>>> ELSE <<>>) \o <<<<"open", o>>>> \o k[2] \o <<<<"close", o>>>>>>
RefOut(o) == Ref(o, FALSE, {})

\* ---- the property
CleanBetweenCalls == stack = <<>> => (~quoting /\ seen = {})
OutputHistoryIndependent ==
  \A i \in 1..Len(results) :
     LET r == results[i] IN r[2] = RefOut(r[1])[1] /\ (r[2] = "ok" => r[3] = RefOut(r[1])[2])
StackMatchesSeen == seen = {stack[i].o : i \in 1..Len(stack)}

\* ---- export of complete histories (graph + calls) for replay
Export == (ncalls = MaxCalls /\ stack = <<>>) =>
  PrintT(<<"HIST", ToJson([kind |-> kind, kids |-> kids, calls |-> [i \in 1..Len(results) |-> <<results[i][1], results[i][2]>>]])>>)
=============================================================================
