------------------------------- MODULE HyCollect ------------------------------
(* Where subforms go: HyASTCompiler._compile_collect and the forms that use  *)
(* it (collection displays, calls, subscripts, operators, decorators, class  *)
(* bases, except clauses) plus single-expression slots -- property C11.      *)
(*                                                                           *)
(* A program is a context and a sequence of elements placed in its slots.    *)
(* Each element is a plain form, an iterable unpacking (#* x), a mapping      *)
(* unpacking (#** x) or a keyword followed by a form.  For every (context,   *)
(* element kind) the specification names the Python construct the element    *)
(* becomes; "none" means Python has no construct, so compilation has to      *)
(* fail; "open" means the documentation does not decide between a construct  *)
(* and an error.  In no case may the element vanish.                         *)
EXTENDS Naturals, Sequences, FiniteSets, TLC, Json

CONSTANTS MaxElems

ElemKinds == {"plain", "star", "dstar", "kw"}
\* contexts whose slots form a sequence
SeqCtx == {"list", "tuple", "set", "dict", "call", "method", "method-pre", "dotcall", "get", "cut", "op-add", "op-and", "op-le",
           "bases", "decorators", "except-types", "setv-target", "dot-index"}
\* contexts with exactly one slot
OneCtx == {"if-test", "with-manager", "return", "assert", "raise", "setv-value", "not", "fstring-field", "lfor-iter", "while-test"}
Ctx == SeqCtx \cup OneCtx

\* operator-like forms that, when any argument is an iterable unpacking, become a call of the function
\* of the same name in hy.pyops (pattern_macro's `shadow`)
Shadowed == {"get", "op-add", "op-and", "op-le", "not"}

\* the Python construct an element of kind k becomes in context c (without the fallback)
Base(c, k) ==
  CASE c \in {"list", "tuple", "set"} ->
         (CASE k = "plain" -> "element" [] k = "star" -> "starred element"
            [] k = "kw" -> "element"            \* a keyword object is an ordinary value here
            [] k = "dstar" -> "none")
    [] c = "dict" ->
         (CASE k = "plain" -> "key or value" [] k = "dstar" -> "dictionary unpacking"
            [] k = "kw" -> "key or value" [] k = "star" -> "none")
    [] c \in {"call", "method", "dotcall", "bases"} ->
         (CASE k = "plain" -> "argument" [] k = "star" -> "starred argument"
            [] k = "dstar" -> "keyword unpacking" [] k = "kw" -> "keyword argument")
    \* (.m ARGS.. obj): keyword arguments and mapping unpackings may precede the object of a method call;
    \* a plain form there is itself the object (and obj an argument); an iterable unpacking cannot be one
    [] c = "method-pre" ->
         (CASE k = "plain" -> "the object, or an argument" [] k = "kw" -> "keyword argument"
            [] k = "dstar" -> "keyword unpacking" [] k = "star" -> "none")
    [] c = "get" ->
         (CASE k = "plain" -> "subscript" [] k = "star" -> "fallback" [] k = "kw" -> "subscript"
            [] k = "dstar" -> "none")
    [] c = "cut" ->
         (CASE k = "plain" -> "slice part" [] k = "kw" -> "slice part" [] k = "star" -> "open" [] k = "dstar" -> "none")
    [] c \in {"op-add", "op-le", "op-and"} ->
         (CASE k = "plain" -> "operand" [] k = "kw" -> "operand" [] k = "star" -> "fallback" [] k = "dstar" -> "none")
    [] c = "decorators" ->
         (CASE k = "plain" -> "decorator" [] k = "kw" -> "decorator" [] k = "star" -> "none" [] k = "dstar" -> "none")
    [] c = "except-types" ->
         (CASE k = "plain" -> "element" [] k = "kw" -> "element" [] k = "star" -> "starred element" [] k = "dstar" -> "none")
    \* (setv [t1 #* t2] v): assignment targets; a keyword or a mapping unpacking cannot be assigned to
    [] c = "setv-target" ->
         (CASE k = "plain" -> "target" [] k = "star" -> "starred target" [] k = "kw" -> "none" [] k = "dstar" -> "none")
    \* (. obj [E]): one subscript per bracket pair
    [] c = "dot-index" ->
         (CASE k = "plain" -> "subscript" [] k = "star" -> "open" [] k = "kw" -> "none" [] k = "dstar" -> "none")
    [] c = "not" ->
         (CASE k = "plain" -> "operand" [] k = "kw" -> "operand" [] k = "star" -> "fallback" [] k = "dstar" -> "none")
    \* a single expression: Python has no bare starred or double-starred expression
    [] c \in OneCtx \ {"not"} ->
         (CASE k = "plain" -> "expression" [] k = "kw" -> "expression" [] k = "star" -> "none" [] k = "dstar" -> "none")

\* ---- programs
VARIABLES ctx, elems
vars == <<ctx, elems>>
Init == ctx \in Ctx /\ elems = <<>>
Grow == /\ Len(elems) < (IF ctx \in OneCtx THEN 1 ELSE MaxElems)
        /\ \E k \in ElemKinds : elems' = Append(elems, k)
        /\ UNCHANGED ctx
Spec == Init /\ [][Grow]_vars

\* with the fallback: once a shadowed form contains #*, it is an ordinary call and every kind has a place
HasStar == \E i \in 1..Len(elems) : elems[i] = "star"
Construct(c, k) ==
  IF c \in Shadowed /\ HasStar
  THEN (CASE k = "plain" -> "argument of the pyops call" [] k = "star" -> "starred argument of the pyops call"
          [] k = "dstar" -> "keyword unpacking of the pyops call" [] k = "kw" -> "keyword argument of the pyops call")
  ELSE Base(c, k)

\* well-formed for its context
WellFormed ==
  /\ Len(elems) >= 1
  /\ (ctx \in OneCtx => (Len(elems) = 1 /\ elems[1] # "kw"))    \* one slot holds one form
  \* cut takes at most three forms after the collection; a keyword element is two forms
  /\ (ctx = "cut" => Len(elems) + Cardinality({i \in 1..Len(elems) : elems[i] = "kw"}) <= 3)
  \* Python allows one starred target per assignment
  /\ (ctx = "setv-target" => Cardinality({i \in 1..Len(elems) : elems[i] = "star"}) <= 1)

\* the construct of the i-th element: in (.m ARGS.. obj) everything after the first plain form (which is
\* the object) is an ordinary argument
CAt(i) ==
  IF ctx = "dot-index" /\ i > 1 THEN "none"      \* a second form inside the brackets has no place
  ELSE IF ctx = "method-pre" /\ (\E j \in 1..(i - 1) : elems[j] = "plain") THEN Construct("method", elems[i])
  ELSE Construct(ctx, elems[i])
\* what must happen to the program
Expect ==
  IF \E i \in 1..Len(elems) : CAt(i) = "none" THEN "error"
  ELSE IF \E i \in 1..Len(elems) : CAt(i) = "open" THEN "either"
  ELSE "kept"

\* ---- laws
\* Python's grammar: a mapping unpacking exists only in dict displays and calls (class headers are calls)
DstarOnlyInDictAndCalls ==
  \A c \in Ctx : Base(c, "dstar") \notin {"none", "open"} => c \in {"dict", "call", "method", "method-pre", "dotcall", "bases"}
\* a plain form has a place everywhere
PlainEverywhere == \A c \in Ctx : Base(c, "plain") \notin {"none", "open"}
\* no context is all-open: every context decides something
Decides == \A c \in Ctx : \E k \in ElemKinds : Base(c, k) # "open"
\* the fallback exists exactly for the shadowed forms
FallbackOnlyShadowed == \A c \in Ctx : (Base(c, "star") = "fallback") = (c \in Shadowed)

\* Every program is tried with its leaves written as plain expressions, and again with the leaves at some
\* positions written as forms that need statements (the compiler has to hoist those without losing anything):
\* none, each single position, all of them.  A position is <<i>> as a one-element sequence for JSON's sake.
StmtMasks == {{}} \cup {{i} : i \in 1..Len(elems)} \cup {1..Len(elems)}
MaskSeq(m) == [i \in 1..Len(elems) |-> i \in m]
Export == WellFormed => PrintT(<<"PROG", ToJson([ctx |-> ctx, elems |-> elems, expect |-> Expect,
                                                 constructs |-> [i \in 1..Len(elems) |-> CAt(i)],
                                                 masks |-> {MaskSeq(m) : m \in StmtMasks}])>>)
=============================================================================
