------------------------------ MODULE HyAsModel ------------------------------
(* hy.as-model's cycle guard (hy/models.py: as_model, recwrap, _seen) --     *)
(* property C29.  Values form a graph chosen in Init: containers (list,      *)
(* tuple, dict, set -- mutable ones may contain themselves), atoms, existing *)
(* models, and objects that cannot be promoted (a function).  Steps:         *)
(*   Enter(v)  raise if id(v) is in _seen ("self-referential"), raise if v   *)
(*             cannot be wrapped; containers add their id and start on their *)
(*             children                                                       *)
(*   Exit      the `finally` of recwrap: remove the id                       *)
(* A history is a sequence of top-level promotions.  Invariants: _seen is    *)
(* empty between top-level calls whatever was raised, and the outcome of a   *)
(* call (model / HyWrapperError) depends on the value only.                  *)
EXTENDS Naturals, Sequences, FiniteSets, TLC, Json

CONSTANTS Vals, MaxCalls,
          RemoveOnRaise     \* TRUE: ids are removed in a `finally` (as implemented)

Kinds == {"atom", "container", "model", "bad"}
SeqsUpTo(S, n) == UNION {[1..k -> S] : k \in 0..n}

VARIABLES kind, kids, seen, stack, raising, ncalls, results
vars == <<kind, kids, seen, stack, raising, ncalls, results>>

Init == /\ kind \in [Vals -> Kinds]
        /\ kids \in [Vals -> SeqsUpTo(Vals, 2)]
        /\ \A v \in Vals : kind[v] \in {"atom", "bad"} => kids[v] = <<>>
        /\ seen = {} /\ stack = <<>> /\ raising = FALSE /\ ncalls = 0 /\ results = <<>>

Frame(v) == [v |-> v, next |-> 1]
Top == stack[Len(stack)]
\* as_model(v): the checks at the top of the function, then the wrapper
EnterVal(v, st) ==
  IF v \in seen \/ kind[v] = "bad"
  THEN /\ raising' = TRUE /\ stack' = st /\ UNCHANGED seen
  ELSE IF kind[v] = "atom" \/ (kind[v] = "model" /\ kids[v] = <<>>)
  THEN /\ stack' = st /\ UNCHANGED <<seen, raising>>          \* wrapped at once
  ELSE /\ seen' = seen \cup {v} /\ stack' = Append(st, Frame(v)) /\ UNCHANGED raising
TopCall == /\ stack = <<>> /\ ~raising /\ ncalls < MaxCalls
           /\ \E v \in Vals :
                /\ EnterVal(v, <<>>)
                /\ IF stack' = <<>>     \* finished (or failed) immediately
                     THEN /\ results' = Append(results, <<v, IF raising' THEN "error" ELSE "ok">>)
                          /\ ncalls' = ncalls + 1
                     ELSE /\ results' = Append(results, <<v, "running">>) /\ ncalls' = ncalls
           /\ UNCHANGED <<kind, kids>>
\* an exception raised by a top-level call with an empty stack is over at once
Settle == /\ stack = <<>> /\ raising /\ raising' = FALSE
          /\ UNCHANGED <<kind, kids, seen, stack, ncalls, results>>
Descend == /\ stack # <<>> /\ ~raising /\ Top.next <= Len(kids[Top.v])
           /\ EnterVal(kids[Top.v][Top.next], [stack EXCEPT ![Len(stack)].next = @ + 1])
           /\ UNCHANGED <<kind, kids, ncalls, results>>
Exit == /\ stack # <<>> /\ (raising \/ Top.next > Len(kids[Top.v]))
        /\ seen' = IF raising /\ ~RemoveOnRaise THEN seen ELSE seen \ {Top.v}
        /\ stack' = SubSeq(stack, 1, Len(stack) - 1)
        /\ IF Len(stack) = 1
             THEN /\ results' = [results EXCEPT ![Len(results)] = <<@[1], IF raising THEN "error" ELSE "ok">>]
                  /\ ncalls' = ncalls + 1 /\ raising' = FALSE
             ELSE UNCHANGED <<results, ncalls, raising>>
        /\ UNCHANGED <<kind, kids>>
Next == TopCall \/ Settle \/ Descend \/ Exit
Spec == Init /\ [][Next]_vars

\* reference: does promoting v succeed?  (a function of the graph)
RECURSIVE Ok(_, _)
Ok(v, path) ==
  IF v \in path \/ kind[v] = "bad" THEN FALSE
  ELSE \A i \in 1..Len(kids[v]) : Ok(kids[v][i], path \cup {v})
\* the first failure aborts, but success/failure is all-or-nothing
SeenEmptyBetweenCalls == (stack = <<>> /\ ~raising) => seen = {}
OutcomeDependsOnValueOnly ==
  \A i \in 1..Len(results) : results[i][2] # "running" => (results[i][2] = "ok") = Ok(results[i][1], {})
SeenIsStack == (~raising) => seen = {stack[i].v : i \in 1..Len(stack)}
Export == (ncalls = MaxCalls /\ stack = <<>> /\ ~raising) =>
  PrintT(<<"HIST", ToJson([kind |-> kind, kids |-> kids, calls |-> results])>>)
=============================================================================
