---------------------------- MODULE HyTempAlloc ----------------------------
(* The compiler's allocator of temporary names (HyASTCompiler.get_anon_var). *)
(* Each compilation unit issues a stream of names; every one must be fresh   *)
(* in that unit and reserved (prefix _hy_).  The recorded stream of each     *)
(* real compilation is validated against this machine (C12).                 *)
EXTENDS Naturals, Sequences, FiniteSets, TLC, Json, IOUtils

Traces == ndJsonDeserialize(IOEnv.TRACE_FILE)   \* [names |-> <<...>>, reserved |-> <<0/1...>>]

VARIABLES tid, l, issued
vars == <<tid, l, issued>>

TInit == tid \in 1..Len(Traces) /\ l = 1 /\ issued = {}

\* Issue(n): allowed only for a fresh, reserved name
Issue == /\ l <= Len(Traces[tid].names)
         /\ LET n == Traces[tid].names[l] IN
              /\ n \notin issued
              /\ Traces[tid].reserved[l] = 1
              /\ issued' = issued \cup {n}
         /\ l' = l + 1
         /\ UNCHANGED tid
TSpec == TInit /\ [][Issue]_vars

IssuedDistinct == Cardinality(issued) = l - 1
Accept == (l = Len(Traces[tid].names) + 1) => PrintT(<<"ACC", ToJson(tid)>>)
=============================================================================
