------------------------------- MODULE HyCore -------------------------------
(* Operational semantics of Hy's core forms, as documented (docs/api.rst,    *)
(* docs/semantics.rst), as a small-step machine over flat node tables.       *)
(*                                                                           *)
(* A program is a preorder table of nodes [k, a, ch, ...].  Every node has a *)
(* status idle/run/done.  "Ordered" forms (do, if, setv pairs, let           *)
(* bindings, and/or operands, loops, try clauses, with) start one child at a *)
(* time; "argument lists" (calls, collection literals, operators) start all  *)
(* children at once and any running node without running children may step,  *)
(* which is exactly the freedom docs/semantics.rst ("Order of evaluation")   *)
(* leaves.  A function activation runs atomically with respect to its        *)
(* siblings.  Exceptions, return, break and continue are "abrupt             *)
(* completions" propagated one parent at a time by Propagate.                *)
(*                                                                           *)
(* The programs come from the harness (PROG_FILE, one JSON record per line)  *)
(* together with the value script of every effect site and the fault plan.   *)
(* In "explore" mode TLC enumerates every interleaving; in "trace" mode an   *)
(* Effect step is enabled only if it is the next entry of the log observed   *)
(* on the real implementation (trace validation).                            *)
EXTENDS Naturals, Integers, Sequences, FiniteSets, TLC, Json, IOUtils

Programs == ndJsonDeserialize(IOEnv.PROG_FILE)

VARIABLES pid,     \* which program
          nd,      \* per-node machine state
          heap,    \* environments
          log,     \* effect log: sequence of site ids
          calls,   \* per-site call count
          exc,     \* pending abrupt completion
          cstack,  \* active user-function calls (call node ids)
          fin      \* final outcome, once finished
vars == <<pid, nd, heap, log, calls, exc, cstack, fin>>

P == Programs[pid]
Nodes == P.nodes
N == Len(Nodes)
K(n) == Nodes[n].k
A(n) == Nodes[n].a
Ch(n) == Nodes[n].ch
Par(n) == Nodes[n].p           \* tree parent (0 for the root)
FnOf(n) == Nodes[n].f          \* enclosing fn/defn node (0 = module level)
NCh(n) == Len(Ch(n))
NV == P.nv                      \* number of variable names
Names == 1..NV

RECURSIVE End(_)
End(n) == IF NCh(n) = 0 THEN n ELSE End(Ch(n)[NCh(n)])

\* ---------------------------------------------------------------- values
\* uniform shape <<tag, n, items>> so that TLC can always compare two values
None == <<"none", 0, <<>>>>
BoolV(b) == <<"bool", IF b THEN 1 ELSE 0, <<>>>>
IntV(i) == <<"int", i, <<>>>>
ListV(s) == <<"list", 0, s>>
TupV(s) == <<"tuple", 0, s>>
FnV(n, e) == <<"fn", n, <<e>>>>
ExcV(ty) == <<"exc", ty, <<>>>>
Unb == <<"unb", 0, <<>>>>        \* local variable, not yet bound
Absent == <<"absent", 0, <<>>>>  \* name not declared in this environment
GlobM == <<"glob", 0, <<>>>>     \* declared global in this function
NonlM == <<"nonl", 0, <<>>>>     \* declared nonlocal in this function
IsVal(v) == v[1] \notin {"unb", "absent", "glob", "nonl"}

\* <<"box", k, <<>>>> is a mutable object whose truthiness changes over time: it is
\* true while effect site k has been called an even number of times.  (It lets
\* programs tell "the value was tested now" from "the value was tested later".)
Truthy(v) == CASE v[1] = "none" -> FALSE
               [] v[1] = "box" -> calls[v[2]] % 2 = 0
               [] v[1] \in {"bool", "int"} -> v[2] # 0
               [] v[1] \in {"list", "tuple", "str"} -> (v[1] = "str" /\ v[2] # 0) \/ Len(v[3]) > 0
               [] OTHER -> TRUE

\* exception type ids: 1 = E1, 2 = E2 (subclass of E1), 3 = E3, 10 NameError,
\* 11 TypeError, 12 ZeroDivisionError, 13 UnboundLocalError (subclass of NameError)
TyNameError == 10
TyTypeError == 11
TyZeroDiv == 12
TyUnbound == 13
TyIndexError == 14
SubTy(a, b) == a = b \/ (a = 2 /\ b = 1) \/ (a = 13 /\ b = 10)
\* handler type list ts: <<>> catches everything that is an Exception
Catches(ts, ty) == ts = <<>> \/ \E i \in 1..Len(ts) : SubTy(ty, ts[i])

NoExc == [kind |-> "none", ty |-> 0, val |-> None, at |-> 0]
Abrupt(kind, ty, v, at) == [kind |-> kind, ty |-> ty, val |-> v, at |-> at]

\* ---------------------------------------------------------------- node state
NodeInit == [st |-> "idle", ph |-> 0, md |-> "", val |-> None, env |-> 0, sv |-> NoExc]
St(n) == nd[n].st
Ph(n) == nd[n].ph

\* start child c in environment e: reset its whole subtree
Act(f, c, e) ==
  LET last == End(c) IN
  [x \in DOMAIN f |->
     IF x = c THEN [NodeInit EXCEPT !.st = "run", !.env = e]
     ELSE IF x > c /\ x <= last THEN NodeInit
     ELSE f[x]]

RECURSIVE ActAll(_, _, _)
ActAll(f, cs, e) == IF cs = <<>> THEN f ELSE ActAll(Act(f, Head(cs), e), Tail(cs), e)

\* abandon every node strictly below p
Kill(f, p) ==
  LET last == End(p) IN
  [x \in DOMAIN f |-> IF x > p /\ x <= last THEN NodeInit ELSE f[x]]

\* ---------------------------------------------------------------- environments
\* heap[e] = [par, kind, vars]; kind in {"mod","fn","let","comp"}
ModEnv == 1
EmptyVars == [x \in Names |-> Absent]
NewEnv(par, kind, vs) == [par |-> par, kind |-> kind, vars |-> vs]

\* the environment in which name x is found when read from e (0 = nowhere)
RECURSIVE FindRead(_, _, _)
FindRead(h, e, x) ==
  IF e = 0 THEN 0
  ELSE LET v == h[e].vars[x] IN
       IF v = Absent \/ v = NonlM THEN FindRead(h, h[e].par, x)
       ELSE IF v = GlobM THEN ModEnv
       ELSE e

\* the nearest "Python scope" (function or module) at or above e: defn and
\* the walrus of a comprehension assign there, skipping let/comp scopes
RECURSIVE PyScope(_, _)
PyScope(h, e) == IF h[e].kind \in {"mod", "fn"} THEN e ELSE PyScope(h, h[e].par)

\* read: <<"ok", value>> or <<"err", type>>
Read(h, e, x) ==
  LET w == FindRead(h, e, x) IN
  IF w = 0 THEN <<"err", TyNameError>>
  ELSE LET v == h[w].vars[x] IN
       \* an unbound local of the running function: UnboundLocalError; an unbound variable
       \* of an enclosing function (a free variable) or of a let: NameError
       IF v = Unb THEN <<"err", IF h[w].kind = "fn" /\ w = PyScope(h, e) THEN TyUnbound ELSE TyNameError>>
       ELSE IF ~IsVal(v) THEN <<"err", TyNameError>>
       ELSE <<"ok", v>>

\* the environment that an assignment to x made in e updates
RECURSIVE FindWrite(_, _, _), FindOuter(_, _, _)
FindWrite(h, e, x) ==
  LET v == h[e].vars[x] IN
  IF h[e].kind = "mod" THEN e
  ELSE IF v = GlobM THEN ModEnv
  ELSE IF v = NonlM THEN FindOuter(h, h[e].par, x)
  ELSE IF v = Absent THEN FindWrite(h, h[e].par, x)
  ELSE e
\* nonlocal: nearest enclosing binding (let, function variable), else module
FindOuter(h, e, x) ==
  IF e = 0 \/ h[e].kind = "mod" THEN ModEnv
  ELSE LET v == h[e].vars[x] IN
       IF v = GlobM THEN ModEnv
       ELSE IF v = Absent \/ v = NonlM THEN FindOuter(h, h[e].par, x)
       ELSE e

Write(h, e, x, v) ==
  LET w == FindWrite(h, e, x) IN [h EXCEPT ![w].vars[x] = v]

\* ---------------------------------------------------------------- static scoping
\* names a function body assigns in its own Python scope (=> its locals):
\* assignments not captured by an enclosing let/comprehension/handler binder
\* inside the function.  B = names bound by such binders at this point.
RECURSIVE AF(_, _), AFSeq(_, _), AFLet(_, _, _, _), TargetNames(_)
TargetNames(t) == IF K(t) = "var" THEN {A(t)}
                  ELSE UNION {TargetNames(Ch(t)[i]) : i \in 1..NCh(t)}
AFSeq(cs, B) == UNION {AF(cs[i], B) : i \in 1..Len(cs)}
AFLet(n, i, B, acc) ==   \* bindings i.. of let n, then the body
  IF i > A(n) THEN acc \cup AFSeq(SubSeq(Ch(n), 2 * A(n) + 1, NCh(n)), B)
  ELSE AFLet(n, i + 1, B \cup TargetNames(Ch(n)[2 * i - 1]), acc \cup AF(Ch(n)[2 * i], B))
AF(n, B) ==
  CASE K(n) \in {"fn"} -> {}
    [] K(n) = "defn" -> {A(Ch(n)[1])}
    [] K(n) = "setv" ->
         UNION {(TargetNames(Ch(n)[2 * i - 1]) \ B) \cup AF(Ch(n)[2 * i], B) : i \in 1..(NCh(n) \div 2)}
    [] K(n) = "setx" -> ({A(Ch(n)[1])} \ B) \cup AF(Ch(n)[2], B)
    [] K(n) = "let" -> AFLet(n, 1, B, {})
    [] K(n) = "for" -> (TargetNames(Ch(n)[1]) \ B) \cup AFSeq(Tail(Ch(n)), B)
    [] K(n) = "with" -> (IF K(Ch(n)[1]) = "var" THEN {A(Ch(n)[1])} \ B ELSE {}) \cup AFSeq(Tail(Ch(n)), B)
    [] K(n) = "except" ->
         IF Nodes[n].hv = 1 THEN AFSeq(Tail(Ch(n)), B \cup {A(Ch(n)[1])}) ELSE AFSeq(Ch(n), B)
    [] K(n) = "comp" -> AFSeq(Ch(n), B \cup {x \in Names : x \in Nodes[n].cv})
    [] OTHER -> AFSeq(Ch(n), B)

RECURSIVE Decl(_, _)   \* names declared `kind` (global / nonlocal) directly in fn body
Decl(n, kind) ==
  IF K(n) \in {"fn", "defn"} THEN {}
  ELSE IF K(n) = kind THEN {A(Ch(n)[i]) : i \in 1..NCh(n)}
  ELSE UNION {Decl(Ch(n)[i], kind) : i \in 1..NCh(n)}

\* fn-like node f: children = params..., body(do).  nparams = A(f) (defn: name first)
FnParams(f) == IF K(f) = "defn" THEN SubSeq(Ch(f), 2, 1 + A(f)) ELSE SubSeq(Ch(f), 1, A(f))
FnBody(f) == Ch(f)[NCh(f)]
FnVars(f) ==
  LET b == FnBody(f)
      g == Decl(b, "global")
      nl == Decl(b, "nonlocal")
      ps == {A(FnParams(f)[i]) : i \in 1..Len(FnParams(f))}
      loc == (AF(b, {}) \cup ps) \ (g \cup nl)
  IN [x \in Names |-> IF x \in g THEN GlobM ELSE IF x \in nl THEN NonlM
                      ELSE IF x \in loc THEN Unb ELSE Absent]

\* ---------------------------------------------------------------- operators (small ints)
\* opcode: "+", "-", "*", "<", "=", "list" ...
RECURSIVE FoldAdd(_), FoldMul(_)
FoldAdd(s) == IF s = <<>> THEN 0 ELSE Head(s)[2] + FoldAdd(Tail(s))
FoldMul(s) == IF s = <<>> THEN 1 ELSE Head(s)[2] * FoldMul(Tail(s))
Numeric(v) == v[1] \in {"int", "bool"}
\* Python equality on the value universe (True == 1, lists elementwise)
RECURSIVE PyEq(_, _)
PyEq(a, b) ==
  IF Numeric(a) /\ Numeric(b) THEN a[2] = b[2]
  ELSE IF a[1] # b[1] THEN FALSE
  ELSE IF a[1] \in {"list", "tuple"} THEN
       Len(a[3]) = Len(b[3]) /\ \A i \in 1..Len(a[3]) : PyEq(a[3][i], b[3][i])
  ELSE a = b

AllNumeric(s) == \A i \in 1..Len(s) : Numeric(s[i])
\* result <<"ok", v>>, <<"err", ty>> or <<"unk">> (outside the modelled fragment)
AllTag(s, tag) == \A i \in 1..Len(s) : s[i][1] = tag
RECURSIVE Concat(_)
Concat(s) == IF s = <<>> THEN <<>> ELSE Head(s)[3] \o Concat(Tail(s))
Identity(v) == v[1] \in {"fn", "exc", "cm", "box"}    \* compared by identity in Python
RECURSIVE HasIdentity(_)
HasIdentity(v) == Identity(v) \/ \E i \in 1..Len(v[3]) : HasIdentity(v[3][i])
\* one binary + : numbers add, lists / tuples concatenate, str + str is outside
\* the fragment, everything else is a TypeError
PlusStep(a, b) ==
  IF Numeric(a) /\ Numeric(b) THEN <<"ok", IntV(a[2] + b[2])>>
  ELSE IF a[1] = "list" /\ b[1] = "list" THEN <<"ok", ListV(a[3] \o b[3])>>
  ELSE IF a[1] = "tuple" /\ b[1] = "tuple" THEN <<"ok", TupV(a[3] \o b[3])>>
  ELSE IF a[1] = "str" /\ b[1] = "str" THEN <<"unk">>
  ELSE <<"err", TyTypeError>>
RECURSIVE PlusFold(_, _)
PlusFold(acc, rest) ==
  IF rest = <<>> THEN <<"ok", acc>>
  ELSE LET r == PlusStep(acc, Head(rest)) IN
       IF r[1] = "ok" THEN PlusFold(r[2], Tail(rest)) ELSE r
OpApply(op, s) ==
  CASE op = "+" ->
         IF Len(s) = 0 THEN <<"ok", IntV(0)>>
         ELSE IF Len(s) = 1 THEN (IF Numeric(s[1]) THEN <<"ok", IntV(s[1][2])>> ELSE <<"err", TyTypeError>>)
         ELSE PlusFold(s[1], Tail(s))
    [] op = "-" -> IF ~AllNumeric(s) THEN <<"err", TyTypeError>>
                   ELSE IF Len(s) = 1 THEN <<"ok", IntV(0 - s[1][2])>>
                   ELSE <<"ok", IntV(s[1][2] - FoldAdd(Tail(s)))>>
    [] op = "<" -> IF AllNumeric(s)
                   THEN <<"ok", BoolV(\A i \in 1..(Len(s) - 1) : s[i][2] < s[i + 1][2])>>
                   ELSE <<"unk">>
    [] op = "=" -> IF \E i \in 1..Len(s) : HasIdentity(s[i]) THEN <<"unk">>
                   ELSE <<"ok", BoolV(\A i \in 1..(Len(s) - 1) : PyEq(s[i], s[i + 1]))>>
    [] op = "list" -> <<"ok", ListV(s)>>
    [] op = "tuple" -> <<"ok", TupV(s)>>
    [] OTHER -> <<"unk">>
\* ---------------------------------------------------------------- scripts and faults
\* P.script[k] : values returned by successive calls of site k (last repeats)
\* P.fault[k]  : exception type raised by the i-th call of site k (0 = none)
ScriptVal(k, i) == LET s == P.script[k] IN IF i <= Len(s) THEN s[i] ELSE s[Len(s)]
FaultAt(k, i) == LET s == P.fault[k] IN IF i <= Len(s) THEN s[i] ELSE 0

\* ---------------------------------------------------------------- initial state
Init == /\ pid \in 1..Len(Programs)
        /\ nd = [n \in 1..Len(Programs[pid].nodes) |->
                   IF n = 1 THEN [NodeInit EXCEPT !.st = "run", !.env = ModEnv] ELSE NodeInit]
        /\ heap = <<NewEnv(0, "mod", [x \in 1..Programs[pid].nv |-> Absent])>>
        /\ log = <<>>
        /\ calls = [k \in 1..Len(Programs[pid].script) |-> 0]
        /\ exc = NoExc
        /\ cstack = <<>>
        /\ fin = <<"running">>

\* ---------------------------------------------------------------- stepping discipline
ChildRunning(n) == \E i \in 1..NCh(n) : St(Ch(n)[i]) = "run"
CurFn == IF cstack = <<>> THEN 0 ELSE nd[cstack[Len(cstack)]].val[2]
\* a call node waits for the body of its callee
Waiting(n) == K(n) = "call" /\ Ph(n) = 2
Ready(n) ==
  /\ St(n) = "run"
  /\ ~ChildRunning(n)
  /\ IF Waiting(n)
       THEN cstack # <<>> /\ cstack[Len(cstack)] = n /\ St(FnBody(CurFn)) = "done"
       ELSE FnOf(n) = CurFn

\* helpers that build nd'
Done(n, v) == [nd EXCEPT ![n].st = "done", ![n].val = v]
SetPh(f, n, p) == [f EXCEPT ![n].ph = p]
Env(n) == nd[n].env

UnchangedButNd == UNCHANGED <<pid, heap, log, calls, exc, cstack, fin>>
Raise(n, ty) ==
  /\ exc' = Abrupt("exc", ty, ExcV(ty), n)
  /\ nd' = [nd EXCEPT ![n].st = "idle"]
  /\ UNCHANGED <<pid, heap, log, calls, cstack, fin>>
RaiseAbrupt(n, kind, v) ==
  /\ exc' = Abrupt(kind, 0, v, n)
  /\ nd' = [nd EXCEPT ![n].st = "idle"]
  /\ UNCHANGED <<pid, heap, log, calls, cstack, fin>>

\* run children of n one after another starting with child index `first`
\* (ph = index of the child that is running or just finished)
LastVal(n, from) == IF NCh(n) < from THEN None ELSE nd[Ch(n)[NCh(n)]].val

\* ---------------------------------------------------------------- the forms
StepLit(n) == nd' = Done(n, Nodes[n].v) /\ UnchangedButNd

\* Is the value of node n thrown away (statement position)?  The compiler is
\* free not to evaluate a bare name there (a name "can't have any side
\* effect"), which is observable only when the name is unbound.
RECURSIVE Discarded(_)
Discarded(n) ==
  LET p == Par(n) IN
  IF p = 0 THEN FALSE
  ELSE LET idx == CHOOSE i \in 1..NCh(p) : Ch(p)[i] = n
           last == idx = NCh(p)
       IN CASE K(p) = "do" ->
                 IF ~last THEN TRUE
                 ELSE IF Par(p) # 0 /\ K(Par(p)) \in {"fn", "defn"} THEN FALSE
                 ELSE Discarded(p)
            [] K(p) = "finally" -> TRUE
            [] K(p) \in {"and", "or"} -> NCh(p) = 1 /\ Discarded(p)   \* (or x) is just x
            [] K(p) = "else" -> ~last \/ (IF K(Par(p)) = "try" THEN Discarded(Par(p)) ELSE TRUE)
            [] K(p) = "except" -> idx > Nodes[p].hv /\ (~last \/ Discarded(Par(p)))
            [] K(p) = "while" -> idx >= 2
            [] K(p) = "for" -> idx >= 3
            [] K(p) = "when" -> idx >= 2 /\ (~last \/ Discarded(p))
            [] K(p) = "if" -> idx >= 2 /\ Discarded(p)
            [] K(p) = "cond" -> idx % 2 = 0 /\ Discarded(p)
            [] K(p) = "let" -> idx > 2 * A(p) /\ (~last \/ Discarded(p))
            [] K(p) = "with" -> idx >= 3 /\ (~last \/ Discarded(p))
            [] K(p) = "try" -> K(n) \notin {"except", "else", "finally"} /\
                               (\E j \in (idx + 1)..NCh(p) : K(Ch(p)[j]) \notin {"except", "finally"}
                                \/ Discarded(p))
            [] OTHER -> FALSE

StepVar(n) ==
  LET r == Read(heap, Env(n), A(n)) IN
  IF r[1] = "ok" THEN nd' = Done(n, r[2]) /\ UnchangedButNd
  ELSE \/ Raise(n, r[2])
       \/ (Discarded(n) /\ nd' = Done(n, None) /\ UnchangedButNd)

\* (e k) / (e k arg): the only action that appends to the log
\* a log entry is <<site, value returned>> (None when the call raises)
RECURSIVE Proj(_)
Proj(v) == CASE v[1] = "fn" -> <<"fn", 0, <<>>>>
             [] v[1] \in {"list", "tuple"} -> <<v[1], 0, [i \in 1..Len(v[3]) |-> Proj(v[3][i])]>>
             [] OTHER -> v
EffectAllowed(k, v) ==
  P.mode = "explore" \/ (Len(log) < Len(P.obs.log) /\ P.obs.log[Len(log) + 1] = <<k, Proj(v)>>)
StepEff(n) ==
  IF NCh(n) = 1 /\ Ph(n) = 0
  THEN nd' = SetPh(Act(nd, Ch(n)[1], Env(n)), n, 1) /\ UnchangedButNd
  ELSE LET k == A(n)
           i == calls[k] + 1
           ft == FaultAt(k, i)
           v == IF NCh(n) = 1 THEN nd[Ch(n)[1]].val ELSE ScriptVal(k, i)
       IN /\ EffectAllowed(k, IF ft # 0 THEN None ELSE v)
          /\ log' = Append(log, <<k, Proj(IF ft # 0 THEN None ELSE v)>>)
          /\ calls' = [calls EXCEPT ![k] = i]
          /\ IF ft # 0
               THEN /\ exc' = Abrupt("exc", ft, ExcV(ft), n)
                    /\ nd' = [nd EXCEPT ![n].st = "idle"]
               ELSE /\ exc' = exc
                    /\ nd' = Done(n, v)
          /\ UNCHANGED <<pid, heap, cstack, fin>>

\* do / body-like sequencing from child index `first`
StepSeq(n, first, dflt) ==
  LET i == IF Ph(n) < first THEN first ELSE Ph(n) + 1 IN
  IF i <= NCh(n)
  THEN nd' = SetPh(Act(nd, Ch(n)[i], Env(n)), n, i) /\ UnchangedButNd
  ELSE nd' = Done(n, IF NCh(n) >= first THEN nd[Ch(n)[NCh(n)]].val ELSE dflt) /\ UnchangedButNd

StepIf(n) ==
  CASE Ph(n) = 0 -> nd' = SetPh(Act(nd, Ch(n)[1], Env(n)), n, 1) /\ UnchangedButNd
    [] Ph(n) = 1 -> LET b == IF Truthy(nd[Ch(n)[1]].val) THEN 2 ELSE 3 IN
                    nd' = SetPh(Act(nd, Ch(n)[b], Env(n)), n, b) /\ UnchangedButNd
    [] OTHER -> nd' = Done(n, nd[Ch(n)[Ph(n)]].val) /\ UnchangedButNd

\* (when test body...) == (if test (do body...) None)
StepWhen(n) ==
  CASE Ph(n) = 0 -> nd' = SetPh(Act(nd, Ch(n)[1], Env(n)), n, 1) /\ UnchangedButNd
    [] Ph(n) = 1 /\ ~Truthy(nd[Ch(n)[1]].val) -> nd' = Done(n, None) /\ UnchangedButNd
    [] OTHER -> StepSeq(n, 2, None)

\* (cond t1 r1 t2 r2 ...): ph odd = test running/finished, even = result
StepCond(n) ==
  LET p == Ph(n) IN
  IF p = 0 THEN
     IF NCh(n) = 0 THEN nd' = Done(n, None) /\ UnchangedButNd
     ELSE nd' = SetPh(Act(nd, Ch(n)[1], Env(n)), n, 1) /\ UnchangedButNd
  ELSE IF p % 2 = 1 THEN
     IF Truthy(nd[Ch(n)[p]].val)
     THEN nd' = SetPh(Act(nd, Ch(n)[p + 1], Env(n)), n, p + 1) /\ UnchangedButNd
     ELSE IF p + 2 <= NCh(n)
          THEN nd' = SetPh(Act(nd, Ch(n)[p + 2], Env(n)), n, p + 2) /\ UnchangedButNd
          ELSE nd' = Done(n, None) /\ UnchangedButNd
  ELSE nd' = Done(n, nd[Ch(n)[p]].val) /\ UnchangedButNd

\* and / or: operands strictly left to right, stop at the deciding one
StepAndOr(n, isAnd) ==
  LET p == Ph(n) IN
  IF NCh(n) = 0 THEN nd' = Done(n, IF isAnd THEN BoolV(TRUE) ELSE None) /\ UnchangedButNd
  ELSE IF p = 0 THEN nd' = SetPh(Act(nd, Ch(n)[1], Env(n)), n, 1) /\ UnchangedButNd
  ELSE LET v == nd[Ch(n)[p]].val IN
       IF p = NCh(n) \/ (Truthy(v) # isAnd)
       THEN nd' = Done(n, v) /\ UnchangedButNd
       ELSE nd' = SetPh(Act(nd, Ch(n)[p + 1], Env(n)), n, p + 1) /\ UnchangedButNd

StepNot(n) ==
  IF Ph(n) = 0 THEN nd' = SetPh(Act(nd, Ch(n)[1], Env(n)), n, 1) /\ UnchangedButNd
  ELSE nd' = Done(n, BoolV(~Truthy(nd[Ch(n)[1]].val))) /\ UnchangedButNd

\* assignment of value v to target node t (var, or a list pattern of targets)
\* returns <<"ok", heap'>> or <<"err", ty>>
RECURSIVE AssignTo(_, _, _, _), AssignSeq(_, _, _, _, _)
AssignTo(h, e, t, v) ==
  IF K(t) = "var" THEN <<"ok", Write(h, e, A(t), v)>>
  ELSE IF v[1] \notin {"list", "tuple"} THEN <<"err", TyTypeError>>
  ELSE IF Len(v[3]) # NCh(t) THEN <<"err", 15>>    \* ValueError
  ELSE AssignSeq(h, e, t, v[3], 1)
AssignSeq(h, e, t, vs, i) ==
  IF i > NCh(t) THEN <<"ok", h>>
  ELSE LET r == AssignTo(h, e, Ch(t)[i], vs[i]) IN
       IF r[1] = "err" THEN r ELSE AssignSeq(r[2], e, t, vs, i + 1)

\* (setv t1 v1 t2 v2 ...): ph = index of the value child running/finished
StepSetv(n) ==
  LET p == Ph(n) IN
  IF p = 0 THEN
     IF NCh(n) = 0 THEN nd' = Done(n, None) /\ UnchangedButNd
     ELSE nd' = SetPh(Act(nd, Ch(n)[2], Env(n)), n, 2) /\ UnchangedButNd
  ELSE LET r == AssignTo(heap, Env(n), Ch(n)[p - 1], nd[Ch(n)[p]].val) IN
       IF r[1] = "err" THEN Raise(n, r[2])
       ELSE /\ heap' = r[2]
            /\ IF p + 2 <= NCh(n)
                 THEN nd' = SetPh(Act(nd, Ch(n)[p + 2], Env(n)), n, p + 2)
                 ELSE nd' = Done(n, None)
            /\ UNCHANGED <<pid, log, calls, exc, cstack, fin>>

\* (setx name value): assigns in the nearest Python scope unless a let/fn
\* binding of the name is nearer; inside a comprehension it leaks outward
StepSetx(n) ==
  IF Ph(n) = 0 THEN nd' = SetPh(Act(nd, Ch(n)[2], Env(n)), n, 1) /\ UnchangedButNd
  ELSE LET v == nd[Ch(n)[2]].val IN
       /\ heap' = Write(heap, Env(n), A(Ch(n)[1]), v)
       /\ nd' = Done(n, v)
       /\ UNCHANGED <<pid, log, calls, exc, cstack, fin>>

\* (let [t1 v1 ... tk vk] body...): one new environment per binding (let*)
StepLet(n) ==
  LET nb == A(n)
      p == Ph(n)
      cur == IF p = 0 THEN Env(n) ELSE nd[n].val[2]   \* innermost let env so far
  IN
  IF p = 0 /\ nb > 0 THEN
       /\ nd' = [SetPh(Act(nd, Ch(n)[2], Env(n)), n, 2) EXCEPT ![n].val = IntV(Env(n))]
       /\ UnchangedButNd
  ELSE IF p = 0 THEN \* no bindings: body directly
       /\ nd' = [nd EXCEPT ![n].ph = 2 * nb, ![n].val = IntV(Env(n)), ![n].md = "body"]
       /\ UnchangedButNd
  ELSE IF nd[n].md # "body" THEN
       \* value child p finished: bind target p-1 in a fresh env
       LET e2 == Len(heap) + 1
           h1 == Append(heap, NewEnv(cur, "let",
                        [x \in Names |-> IF x \in TargetNames(Ch(n)[p - 1]) THEN Unb ELSE Absent]))
           r == AssignTo(h1, e2, Ch(n)[p - 1], nd[Ch(n)[p]].val)
       IN IF r[1] = "err" THEN Raise(n, r[2])
          ELSE /\ heap' = r[2]
               /\ IF p < 2 * nb
                    THEN nd' = [SetPh(Act(nd, Ch(n)[p + 2], e2), n, p + 2) EXCEPT ![n].val = IntV(e2)]
                    ELSE nd' = [nd EXCEPT ![n].val = IntV(e2), ![n].md = "body"]
               /\ UNCHANGED <<pid, log, calls, exc, cstack, fin>>
  ELSE \* body
       LET i == p + 1 IN
       IF i <= NCh(n)
       THEN nd' = SetPh(Act(nd, Ch(n)[i], cur), n, i) /\ UnchangedButNd
       ELSE nd' = Done(n, IF NCh(n) > 2 * nb THEN nd[Ch(n)[NCh(n)]].val ELSE None) /\ UnchangedButNd

\* collections, operators: argument lists -- all children start together
StepArgs(n) ==
  IF Ph(n) = 0 /\ NCh(n) > 0
  THEN nd' = SetPh(ActAll(nd, Ch(n), Env(n)), n, 1) /\ UnchangedButNd
  ELSE LET r == OpApply(A(n), [i \in 1..NCh(n) |-> nd[Ch(n)[i]].val]) IN
       IF r[1] = "ok" THEN nd' = Done(n, r[2]) /\ UnchangedButNd
       ELSE IF r[1] = "unk"
       THEN fin' = <<"oos">> /\ UNCHANGED <<pid, nd, heap, log, calls, exc, cstack>>
       ELSE Raise(n, r[2])

\* n-ary + and - are left folds of binary operations: Python applies the
\* binary operation to the first operands before it evaluates the expression
\* of a later one, so a TypeError of a prefix may surface while later operands
\* are still unevaluated (they are then abandoned)
EarlyFold(n) ==
  /\ exc.kind = "none" /\ fin = <<"running">>
  /\ K(n) = "args" /\ A(n) \in {"+", "-"} /\ St(n) = "run" /\ Ph(n) = 1
  /\ FnOf(n) = CurFn
  /\ \E i \in 2..(NCh(n) - 1) :
        /\ \A j \in 1..i : St(Ch(n)[j]) = "done"
        /\ \E j \in (i + 1)..NCh(n) : St(Ch(n)[j]) # "done"
        /\ LET r == OpApply(A(n), [j \in 1..i |-> nd[Ch(n)[j]].val]) IN
             r[1] = "err" /\ Raise(n, r[2])

\* (fn [params] body...) evaluates to a closure over the current environment
StepFn(n) == nd' = Done(n, FnV(n, Env(n))) /\ UnchangedButNd

\* (defn name [params] body...): binds in the enclosing Python scope
StepDefn(n) ==
  /\ heap' = [heap EXCEPT ![PyScope(heap, Env(n))].vars[A(Ch(n)[1])] = FnV(n, Env(n))]
  /\ nd' = Done(n, None)
  /\ UNCHANGED <<pid, log, calls, exc, cstack, fin>>

\* (callee arg...): callee and arguments form one argument list
StepCall(n) ==
  CASE Ph(n) = 0 -> nd' = SetPh(ActAll(nd, Ch(n), Env(n)), n, 1) /\ UnchangedButNd
    [] Ph(n) = 1 ->
       LET f == nd[Ch(n)[1]].val IN
       IF f[1] # "fn" THEN Raise(n, TyTypeError)
       ELSE LET fnode == f[2]
                ps == FnParams(fnode)
            IN IF Len(ps) # NCh(n) - 1 THEN Raise(n, TyTypeError)
               ELSE IF St(FnBody(fnode)) = "run" \/ Len(cstack) >= 3
               THEN \* recursion / deep nesting: outside the modelled fragment
                    /\ fin' = <<"oos">>
                    /\ UNCHANGED <<pid, nd, heap, log, calls, exc, cstack>>
               ELSE LET e2 == Len(heap) + 1
                        vs0 == FnVars(fnode)
                        vs == [x \in Names |->
                                 IF \E i \in 1..Len(ps) : A(ps[i]) = x
                                 THEN nd[Ch(n)[1 + (CHOOSE i \in 1..Len(ps) : A(ps[i]) = x)]].val
                                 ELSE vs0[x]]
                    IN /\ heap' = Append(heap, NewEnv(f[3][1], "fn", vs))
                       /\ nd' = [Act(nd, FnBody(fnode), e2) EXCEPT ![n].ph = 2, ![n].val = f]
                       /\ cstack' = Append(cstack, n)
                       /\ UNCHANGED <<pid, log, calls, exc, fin>>
    [] OTHER -> \* body finished normally: implicit return of its value
       LET b == FnBody(nd[n].val[2]) IN
       /\ nd' = [nd EXCEPT ![n].st = "done", ![n].val = nd[b].val, ![b].st = "idle"]
       /\ cstack' = SubSeq(cstack, 1, Len(cstack) - 1)
       /\ UNCHANGED <<pid, heap, log, calls, exc, fin>>

StepReturn(n) ==
  IF NCh(n) = 1 /\ Ph(n) = 0
  THEN nd' = SetPh(Act(nd, Ch(n)[1], Env(n)), n, 1) /\ UnchangedButNd
  ELSE RaiseAbrupt(n, "ret", IF NCh(n) = 1 THEN nd[Ch(n)[1]].val ELSE None)

StepRaise(n) ==
  IF Ph(n) = 0
  THEN nd' = SetPh(Act(nd, Ch(n)[1], Env(n)), n, 1) /\ UnchangedButNd
  ELSE LET v == nd[Ch(n)[1]].val IN
       IF v[1] = "exc" THEN Raise(n, v[2]) ELSE Raise(n, TyTypeError)

\* (while cond body... (else ...)): md "" = loop, "else" = else clause
HasElse(n) == NCh(n) > 0 /\ K(Ch(n)[NCh(n)]) = "else"
NBody(n) == IF HasElse(n) THEN NCh(n) - 1 ELSE NCh(n)
StepWhile(n) ==
  LET p == Ph(n) IN
  IF nd[n].md = "else" THEN nd' = Done(n, None) /\ UnchangedButNd
  ELSE IF p = 0 THEN nd' = SetPh(Act(nd, Ch(n)[1], Env(n)), n, 1) /\ UnchangedButNd
  ELSE IF p = 1 /\ ~Truthy(nd[Ch(n)[1]].val) THEN
       IF HasElse(n)
       THEN nd' = [Act(nd, Ch(n)[NCh(n)], Env(n)) EXCEPT ![n].md = "else"] /\ UnchangedButNd
       ELSE nd' = Done(n, None) /\ UnchangedButNd
  ELSE IF p < NBody(n)
       THEN nd' = SetPh(Act(nd, Ch(n)[p + 1], Env(n)), n, p + 1) /\ UnchangedButNd
       ELSE nd' = SetPh(Act(nd, Ch(n)[1], Env(n)), n, 1) /\ UnchangedButNd

\* (for [target iterable] body... (else ...)): val = remaining items
StepFor(n) ==
  LET p == Ph(n) IN
  IF nd[n].md = "else" THEN nd' = Done(n, None) /\ UnchangedButNd
  ELSE IF p = 0 THEN nd' = SetPh(Act(nd, Ch(n)[2], Env(n)), n, 2) /\ UnchangedButNd
  ELSE IF p = 2 /\ nd[n].md = "" THEN   \* iterable evaluated
       LET it == nd[Ch(n)[2]].val IN
       IF it[1] = "str" THEN fin' = <<"oos">> /\ UNCHANGED <<pid, nd, heap, log, calls, exc, cstack>>
       ELSE IF it[1] \notin {"list", "tuple"} THEN Raise(n, TyTypeError)
       ELSE nd' = [nd EXCEPT ![n].md = "iter", ![n].val = it, ![n].ph = NBody(n)] /\ UnchangedButNd
  ELSE IF p < NBody(n)
       THEN nd' = SetPh(Act(nd, Ch(n)[p + 1], Env(n)), n, p + 1) /\ UnchangedButNd
  ELSE \* next item
       LET items == nd[n].val[3] IN
       IF items = <<>> THEN
          IF HasElse(n)
          THEN nd' = [Act(nd, Ch(n)[NCh(n)], Env(n)) EXCEPT ![n].md = "else"] /\ UnchangedButNd
          ELSE nd' = Done(n, None) /\ UnchangedButNd
       ELSE LET r == AssignTo(heap, Env(n), Ch(n)[1], Head(items)) IN
            IF r[1] = "err" THEN Raise(n, r[2])
            ELSE /\ heap' = r[2]
                 /\ nd' = IF NBody(n) >= 3
                          THEN [Act(nd, Ch(n)[3], Env(n)) EXCEPT ![n].ph = 3, ![n].val = ListV(Tail(items))]
                          ELSE [nd EXCEPT ![n].val = ListV(Tail(items))]
                 /\ UNCHANGED <<pid, log, calls, exc, cstack, fin>>

\* (try body... (except [v T] ...)... (else ...) (finally ...))
\* md: "body" | "handler" | "else" | "finally"; sv = abrupt completion that
\* is pending while finally runs; val = result so far
IsClause(c) == K(c) \in {"except", "else", "finally"}
TryNBody(n) == Cardinality({i \in 1..NCh(n) : ~IsClause(Ch(n)[i])})
TryClause(n, kind) == {i \in 1..NCh(n) : K(Ch(n)[i]) = kind}
TryFinally(n) == IF TryClause(n, "finally") = {} THEN 0 ELSE Ch(n)[CHOOSE i \in TryClause(n, "finally") : TRUE]
TryElse(n) == IF TryClause(n, "else") = {} THEN 0 ELSE Ch(n)[CHOOSE i \in TryClause(n, "else") : TRUE]
\* after body/handler/else completed with value v: go to finally or finish
TryWrapUp(n, v, pending) ==
  LET f == TryFinally(n) IN
  IF f # 0
  THEN /\ nd' = [Act(nd, f, Env(n)) EXCEPT ![n].md = "finally", ![n].val = v, ![n].sv = pending]
       /\ exc' = NoExc
       /\ UNCHANGED <<pid, heap, log, calls, cstack, fin>>
  ELSE IF pending.kind = "none"
       THEN /\ nd' = Done(n, v) /\ exc' = NoExc
            /\ UNCHANGED <<pid, heap, log, calls, cstack, fin>>
       ELSE /\ nd' = [nd EXCEPT ![n].st = "idle"]
            /\ exc' = [pending EXCEPT !.at = n]
            /\ UNCHANGED <<pid, heap, log, calls, cstack, fin>>
StepTry(n) ==
  LET p == Ph(n)
      nb == TryNBody(n)
      md == IF nd[n].md = "" THEN "body" ELSE nd[n].md
  IN
  CASE md = "body" ->
         IF p < nb THEN nd' = [SetPh(Act(nd, Ch(n)[p + 1], Env(n)), n, p + 1) EXCEPT ![n].md = "body"]
                        /\ UnchangedButNd
         ELSE LET v == IF nb = 0 THEN None ELSE nd[Ch(n)[nb]].val
                  el == TryElse(n) IN
              IF el # 0 /\ NCh(el) > 0
              THEN nd' = [Act(nd, el, Env(n)) EXCEPT ![n].md = "else", ![n].val = v] /\ UnchangedButNd
              ELSE TryWrapUp(n, v, NoExc)
    [] md = "handler" -> TryWrapUp(n, nd[Ch(n)[nd[n].ph]].val, NoExc)
    [] md = "else" -> TryWrapUp(n, nd[TryElse(n)].val, NoExc)
    [] OTHER -> \* finally completed normally: resume whatever was pending
         LET pending == nd[n].sv IN
         IF pending.kind = "none"
         THEN nd' = Done(n, nd[n].val) /\ UnchangedButNd
         ELSE /\ nd' = [nd EXCEPT ![n].st = "idle"]
              /\ exc' = [pending EXCEPT !.at = n]
              /\ UNCHANGED <<pid, heap, log, calls, cstack, fin>>

\* an except clause is a `do` over its body (first child is the variable if hv=1)
StepExcept(n) == StepSeq(n, IF Nodes[n].hv = 1 THEN 2 ELSE 1, None)

\* (with [target mgr] body...): sites 100+id (enter) and 200+id (exit) are
\* effect sites too.  md: "" -> mgr, "enter", "body", "exit"
CmId(v) == v[2]
EnterSite(c) == P.cmbase + 2 * c - 1
ExitSite(c) == P.cmbase + 2 * c
StepWith(n) ==
  LET md == nd[n].md IN
  CASE md = "" /\ Ph(n) = 0 ->
         nd' = SetPh(Act(nd, Ch(n)[2], Env(n)), n, 2) /\ UnchangedButNd
    [] md = "" ->   \* manager evaluated: call __enter__
         LET m == nd[Ch(n)[2]].val IN
         IF m[1] # "cm" THEN Raise(n, TyTypeError)
         ELSE LET k == EnterSite(CmId(m))
                  i == calls[k] + 1
                  ft == FaultAt(k, i)
                  v == ScriptVal(k, i)
              IN /\ EffectAllowed(k, IF ft # 0 THEN None ELSE v)
                 /\ log' = Append(log, <<k, Proj(IF ft # 0 THEN None ELSE v)>>)
                 /\ calls' = [calls EXCEPT ![k] = i]
                 /\ IF ft # 0
                      THEN /\ exc' = Abrupt("exc", ft, ExcV(ft), n)
                           /\ nd' = [nd EXCEPT ![n].st = "idle"]
                           /\ heap' = heap
                      ELSE /\ exc' = exc
                           /\ heap' = IF K(Ch(n)[1]) = "var"
                                      THEN Write(heap, Env(n), A(Ch(n)[1]), v) ELSE heap
                           /\ nd' = [nd EXCEPT ![n].md = "body", ![n].val = m, ![n].ph = 2]
                 /\ UNCHANGED <<pid, cstack, fin>>
    [] md = "body" ->
         LET i == Ph(n) + 1 IN
         IF i <= NCh(n)
         THEN nd' = SetPh(Act(nd, Ch(n)[i], Env(n)), n, i) /\ UnchangedButNd
         ELSE \* normal exit: __exit__(None, None, None)
              LET m == nd[n].val
                  k == ExitSite(CmId(m))
                  j == calls[k] + 1
                  ft == FaultAt(k, j)
                  res == IF NCh(n) > 2 THEN nd[Ch(n)[NCh(n)]].val ELSE None
              IN /\ EffectAllowed(k, None)
                 /\ log' = Append(log, <<k, None>>)
                 /\ calls' = [calls EXCEPT ![k] = j]
                 /\ IF ft # 0
                      THEN /\ exc' = Abrupt("exc", ft, ExcV(ft), n)
                           /\ nd' = [nd EXCEPT ![n].st = "idle"]
                      ELSE /\ exc' = exc
                           /\ nd' = Done(n, res)
                 /\ UNCHANGED <<pid, heap, cstack, fin>>
    [] OTHER -> FALSE

StepDecl(n) == nd' = Done(n, None) /\ UnchangedButNd   \* (global ...) (nonlocal ...)
StepCm(n) == nd' = Done(n, <<"cm", A(n), <<>>>>) /\ UnchangedButNd

Step(n) ==
  /\ exc.kind = "none"
  /\ fin = <<"running">>
  /\ Ready(n)
  /\ CASE K(n) = "lit" -> StepLit(n)
       [] K(n) = "var" -> StepVar(n)
       [] K(n) = "eff" -> StepEff(n)
       [] K(n) \in {"do", "else", "finally"} -> StepSeq(n, 1, None)
       [] K(n) = "except" -> StepExcept(n)
       [] K(n) = "if" -> StepIf(n)
       [] K(n) = "when" -> StepWhen(n)
       [] K(n) = "cond" -> StepCond(n)
       [] K(n) = "and" -> StepAndOr(n, TRUE)
       [] K(n) = "or" -> StepAndOr(n, FALSE)
       [] K(n) = "not" -> StepNot(n)
       [] K(n) = "setv" -> StepSetv(n)
       [] K(n) = "setx" -> StepSetx(n)
       [] K(n) = "let" -> StepLet(n)
       [] K(n) = "args" -> StepArgs(n)
       [] K(n) = "fn" -> StepFn(n)
       [] K(n) = "defn" -> StepDefn(n)
       [] K(n) = "call" -> StepCall(n)
       [] K(n) = "return" -> StepReturn(n)
       [] K(n) = "raise" -> StepRaise(n)
       [] K(n) = "while" -> StepWhile(n)
       [] K(n) = "for" -> StepFor(n)
       [] K(n) = "try" -> StepTry(n)
       [] K(n) = "with" -> StepWith(n)
       [] K(n) \in {"global", "nonlocal"} -> StepDecl(n)
       [] K(n) = "cm" -> StepCm(n)
       [] K(n) = "break" -> RaiseAbrupt(n, "brk", None)
       [] K(n) = "continue" -> RaiseAbrupt(n, "cnt", None)

\* the root finished normally
Finish ==
  /\ fin = <<"running">>
  /\ exc.kind = "none"
  /\ St(1) = "done"
  /\ fin' = <<"val", nd[1].val>>
  /\ UNCHANGED <<pid, nd, heap, log, calls, exc, cstack>>

\* ---------------------------------------------------------------- abrupt completions
\* The pending completion sits at node exc.at; its parent decides.
\* The body of a function has the calling node as its dynamic parent.
DynPar(n) ==
  IF cstack # <<>> /\ n = FnBody(CurFn) THEN cstack[Len(cstack)] ELSE Par(n)

\* first handler (child index) of try n that catches type ty, or 0
Handler(n, ty) ==
  LET hs == {i \in 1..NCh(n) : K(Ch(n)[i]) = "except" /\ Catches(Nodes[Ch(n)[i]].ts, ty)} IN
  IF hs = {} THEN 0 ELSE CHOOSE i \in hs : \A j \in hs : i <= j

Propagate ==
  /\ exc.kind # "none"
  /\ fin = <<"running">>
  /\ LET n == exc.at
         p == DynPar(n)
     IN
     IF p = 0 THEN
        /\ fin' = IF exc.kind = "exc" THEN <<"exc", exc.ty>> ELSE <<"abrupt", exc.kind>>
        /\ UNCHANGED <<pid, nd, heap, log, calls, exc, cstack>>
     ELSE
     LET kd == Kill(nd, p) IN
     CASE K(p) = "call" /\ Waiting(p) /\ cstack # <<>> /\ cstack[Len(cstack)] = p /\ n = FnBody(CurFn) ->
            \* leaving the function
            /\ cstack' = SubSeq(cstack, 1, Len(cstack) - 1)
            /\ IF exc.kind = "ret"
                 THEN /\ nd' = [nd EXCEPT ![p].st = "done", ![p].val = exc.val, ![n].st = "idle"]
                      /\ exc' = NoExc
                 ELSE /\ nd' = [nd EXCEPT ![p].st = "idle", ![n].st = "idle"]
                      /\ exc' = [exc EXCEPT !.at = p]
            /\ UNCHANGED <<pid, heap, log, calls, fin>>
       \* (the iterable of a `for` is evaluated before the loop is entered: a break / continue there belongs to
       \* the enclosing loop; the condition of a `while` is evaluated inside the loop)
       [] K(p) \in {"while", "for"} /\ exc.kind \in {"brk", "cnt"} /\ nd[p].md # "else"
          /\ ~(K(p) = "for" /\ n = Ch(p)[2]) ->
            /\ exc' = NoExc
            /\ IF exc.kind = "brk"
                 THEN nd' = [kd EXCEPT ![p].st = "done", ![p].val = None]
                 ELSE \* continue: back to the condition / next item
                      nd' = IF K(p) = "while" THEN [kd EXCEPT ![p].ph = 0]
                            ELSE [kd EXCEPT ![p].ph = NBody(p)]
            /\ UNCHANGED <<pid, heap, log, calls, cstack, fin>>
       [] K(p) = "try" /\ nd[p].md \in {"body", ""} /\ exc.kind = "exc" /\ Handler(p, exc.ty) # 0 ->
            LET hi == Handler(p, exc.ty)
                h == Ch(p)[hi]
            IN IF Nodes[h].hv = 1
               THEN \* the handler variable lives in a scope of its own
                    LET e2 == Len(heap) + 1 IN
                    /\ heap' = Append(heap, NewEnv(nd[p].env, "let",
                                  [x \in Names |-> IF x = A(Ch(h)[1]) THEN exc.val ELSE Absent]))
                    /\ nd' = [Act(kd, h, e2) EXCEPT ![p].md = "handler", ![p].ph = hi, ![p].sv = exc]
                    /\ exc' = NoExc
                    /\ UNCHANGED <<pid, log, calls, cstack, fin>>
               ELSE /\ nd' = [Act(kd, h, nd[p].env) EXCEPT ![p].md = "handler", ![p].ph = hi, ![p].sv = exc]
                    /\ exc' = NoExc
                    /\ UNCHANGED <<pid, heap, log, calls, cstack, fin>>
       [] K(p) = "try" /\ nd[p].md \in {"body", "", "handler", "else"} /\ TryFinally(p) # 0 ->
            \* no handler applies: run finally with the completion pending
            /\ nd' = [Act(kd, TryFinally(p), nd[p].env) EXCEPT ![p].md = "finally", ![p].sv = exc]
            /\ exc' = NoExc
            /\ UNCHANGED <<pid, heap, log, calls, cstack, fin>>
       [] K(p) = "with" /\ nd[p].md = "body" ->
            \* __exit__ is called with the exception (or for return/break/continue: normally)
            LET m == nd[p].val
                k == ExitSite(CmId(m))
                j == calls[k] + 1
                ft == FaultAt(k, j)
            IN /\ EffectAllowed(k, None)
               /\ log' = Append(log, <<k, None>>)
               /\ calls' = [calls EXCEPT ![k] = j]
               /\ IF ft # 0
                    THEN /\ exc' = Abrupt("exc", ft, ExcV(ft), p)
                         /\ nd' = [kd EXCEPT ![p].st = "idle"]
                    ELSE IF exc.kind = "exc" /\ P.supp[CmId(m)] = 1
                    THEN /\ exc' = NoExc
                         /\ nd' = [kd EXCEPT ![p].st = "done", ![p].val = None]
                    ELSE /\ exc' = [exc EXCEPT !.at = p]
                         /\ nd' = [kd EXCEPT ![p].st = "idle"]
               /\ UNCHANGED <<pid, heap, cstack, fin>>
       [] OTHER ->
            /\ nd' = [kd EXCEPT ![p].st = "idle"]
            /\ exc' = [exc EXCEPT !.at = p]
            /\ UNCHANGED <<pid, heap, log, calls, cstack, fin>>

Next == (\E n \in 1..N : Step(n) \/ EarlyFold(n)) \/ Propagate \/ Finish
Spec == Init /\ [][Next]_vars

Finished == fin # <<"running">>

\* ---------------------------------------------------------------- observables
GlobalsNow == [x \in Names |-> heap[ModEnv].vars[x]]
Outcome == [out |-> IF fin[1] = "val" THEN <<"val", Proj(fin[2])>> ELSE fin,
            log |-> log,
            globals |-> [x \in Names |-> Proj(GlobalsNow[x])]]
=============================================================================
