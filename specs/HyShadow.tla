------------------------------- MODULE HyShadow -------------------------------
(* What a name means inside and after a construct that binds it, when the     *)
(* name is also let-bound (docs/api.rst, let; hy/scoping.py ScopeLet,        *)
(* ScopeFn.__init__, ScopeGen; the "fake scope" of an except clause in       *)
(* hy/core/result_macros.py) -- part of property C06.                         *)
(*                                                                           *)
(* The program is                                                            *)
(*     (setv x Outer) (let [x LetVal] <wrapper <binder of x>> (read x)) (read x) *)
(* at module level or in a function.  Every binder belongs to one of the     *)
(* classes the documentation distinguishes:                                  *)
(*   param   "arguments in nested functions ... can shadow these names"      *)
(*   let     "bindings in nested let forms can shadow these names"           *)
(*   assign  "basic assignments ... will update the local variable named by  *)
(*            a let binding" (setv, setx, +=, for, with, match capture)      *)
(*   compr   "assignments in iteration clauses and :setv clauses will create *)
(*            a new variable in the comprehension form's own scope"          *)
(*   except  the exception variable lives in the handler only                *)
(*   hoist   "import / defn / defclass assign in the Python scope, even if   *)
(*            it shares the name of a let binding"                           *)
EXTENDS Naturals, Sequences, FiniteSets, TLC, Json

Outer == 0      \* the same-named variable of the Python scope, assigned before the let
LetVal == 1     \* the let binding
New == 5        \* what the binder binds the name to
Hoisted == 7    \* what defn / defclass / import bind it to
None == 99      \* no read is generated

\* <<binder, class, has a body in which the new binding is read>>
Binders == {
  <<"param", "param", TRUE>>, <<"posonly", "param", TRUE>>, <<"kwonly", "param", TRUE>>, <<"default", "param", TRUE>>,
  <<"default2", "param", TRUE>>, <<"rest", "param", TRUE>>, <<"kwrest", "param", TRUE>>, <<"defn-param", "param", TRUE>>,
  <<"defn-posonly", "param", TRUE>>, <<"defn-kwonly", "param", TRUE>>, <<"defn-rest", "param", TRUE>>,
  <<"let", "let", TRUE>>, <<"let-unpack", "let", TRUE>>,
  <<"setv", "assign", FALSE>>, <<"setx", "assign", FALSE>>, <<"aug", "assign", FALSE>>, <<"unpack", "assign", FALSE>>,
  <<"for", "assign", TRUE>>, <<"with", "assign", TRUE>>, <<"match", "assign", TRUE>>, <<"match-as", "assign", TRUE>>,
  \* assignments inside a comprehension that are not iteration or :setv clauses (an assignment expression in the
  \* element or in :if, a setv in :do) are basic assignments: as in Python they reach the enclosing scope
  <<"compr-setx", "assign", TRUE>>, <<"compr-setx-stmt", "assign", TRUE>>, <<"compr-setx-if", "assign", TRUE>>,
  <<"gfor-setx", "assign", TRUE>>, <<"dfor-setx", "assign", TRUE>>, <<"compr-do-setv", "assign", TRUE>>,
  <<"lfor", "compr", TRUE>>, <<"sfor", "compr", TRUE>>, <<"gfor", "compr", TRUE>>, <<"dfor", "compr", TRUE>>,
  <<"compr-setv", "compr", TRUE>>, <<"iter-read", "compr", TRUE>>, <<"compr-unpack", "compr", TRUE>>,
  <<"lfor-stmt", "compr", TRUE>>, <<"iter-read-stmt", "compr", TRUE>>,
  \* the iteration variable stays the comprehension's own when the body assigns to it again
  <<"setv-own-itervar", "compr", TRUE>>, <<"setx-own-itervar", "compr", TRUE>>,
  <<"except", "except", TRUE>>,
  <<"defn", "hoist", FALSE>>, <<"defclass", "hoist", FALSE>>, <<"import-as", "hoist", FALSE>>}
Levels == {"module", "fn"}
\* forms around the binder that stay in the same Python scope
Wrappers == {"direct", "do", "if", "other-let", "try-body", "when-value"}

VARIABLES b, lvl, w
vars == <<b, lvl, w>>
Init == b \in Binders /\ lvl \in Levels /\ w \in Wrappers
Next == UNCHANGED vars
Spec == Init /\ [][Next]_vars

Class == b[2]
\* the read inside the binder's body
In == IF b[3] THEN New ELSE None
\* the read in the let body after the binder
After == CASE Class = "assign" -> New
           [] Class = "hoist" -> Hoisted
           [] OTHER -> LetVal
\* the read after the let
Out == IF Class = "hoist" THEN Hoisted ELSE Outer

\* ---- laws
\* constructs with a scope of their own give the name back
LexicalRestore == Class \in {"param", "let", "compr", "except"} => After = LetVal
\* an assignment through a let-bound name updates the let binding and nothing else
AssignUpdatesBinding == Class = "assign" => (After = New /\ Out = Outer)
\* no let binding, and no shadowing construct, touches the variable of the Python scope
OuterUntouched == Class # "hoist" => Out = Outer
\* only hoisting constructs reach the Python scope, and then the let no longer binds the name there
HoistReachesPythonScope == Class = "hoist" => (After = Hoisted /\ Out = Hoisted)

Export == PrintT(<<"CASE", ToJson([b |-> b[1], cls |-> b[2], lvl |-> lvl, w |-> w, rin |-> In, after |-> After, out |-> Out])>>)
=============================================================================
