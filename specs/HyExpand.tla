------------------------------- MODULE HyExpand -------------------------------
(* hy.macroexpand-1 and hy.macroexpand (hy/core/util.hy, hy/macros.py) --    *)
(* property C36.  A macro environment maps each user macro to what it        *)
(* expands into: a call of another user macro, of the core macro `when`      *)
(* (which is itself written in Hy and expands to an `if` form), of the core  *)
(* form `if` (whose macro returns a compiler result, so it must be left      *)
(* alone), of an ordinary function, or a plain integer.  Forms are           *)
(* [h, k]: head and "kind" (how the argument list looks).                    *)
EXTENDS Naturals, Sequences, FiniteSets, TLC, Json

Macros == {"m1", "m2", "m3"}
Targets == Macros \cup {"when", "if", "f", "5"}
Heads == Macros \cup {"when", "if", "f"}

VARIABLES env, start
vars == <<env, start>>
\* the chain from m must end: m3 may only go to non-user targets, m2 to m3 or non-user, ...
Rank(m) == CASE m = "m1" -> 1 [] m = "m2" -> 2 [] m = "m3" -> 3 [] OTHER -> 9
Init == /\ env \in [Macros -> Targets]
        /\ \A m \in Macros : Rank(env[m]) > Rank(m) \/ env[m] \notin Macros
        /\ start \in Heads
Next == UNCHANGED vars
Spec == Init /\ [][Next]_vars

\* a form: (h 7) as written by the user; shape "call" = (h 7), "ifform" = (if 7 (do) None), "int" = 5
Form(h) == [h |-> h, shape |-> "call"]
Expandable(f) == f.shape = "call" /\ (f.h \in Macros \/ f.h = "when")
\* one expansion step
Step(f) ==
  IF f.shape # "call" THEN f
  ELSE IF f.h \in Macros THEN (IF env[f.h] = "5" THEN [h |-> "5", shape |-> "int"] ELSE Form(env[f.h]))
  ELSE IF f.h = "when" THEN [h |-> "if", shape |-> "ifform"]
  ELSE f       \* `if` (a macro that yields a compiler result), a function, anything else: unchanged
Expand1(f) == Step(f)
RECURSIVE Fix(_, _)
Fix(f, fuel) == IF fuel = 0 \/ ~Expandable(f) THEN f ELSE Fix(Step(f), fuel - 1)
ExpandAll(f) == Fix(f, 10)

\* ---- laws
OneStepOnly ==    \* macroexpand-1 changes the form iff its head names an expandable macro
  LET f == Form(start) IN (Expand1(f) # f) = Expandable(f)
FixpointHeadNotMacro == ~Expandable(ExpandAll(Form(start)))
FixIsIteratedStep ==
  LET f == Form(start) IN
  \E n \in 0..5 : LET RECURSIVE It(_, _)
                      It(g, k) == IF k = 0 THEN g ELSE It(Step(g), k - 1)
                  IN It(f, n) = ExpandAll(f) /\ \A k \in 0..(n - 1) : Expandable(It(f, k))
ResultMacroLeftAlone == Expand1([h |-> "if", shape |-> "call"]) = [h |-> "if", shape |-> "call"]

Export == PrintT(<<"ENV", ToJson([env |-> env, start |-> start, one |-> Expand1(Form(start)),
                                  all |-> ExpandAll(Form(start))])>>)
=============================================================================
