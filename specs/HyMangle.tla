------------------------------ MODULE HyMangle ------------------------------
(* hy.mangle / hy.unmangle over abstract character classes (C32, C33).       *)
(*                                                                           *)
(* A name is a sequence of characters; a character is abstracted to the      *)
(* class that the algorithm in hy/reader/mangling.py can distinguish:        *)
(*   S  legal identifier start, unchanged by NFKC          a                 *)
(*   K  legal identifier start, changed by NFKC            U+1D525 (frak h)  *)
(*   C  legal only after the first character               1                 *)
(*   M  combining mark (legal only after the first)        U+0301            *)
(*   W  combining mark that NFKC composes with a preceding X   U+0307        *)
(*   H  hyphen                                             -                 *)
(*   U  underscore                                         _                 *)
(*   V  character that NFKC maps to an underscore          U+FF3F            *)
(*   X  the escape delimiter                               X                 *)
(*   Q  legal character whose NFKC image is the delimiter  U+FF38            *)
(*   N  illegal character that has a Unicode name          !                 *)
(*   Z  illegal character without a name                   U+E000            *)
(*   D  dot                                                .                 *)
(* The output is a sequence of tokens:                                       *)
(*   [t |-> "us"]            an underscore                                   *)
(*   [t |-> "hyx"]           the prefix hyx_                                 *)
(*   [t |-> "lit", c |-> cl] the (NFKC image of the) input character         *)
(*   [t |-> "x"]             a literal X                                     *)
(*   [t |-> "esc", c |-> cl] X<name or U+hex of the character>X              *)
(*   [t |-> "dot"]           a dot between separately mangled parts          *)
(* Unicode facts the laws rely on are explicit assumptions, discharged by    *)
(* the harness over all code points:                                         *)
(*   A1 NFKC maps a legal identifier to a legal identifier, char by char     *)
(*   A2 a character name, lower-cased with - -> H and space -> _, matches    *)
(*      [_a-z0-9H]+                                                          *)
(*   A3 no legal character other than X has an NFKC image containing X       *)
(*      (class Q is exactly the set of counterexamples)                      *)
(*   A4 NFKC does not compose a character with the delimiter or the prefix   *)
EXTENDS Naturals, Sequences, FiniteSets, TLC, Json

CONSTANTS Classes,   \* subset of the 13 classes used in this run
          MaxLen,
          EscapeQ    \* TRUE: inside hyx_ names, characters whose normalisation would produce or
                     \* swallow a delimiter (classes Q, W) are escaped (the implementation since
                     \* the fix for C33); FALSE: they are kept, as before the fix

Us == [t |-> "us", c |-> ""]
Hyx == [t |-> "hyx", c |-> ""]
Lit(cl) == [t |-> "lit", c |-> cl]
RawX == [t |-> "x", c |-> ""]
Esc(cl) == [t |-> "esc", c |-> cl]
Dot == [t |-> "dot", c |-> ""]

IsUnder(cl) == cl \in {"U", "V"}
RECURSIVE LeadCount(_)
LeadCount(s) == IF s # <<>> /\ IsUnder(Head(s)) THEN 1 + LeadCount(Tail(s)) ELSE 0

StartOk(cl) == cl \in {"S", "K", "X", "Q"}
ContOk(cl) == cl \in {"S", "K", "X", "Q", "C", "M", "W", "U", "V", "u"}   \* "u" = underscore made from a hyphen

\* step 2: hyphens after the first character become underscores
Conv(body) == [i \in 1..Len(body) |-> IF i > 1 /\ body[i] = "H" THEN "u" ELSE body[i]]

IsIdent(lead, cb) ==
  \A i \in 1..Len(cb) : IF i = 1 /\ lead = 0 THEN StartOk(cb[i]) ELSE ContOk(cb[i])

TokOf(cl) == IF cl \in {"U", "V", "u"} THEN Us ELSE IF cl = "X" THEN RawX
             ELSE IF cl = "Q" THEN Lit("Q") ELSE Lit(cl)
\* inside hyx_: legal continuation characters other than the delimiter stay
EscTok(cl) == IF cl # "X" /\ ContOk(cl) /\ ~(EscapeQ /\ cl \in {"Q", "W"}) THEN TokOf(cl)
              ELSE Esc(IF cl = "u" THEN "H" ELSE cl)

Rep(n, x) == [i \in 1..n |-> x]

\* mangle of a name without dots
Mangle1(s) ==
  LET lead == LeadCount(s)
      cb == Conv(SubSeq(s, lead + 1, Len(s)))
  IN IF IsIdent(lead, cb)
     THEN Rep(lead, Us) \o [i \in 1..Len(cb) |-> TokOf(cb[i])]
     ELSE Rep(lead, Us) \o <<Hyx>> \o [i \in 1..Len(cb) |-> EscTok(cb[i])]

\* split at dots
RECURSIVE SplitDots(_, _)
SplitDots(s, acc) ==
  IF s = <<>> THEN <<acc>>
  ELSE IF Head(s) = "D" THEN <<acc>> \o SplitDots(Tail(s), <<>>)
  ELSE SplitDots(Tail(s), Append(acc, Head(s)))
RECURSIVE JoinDots(_)
JoinDots(ps) == IF Len(ps) = 1 THEN ps[1] ELSE ps[1] \o <<Dot>> \o JoinDots(Tail(ps))
OnlyDots(s) == \A i \in 1..Len(s) : s[i] = "D"
HasDot(s) == \E i \in 1..Len(s) : s[i] = "D"

Mangle(s) ==
  IF HasDot(s) /\ ~OnlyDots(s)
  THEN JoinDots([i \in 1..Len(SplitDots(s, <<>>)) |->
                  LET p == SplitDots(s, <<>>)[i] IN IF p = <<>> THEN <<>> ELSE Mangle1(p)])
  ELSE Mangle1(s)

\* ---------------------------------------------------------------- back to classes
\* the class string of an output (what mangle would see if given its own output);
\* an escape is X <name> X and the name is made of ordinary letters / digits / _
RECURSIVE Reabs(_)
Reabs(ts) ==
  IF ts = <<>> THEN <<>>
  ELSE LET h == Head(ts) IN
       (CASE h.t = "us" -> <<"U">>
          [] h.t = "hyx" -> <<"S", "S", "S", "U">>
          [] h.t = "x" -> <<"X">>
          [] h.t = "esc" -> <<"X", "S", "X">>
          [] h.t = "dot" -> <<"D">>
          [] h.t = "lit" -> <<IF h.c \in {"S", "K"} THEN "S" ELSE IF h.c = "Q" THEN "X" ELSE h.c>>)
       \o Reabs(Tail(ts))

\* ---------------------------------------------------------------- laws of C32
FirstTokOk(ts) == ts # <<>> /\ (ts[1].t \in {"us", "hyx", "x"} \/ (ts[1].t = "lit" /\ ts[1].c \in {"S", "K", "Q"}))
IdentClassString(o) ==
  o # <<>> /\ \A i \in 1..Len(o) : IF i = 1 THEN o[1] \in {"S", "K", "X", "Q", "U", "V"} ELSE ContOk(o[i])
LeadUs(ts) == LeadCount([i \in 1..Len(ts) |-> IF ts[i].t = "us" THEN "U" ELSE "S"])

NormalIdentifier(s) ==   \* already a legal, NFKC-normal identifier
  /\ s # <<>> /\ \A i \in 1..Len(s) : s[i] \in {"S", "C", "U", "X"}
  /\ s[1] \in {"S", "U", "X"}
Plain(s) == [i \in 1..Len(s) |-> TokOf(s[i])]

\* ---------------------------------------------------------------- unmangle
\* regex (_+)(.*?)(_*): leading underscores (if any) and then trailing ones are set aside
RECURSIVE TrailCount(_)
TrailCount(ts) == IF ts # <<>> /\ ts[Len(ts)].t = "us" THEN 1 + TrailCount(SubSeq(ts, 1, Len(ts) - 1)) ELSE 0
Broken == <<"BROKEN">>
\* escapes pair up delimiters; a raw X (or a Q that NFKC turned into X) inside a hyx_ body breaks the pairing
UnEscape(ts) ==
  IF \E i \in 1..Len(ts) : \/ ts[i].t = "x" \/ (ts[i].t = "lit" /\ ts[i].c = "Q")
                            \/ (ts[i].t = "lit" /\ ts[i].c = "W" /\ i > 1 /\ ts[i - 1].t = "esc")
  THEN Broken
  ELSE [i \in 1..Len(ts) |->
          IF ts[i].t = "esc" THEN ts[i].c ELSE IF ts[i].t = "us" THEN "H"
          ELSE IF ts[i].c \in {"S", "K"} THEN "S" ELSE ts[i].c]
PlainBack(ts) ==
  [i \in 1..Len(ts) |-> IF ts[i].t = "us" THEN "H" ELSE IF ts[i].t = "x" THEN "X"
                        ELSE IF ts[i].c \in {"S", "K"} THEN "S" ELSE IF ts[i].c = "Q" THEN "X" ELSE ts[i].c]
Unmangle1(ts) ==
  LET lead == LeadUs(ts)
      trail == IF lead = 0 \/ lead = Len(ts) THEN 0 ELSE TrailCount(ts)
      mid == SubSeq(ts, lead + 1, Len(ts) - trail)
      body == IF mid # <<>> /\ mid[1].t = "hyx" THEN UnEscape(Tail(mid)) ELSE PlainBack(mid)
  IN IF body = Broken THEN Broken ELSE Rep(lead, "U") \o body \o Rep(trail, "U")

\* the signature of an output that does not depend on which input it came from
Sig(ts) == [i \in 1..Len(ts) |-> IF ts[i].t = "lit" /\ ts[i].c \in {"S", "K"} THEN Lit("S")
                                 ELSE IF ts[i].t = "lit" /\ ts[i].c = "Q" THEN RawX   \* its NFKC image
                                 ELSE ts[i]]

\* ---------------------------------------------------------------- checking
AllStrings == UNION {[1..n -> Classes] : n \in 1..MaxLen}
VARIABLE s
Init == s \in AllStrings
Next == UNCHANGED s
Spec == Init /\ [][Next]_s

NoDots == ~HasDot(s)
BodyNotHyx == TRUE    \* generic letters are never literally h,y,x

\* C32
ResultIsIdentifier == NoDots => FirstTokOk(Mangle(s)) /\ IdentClassString(Reabs(Mangle(s)))
LeadingUnderscoresKept == NoDots => LeadUs(Mangle(s)) = LeadCount(s)
IdentityOnNormalIdentifiers == NormalIdentifier(s) => Mangle(s) = Plain(s)
Idempotent == NoDots => Reabs(Mangle(Reabs(Mangle(s)))) = Reabs(Mangle(s))
DotsPartwise ==
  (HasDot(s) /\ ~OnlyDots(s)) =>
     LET ps == SplitDots(s, <<>>) IN
     Mangle(s) = JoinDots([i \in 1..Len(ps) |-> IF ps[i] = <<>> THEN <<>> ELSE Mangle1(ps[i])])
\* C33
RoundTrip == NoDots =>
  LET u == Unmangle1(Mangle(s)) IN u # Broken /\ Sig(Mangle(u)) = Sig(Mangle(s))

\* table for the harness: class string -> tokens
Export == PrintT(<<"ROW", ToJson([s |-> s, m |-> Mangle(s),
                                  u |-> IF HasDot(s) THEN <<>> ELSE Unmangle1(Mangle(s))])>>)
=============================================================================
