---------------------------- MODULE HyReaderCheck ----------------------------
(* Drives HyReader: enumerates all texts over an alphabet (spec -> code       *)
(* table) or takes texts from the harness with the result observed on the    *)
(* real reader (code -> spec), and states the reader laws as invariants and  *)
(* action properties over transitions between texts.                         *)
EXTENDS Naturals, Sequences, FiniteSets, TLC, Json, IOUtils

VARIABLE inp
\* the reader specification applied to an arbitrary text
P(t) == INSTANCE HyReader WITH inp <- t
Parse(t) == P(t)!ReadAll
N == Len(inp)
IsSpace(c) == c \in {" ", "\n", "\t", "\r"}
EndsIdent == {"(", ")", "[", "]", "{", "}", ";", "\"", "'", "`", "~"}

CONSTANTS Alphabet, MaxLen, Mode,      \* Mode: "enum" | "file"
          Start                       \* enum mode: every text starts with this prefix

Texts == IF Mode = "file" THEN ndJsonDeserialize(IOEnv.TEXT_FILE) ELSE <<>>

VARIABLES tid,
          res    \* ReadAll of the current text, computed once per state
cvars == <<inp, tid, res>>

AllTexts == UNION {[1..n -> Alphabet] : n \in 0..MaxLen}

\* enum mode grows texts one character at a time (so that TLC's workers share the
\* work); file mode has one initial state per text
Init == /\ IF Mode = "enum" THEN inp = Start /\ tid = 0
           ELSE tid \in 1..Len(Texts) /\ inp = Texts[tid].text
        /\ res = Parse(inp)
Grow == /\ Mode = "enum" /\ Len(inp) < MaxLen + Len(Start)
        /\ \E c \in Alphabet : inp' = Append(inp, c) /\ res' = Parse(Append(inp, c))
        /\ UNCHANGED tid
Next == Grow
Spec == Init /\ [][Next]_cvars

\* ---- C18: reading always ends in one of the documented outcomes
Total == res.st \in {"ok", "lex", "eof", "unk"}

\* ---- C21: positions
RECURSIVE NodesOf(_)
NodesOf(ms) == IF ms = <<>> THEN {}
               ELSE {Head(ms)} \cup NodesOf(Head(ms).ch) \cup NodesOf(Tail(ms))
Positioned(m) == m.ix # <<0, 0>>
ChildrenInside ==
  res.st = "ok" =>
    \A m \in NodesOf(res.ch) : Positioned(m) =>
       /\ m.ix[1] >= 1 /\ m.ix[1] <= m.ix[2] /\ m.ix[2] <= N
       /\ \A k \in 1..Len(m.ch) : Positioned(m.ch[k]) =>
             m.ch[k].ix[1] >= m.ix[1] /\ m.ch[k].ix[2] <= m.ix[2]
\* children that come from source text appear in source order (sugar heads and the
\* swapped operands of #^ share / reorder positions by design)
InSourceOrder(m) ==
  \A j, k \in 1..Len(m.ch) :
     (j < k /\ Positioned(m.ch[j]) /\ Positioned(m.ch[k]) /\ m.ch[j].ix # m.ix /\ m.ch[k].ix # m.ix) =>
        m.ch[j].ix[2] < m.ch[k].ix[1]
IsAnnotate(m) == m.t = "expr" /\ Len(m.ch) = 3 /\ m.ch[1].t = "sym" /\ m.ch[1].ix = m.ix
                 /\ m.ch[1].v = <<"a", "n", "n", "o", "t", "a", "t", "e">>
ChildrenOrdered ==
  res.st = "ok" =>
    \A m \in NodesOf(res.ch) : (Positioned(m) /\ ~IsAnnotate(m)) => InSourceOrder(m)
TopLevelOrdered ==
  res.st = "ok" =>
    \A j, k \in 1..Len(res.ch) : j < k => res.ch[j].ix[2] < res.ch[k].ix[1]

\* ---- C19: truncation.  For a text that reads, every prefix either reads, or is
\* premature-end-of-input; a LexException may only come from cutting a token in two.
\* (an invariant: the specification is applied to every prefix of the text)
MidToken(k) ==   \* the cut after character k separates two characters of one bare token
  /\ k >= 1 /\ k < N
  /\ ~IsSpace(inp[k]) /\ ~IsSpace(inp[k + 1])
  /\ (inp[k + 1] \notin EndsIdent \/ inp[k + 1] = "\"")   \* a string prefix and its quote are one token
  /\ (inp[k] \notin EndsIdent \/ inp[k] = "~")       \* "~" + "@" is one token too
InsideSpan(k, m) == m.ix[1] <= k /\ k < m.ix[2]
\* cut k lies strictly inside a construct that needs a closer / an operand
Unclosed(k) ==
  \E m \in NodesOf(res.ch) \cup res.ghosts :
     /\ Positioned(m) /\ InsideSpan(k, m)
     /\ \/ m.t \in {"list", "dict", "set", "tuple", "str", "bytes", "fstr", "discard"}
        \/ (m.t = "expr" /\ inp[m.ix[1]] \in {"(", "'", "`", "~", "#"})
BetweenTopLevel(k) ==
  \A m \in {res.ch[j] : j \in 1..Len(res.ch)} \cup res.ghosts : ~InsideSpan(k, m)
CutLawAt(k) ==
  LET rk == Parse(SubSeq(inp, 1, k)) IN
  /\ (rk.st \in {"ok", "eof", "unk"} \/ MidToken(k))
  /\ ((Unclosed(k) /\ ~MidToken(k)) => rk.st \in {"eof", "unk"})
  /\ ((BetweenTopLevel(k) /\ ~MidToken(k)) => rk.st \in {"ok", "unk"})
CutLaw == (res.st = "ok" /\ Mode = "enum") => \A k \in 0..(N - 1) : CutLawAt(k)

\* ---- C20: separators, discards, concatenation
RECURSIVE EqModPos(_, _), EqSeqModPos(_, _)
EqModPos(a, b) == a.t = b.t /\ a.v = b.v /\ a.x = b.x /\ EqSeqModPos(a.ch, b.ch)
EqSeqModPos(as, bs) == Len(as) = Len(bs) /\ \A k \in 1..Len(as) : EqModPos(as[k], bs[k])
AtomLike(m) == m.t \in {"sym", "kw", "int", "str", "bytes", "fstr", "comment"}
                \/ (m.t = "expr" /\ inp[m.ix[1]] \notin {"(", "'", "`", "~", "#"})   \* dotted identifier
\* the gap after character k (0..N) lies between forms: a separator may be inserted there
OpenerLen(m) == IF inp[m.ix[1]] = "#" THEN
                   (IF m.t \in {"set", "tuple"} THEN 2
                    ELSE IF m.ix[1] + 2 <= N /\ inp[m.ix[1] + 1] = "*" /\ inp[m.ix[1] + 2] = "*" THEN 3 ELSE 2)
                ELSE IF inp[m.ix[1]] = "~" /\ m.ix[1] < N /\ inp[m.ix[1] + 1] = "@" THEN 2 ELSE 1
\* (the head symbol that the reader synthesizes for 'x, `x, ~x, ~@x, #*x ... carries its parent's region;
\* it is not a token of the text, so it does not make the place after the prefix a non-gap)
RECURSIVE NPairs(_, _)
NPairs(ms, pix) == IF ms = <<>> THEN {}
                   ELSE {<<Head(ms), pix>>} \cup NPairs(Head(ms).ch, Head(ms).ix) \cup NPairs(Tail(ms), pix)
RealNodes == {q[1] : q \in {p \in NPairs(res.ch, <<0, 0>>) : p[1].ix # p[2]}}
IsGap(k) ==
  \A m \in RealNodes \cup res.ghosts : Positioned(m) =>
     /\ (AtomLike(m) => ~(m.ix[1] <= k /\ k < m.ix[2]))
     /\ ((~AtomLike(m) /\ m.t # "fcomp") => ~(m.ix[1] <= k /\ k < m.ix[1] + OpenerLen(m) - 1))
     /\ (m.t = "discard" => ~(m.ix[1] <= k /\ k < m.ix[1] + 1))
     /\ ((m.t = "comment" /\ inp[m.ix[2]] # "\n") => k # m.ix[2])   \* still inside an unterminated comment
Insert(k, sep) == SubSeq(inp, 1, k) \o sep \o SubSeq(inp, k + 1, N)
Separators == {<<" ">>, <<"\n">>, <<";", "a", "\n">>, <<" ", "#", "_", " ", "a", " ">>, <<"\t">>, <<"\r">>,
               <<";", "a", "\r", "b", "(", "\n">>}       \* a comment runs to the line feed, not to a carriage return
SepLaw ==
  (res.st = "ok" /\ Mode = "enum") =>
     \A k \in 0..N : IsGap(k) =>
        \A sep \in Separators :
           LET r == Parse(Insert(k, sep)) IN r.st = "ok" /\ EqSeqModPos(r.ch, res.ch)
\* reading a concatenation gives the concatenation of the model lists
Tails == {<<"a">>, <<"(", "a", ")">>, <<"'", "a">>, <<"\"", "a", "\"">>, <<":", "a">>,
          <<"#", "_", " ", "a", " ", "b">>, <<";", "a", "\n", "b">>, <<>>}
EndsInComment == \E m \in res.ghosts : m.t = "comment" /\ m.ix[2] = N /\ inp[N] # "\n"
ConcatLaw ==
  (res.st = "ok" /\ Mode = "enum" /\ ~EndsInComment) =>
     \A t2 \in Tails :
        LET r2 == Parse(t2)
            r == Parse(inp \o <<" ">> \o t2)
        IN r.st = "ok" /\ EqSeqModPos(r.ch, res.ch \o r2.ch)

\* ---- C21: the region of every model reads back to an equal model
RECURSIVE NP(_, _)
NP(ms, pix) == IF ms = <<>> THEN {}
               ELSE {<<Head(ms), pix>>} \cup NP(Head(ms).ch, Head(ms).ix) \cup NP(Tail(ms), pix)
RegionReadsBack ==
  (res.st = "ok" /\ Mode = "enum") =>
     \A q \in NP(res.ch, <<0, 0>>) :
        LET m == q[1] IN
        (Positioned(m) /\ m.ix # q[2]) =>      \* synthesized parts share their parent's region
           LET r == Parse(SubSeq(inp, m.ix[1], m.ix[2])) IN
           r.st = "ok" /\ Len(r.ch) = 1 /\ EqModPos(r.ch[1], m)

\* ---- export / acceptance
CutClass(k) == IF MidToken(k) THEN "X" ELSE IF Unclosed(k) THEN "E" ELSE IF BetweenTopLevel(k) THEN "O" ELSE "X"
Export == PrintT(<<"ROW", ToJson([text |-> inp, st |-> res.st, raw |-> res.raw, ch |-> res.ch,
                                  cuts |-> IF res.st = "ok" THEN [k \in 1..N |-> CutClass(k - 1)] ELSE <<>>,
                                  gaps |-> IF res.st = "ok" THEN {k \in 0..N : IsGap(k)} ELSE {}])>>)
Same == res.st = "unk" \/ (res.st = Texts[tid].st /\ (res.st = "ok" => EqSeqModPos(res.ch, Texts[tid].ch)))
RECURSIVE EqWithPos(_, _), EqSeqWithPos(_, _)
EqWithPos(a, b) == a.t = b.t /\ a.v = b.v /\ a.x = b.x /\ (a.ix = <<0, 0>> \/ b.ix = <<0, 0>> \/ (a.p = b.p /\ a.ix = b.ix))
                   /\ EqSeqWithPos(a.ch, b.ch)
EqSeqWithPos(as, bs) == Len(as) = Len(bs) /\ \A k \in 1..Len(as) : EqWithPos(as[k], bs[k])
AcceptPos == Mode = "file" => ((res.st = "ok" /\ EqSeqWithPos(res.ch, Texts[tid].ch)) => PrintT(<<"ACC", ToJson(tid)>>))
Accept == Mode = "file" => (Same => PrintT(<<"ACC", ToJson(tid)>>))
Unknown == (Mode = "file" /\ res.st = "unk") => PrintT(<<"UNK", ToJson(tid)>>)
\* file mode also reports what the specification says, for diagnosis
Says == Mode = "file" => PrintT(<<"SAYS", ToJson([tid |-> tid, st |-> res.st, raw |-> res.raw, ch |-> res.ch])>>)
=============================================================================
