---------------------------- MODULE HyReaderCheck ----------------------------
(* Drives HyReader: enumerates all texts over an alphabet (spec -> code       *)
(* table) or takes texts from the harness with the result observed on the    *)
(* real reader (code -> spec), and states the reader laws as invariants and  *)
(* action properties over transitions between texts.                         *)
EXTENDS Naturals, Sequences, FiniteSets, TLC, Json, IOUtils

VARIABLE inp
\* the reader specification applied to an arbitrary text
P(t) == INSTANCE HyReader WITH inp <- t
Parse(t) == P(t)!ReadAll
N == Len(inp)
IsSpace(c) == c \in {" ", "\n", "\t", "\r"}
EndsIdent == {"(", ")", "[", "]", "{", "}", ";", "\"", "'", "`", "~"}

CONSTANTS Alphabet, MaxLen, Mode       \* Mode: "enum" | "file"

Texts == IF Mode = "file" THEN ndJsonDeserialize(IOEnv.TEXT_FILE) ELSE <<>>

VARIABLES tid,
          res    \* ReadAll of the current text, computed once per state
cvars == <<inp, tid, res>>

AllTexts == UNION {[1..n -> Alphabet] : n \in 0..MaxLen}

Init == /\ IF Mode = "enum" THEN inp \in AllTexts /\ tid = 0
           ELSE tid \in 1..Len(Texts) /\ inp = Texts[tid].text
        /\ res = Parse(inp)

Next == UNCHANGED cvars
Spec == Init /\ [][Next]_cvars

\* ---- C18: reading always ends in one of the documented outcomes
Total == res.st \in {"ok", "lex", "eof", "unk"}

\* ---- C21: positions
RECURSIVE NodesOf(_)
NodesOf(ms) == IF ms = <<>> THEN {}
               ELSE {Head(ms)} \cup NodesOf(Head(ms).ch) \cup NodesOf(Tail(ms))
Positioned(m) == m.ix # <<0, 0>>
ChildrenInside ==
  res.st = "ok" =>
    \A m \in NodesOf(res.ch) : Positioned(m) =>
       /\ m.ix[1] >= 1 /\ m.ix[1] <= m.ix[2] /\ m.ix[2] <= N
       /\ \A k \in 1..Len(m.ch) : Positioned(m.ch[k]) =>
             m.ch[k].ix[1] >= m.ix[1] /\ m.ch[k].ix[2] <= m.ix[2]
\* children that come from source text appear in source order (sugar heads and the
\* swapped operands of #^ share / reorder positions by design)
InSourceOrder(m) ==
  \A j, k \in 1..Len(m.ch) :
     (j < k /\ Positioned(m.ch[j]) /\ Positioned(m.ch[k]) /\ m.ch[j].ix # m.ix /\ m.ch[k].ix # m.ix) =>
        m.ch[j].ix[2] < m.ch[k].ix[1]
IsAnnotate(m) == m.t = "expr" /\ Len(m.ch) = 3 /\ m.ch[1].t = "sym" /\ m.ch[1].ix = m.ix
                 /\ m.ch[1].v = <<"a", "n", "n", "o", "t", "a", "t", "e">>
ChildrenOrdered ==
  res.st = "ok" =>
    \A m \in NodesOf(res.ch) : (Positioned(m) /\ ~IsAnnotate(m)) => InSourceOrder(m)
TopLevelOrdered ==
  res.st = "ok" =>
    \A j, k \in 1..Len(res.ch) : j < k => res.ch[j].ix[2] < res.ch[k].ix[1]

\* ---- C19: truncation.  For a text that reads, every prefix either reads, or is
\* premature-end-of-input; a LexException may only come from cutting a token in two.
\* (an invariant: the specification is applied to every prefix of the text)
MidToken(k) ==   \* the cut after character k separates two characters of one bare token
  /\ k >= 1 /\ k < N
  /\ ~IsSpace(inp[k]) /\ ~IsSpace(inp[k + 1])
  /\ (inp[k + 1] \notin EndsIdent \/ inp[k + 1] = "\"")   \* a string prefix and its quote are one token
  /\ (inp[k] \notin EndsIdent \/ inp[k] = "~")       \* "~" + "@" is one token too
InsideSpan(k, m) == m.ix[1] <= k /\ k < m.ix[2]
\* cut k lies strictly inside a construct that needs a closer / an operand
Unclosed(k) ==
  \E m \in NodesOf(res.ch) \cup res.ghosts :
     /\ Positioned(m) /\ InsideSpan(k, m)
     /\ \/ m.t \in {"list", "dict", "set", "tuple", "str", "bytes", "fstr", "discard"}
        \/ (m.t = "expr" /\ inp[m.ix[1]] \in {"(", "'", "`", "~", "#"})
BetweenTopLevel(k) ==
  \A m \in {res.ch[j] : j \in 1..Len(res.ch)} \cup res.ghosts : ~InsideSpan(k, m)
CutLawAt(k) ==
  LET rk == Parse(SubSeq(inp, 1, k)) IN
  /\ (rk.st \in {"ok", "eof", "unk"} \/ MidToken(k))
  /\ ((Unclosed(k) /\ ~MidToken(k)) => rk.st \in {"eof", "unk"})
  /\ ((BetweenTopLevel(k) /\ ~MidToken(k)) => rk.st \in {"ok", "unk"})
CutLaw == (res.st = "ok" /\ Mode = "enum") => \A k \in 0..(N - 1) : CutLawAt(k)

\* ---- export / acceptance
Export == PrintT(<<"ROW", ToJson([text |-> inp, st |-> res.st, raw |-> res.raw, ch |-> res.ch])>>)
Same == res.st = "unk" \/ (res.st = Texts[tid].st /\ (res.st = "ok" => res.ch = Texts[tid].ch))
Accept == Mode = "file" => (Same => PrintT(<<"ACC", ToJson(tid)>>))
Unknown == (Mode = "file" /\ res.st = "unk") => PrintT(<<"UNK", ToJson(tid)>>)
=============================================================================
