---------------------------- MODULE HyScopeOrder ----------------------------
(* Design-level model of the two places in hy/scoping.py where a *set* of    *)
(* names becomes a *sequence* in the compiled AST (property C13):            *)
(*   ResolveOuterVars.visit_OuterVar : the names of a (nonlocal ...) form    *)
(*        are split into a `global` part and a `nonlocal` part;              *)
(*   ScopeGen.finalize : the names leaked by a comprehension.                *)
(* Python set iteration order depends on PYTHONHASHSEED, so it is modelled   *)
(* as an arbitrary permutation.  Two compilations of the same program are    *)
(* run side by side; the output is deterministic iff they always agree.      *)
EXTENDS Naturals, Sequences, FiniteSets, TLC, Json

CONSTANT Names

VARIABLES decl,      \* the declaration (nonlocal n1 n2 ...): a sequence without repeats
          isglobal,  \* which declared names are module-level
          out1, out2, \* emitted nonlocal-name sequence of the two compilations
          phase
vars == <<decl, isglobal, out1, out2, phase>>

Perms(S) == {s \in [1..Cardinality(S) -> S] : \A i, j \in 1..Cardinality(S) : i # j => s[i] # s[j]}
Seqs == UNION {Perms(S) : S \in SUBSET Names}

Init == /\ decl \in Seqs
        /\ isglobal \in SUBSET Names
        /\ out1 = <<>> /\ out2 = <<>> /\ phase = "start"

Range(s) == {s[i] : i \in 1..Len(s)}
Defined == Range(decl) \ isglobal          \* names found in enclosing function / let scopes

\* as implemented at the pinned commit: list(defined) on a set
EmitBySetOrder == /\ phase = "start"
                  /\ out1' \in Perms(Defined)
                  /\ out2' \in Perms(Defined)
                  /\ phase' = "set"
                  /\ UNCHANGED <<decl, isglobal>>
\* deterministic alternative: keep declaration order (or sort)
InDeclOrder == SelectSeq(decl, LAMBDA n : n \in Defined)
EmitInDeclOrder == /\ phase = "start"
                   /\ out1' = InDeclOrder /\ out2' = InDeclOrder
                   /\ phase' = "ordered"
                   /\ UNCHANGED <<decl, isglobal>>
Next == EmitBySetOrder \/ EmitInDeclOrder
Spec == Init /\ [][Next]_vars

\* the ordered conversion is deterministic
SortedEmitDeterministic == phase = "ordered" => out1 = out2
\* the set-order conversion is deterministic only for < 2 names: export the
\* shapes for which two compilations can disagree (coverage obligations)
ExportSensitive ==
  (phase = "set" /\ out1 # out2) =>
     PrintT(<<"SENS", ToJson([declared |-> Len(decl), nonlocal_part |-> Cardinality(Defined),
                              global_part |-> Len(decl) - Cardinality(Defined)])>>)
=============================================================================
