------------------------------ MODULE HyReader ------------------------------
(* Hy's reader (hy/reader/hy_reader.py, reader.py) as a character-level      *)
(* recursive-descent specification: which texts read, to which model trees,  *)
(* with which source positions, and which fail with LexException ("lex") or  *)
(* PrematureEndOfInput ("eof").  Serves C18 C19 C20 C21 (and the structural  *)
(* part of C23 C24 C26).                                                     *)
(*                                                                           *)
(* The input is a sequence of one-character strings.  Each parsing operator  *)
(* mirrors one reader method and returns [st, i, m]:                         *)
(*   st  "ok" | "none" (handler produced no model) | "lex" | "eof"           *)
(*   i   index of the next unread character                                  *)
(*   m   the model [t, v, x, ch, p]: type, text, extra, children, position   *)
(* String bodies are kept raw (escape *validity* is specified here, escape   *)
(* *decoding* is CPython's: the harness decodes both sides with Python).     *)
(* Identifiers are classified structurally (keyword / dotted / all digits /  *)
(* symbol); the numeric cascade has its own module (HyReaderIdent).          *)
EXTENDS Naturals, Sequences, FiniteSets, TLC, Json

VARIABLE inp
N == Len(inp)
C(i) == IF i >= 1 /\ i <= N THEN inp[i] ELSE ""      \* "" = end of input

Spaces == {" ", "\n", "\t", "\r"}
IsSpace(c) == c \in Spaces
EndsIdent == {"(", ")", "[", "]", "{", "}", ";", "\"", "'", "`", "~"}
Digits == {"0", "1", "2", "3", "4", "5", "6", "7", "8", "9"}

\* ---------------------------------------------------------------- positions
\* (line, column) after consuming the first i characters -- Reader.getc's bookkeeping
RECURSIVE LineAt(_), ColAt(_)
LineAt(i) == IF i = 0 THEN 1 ELSE LineAt(i - 1) + (IF inp[i] = "\n" THEN 1 ELSE 0)
ColAt(i) == IF i = 0 THEN 0 ELSE IF inp[i] = "\n" THEN 0 ELSE ColAt(i - 1) + 1
\* a model that starts at character a and ends at character b (inclusive)
Span(a, b) == <<LineAt(a), ColAt(a), LineAt(b), ColAt(b)>>

\* ---------------------------------------------------------------- results and models
R(st, i, m) == [st |-> st, i |-> i, m |-> m]
NoModel == [t |-> "none", v |-> <<>>, x |-> <<>>, ch |-> <<>>, p |-> <<0, 0, 0, 0>>, ix |-> <<0, 0>>]
Fail(st, i) == R(st, i, NoModel)
\* p = <<start line, start column, end line, end column>>; ix = <<first, last>> character index
\* (p is a function of ix; ix <<0,0>> marks parts without a position of their own)
M(t, v, x, ch, ix) == [t |-> t, v |-> v, x |-> x, ch |-> ch,
                       p |-> IF ix = <<0, 0>> THEN <<0, 0, 0, 0>> ELSE Span(ix[1], ix[2]), ix |-> ix]
Chars(s) == s     \* texts are already sequences of characters
Str(s) == s
\* a symbol made by the reader itself (sugar heads); it inherits its parent's position
SynSym(name, ix) == M("sym", name, <<>>, <<>>, ix)

RECURSIVE SkipSpace(_)
SkipSpace(i) == IF IsSpace(C(i)) THEN SkipSpace(i + 1) ELSE i

RECURSIVE IdentEnd(_)
\* first index >= i that is not part of an identifier
IdentEnd(i) == IF C(i) = "" \/ C(i) \in EndsIdent \/ IsSpace(C(i)) THEN i ELSE IdentEnd(i + 1)
Sub(a, b) == IF b < a THEN <<>> ELSE SubSeq(inp, a, b)
HasChar(s, c) == \E k \in 1..Len(s) : s[k] = c

\* ---------------------------------------------------------------- identifiers
AllDots(s) == \A k \in 1..Len(s) : s[k] = "."
AllDigits(s) == s # <<>> /\ \A k \in 1..Len(s) : s[k] \in Digits
RECURSIVE LeadDots(_)
LeadDots(s) == IF s # <<>> /\ Head(s) = "." THEN 1 + LeadDots(Tail(s)) ELSE 0
RECURSIVE SplitDot(_, _)
SplitDot(s, acc) == IF s = <<>> THEN <<acc>>
                    ELSE IF Head(s) = "." THEN <<acc>> \o SplitDot(Tail(s), <<>>)
                    ELSE SplitDot(Tail(s), Append(acc, Head(s)))
\* classification of one undotted part: "int" for all-digit text, otherwise "sym"
\* (texts that the numeric cascade would turn into floats etc. are excluded by
\* the alphabets used with this module: the only digit-bearing atoms are integers)
PartType(s) == IF AllDigits(s) THEN "int" ELSE "sym"
\* as_identifier: [st, m] for identifier text s spanning a..b
HasDigit(s) == \E k \in 1..Len(s) : s[k] \in Digits
HasNaN(s) == \E k \in 1..(Len(s) - 2) : s[k] = "N" /\ s[k + 1] = "a" /\ s[k + 2] = "N"
\* texts the numeric cascade may claim (floats, complex, separators...): not specified here
MaybeNumber(s) == (HasDigit(s) /\ ~AllDigits(s)) \/ HasNaN(s)
Ident(s, a, b) ==
  LET p == <<a, b>> IN
  IF MaybeNumber(s) THEN Fail("unk", b + 1)
  ELSE IF ~HasChar(s, ".") THEN R("ok", b + 1, M(PartType(s), s, <<>>, <<>>, p))
  ELSE IF AllDots(s) THEN R("ok", b + 1, M("sym", s, <<>>, <<>>, p))
  ELSE LET ld == LeadDots(s)
           rest == SubSeq(s, ld + 1, Len(s))
           parts == SplitDot(rest, <<>>)
       IN IF \E k \in 1..(Len(parts) - 1) : parts[k] = <<>>     \* ".." after the start
          THEN Fail("lex", b + 1)
          ELSE IF parts[Len(parts)] = <<>> THEN Fail("lex", b + 1)   \* ends with a dot
          ELSE IF \E k \in 1..Len(parts) : PartType(parts[k]) # "sym" THEN Fail("lex", b + 1)
          ELSE LET kids == [k \in 1..Len(parts) |-> M("sym", parts[k], <<>>, <<>>, p)] IN
               R("ok", b + 1,
                 IF ld = 0 THEN M("expr", <<>>, <<>>, <<SynSym(<<".">>, p)>> \o kids, p)
                 ELSE M("expr", <<>>, <<>>,
                        <<SynSym(SubSeq(s, 1, ld), p), M("sym", <<"N", "o", "n", "e">>, <<>>, <<>>, p)>> \o kids, p))

\* ---------------------------------------------------------------- strings
\* valid string prefixes: distinct characters from bfrt, at most one besides r
PrefixOk(pre) ==
  /\ \A k \in 1..Len(pre) : pre[k] \in {"b", "f", "r", "t"}
  /\ \A j, k \in 1..Len(pre) : j # k => pre[j] # pre[k]
  /\ Cardinality({k \in 1..Len(pre) : pre[k] # "r"}) <= 1
  /\ Cardinality({pre[k] : k \in 1..Len(pre)}) < 4
IsRaw(pre) == HasChar(pre, "r")
IsBytes(pre) == HasChar(pre, "b")
FMode(pre) == IF HasChar(pre, "f") THEN "f" ELSE IF HasChar(pre, "t") THEN "t" ELSE ""
\* characters that may follow a backslash
EscOk(c, pre) ==
  c \in ({"\n", "\r", "\\", "'", "\"", "a", "b", "f", "n", "r", "t", "v", "x"} \cup
         {"0", "1", "2", "3", "4", "5", "6", "7"} \cup (IF IsBytes(pre) THEN {} ELSE {"N", "u", "U"}))

\* After the body of a non-raw literal has been delimited it is decoded (CPython's
\* unicode_escape / escape_decode); malformed numeric escapes make that fail, which
\* the reader reports as a LexException.  "unk": \N{name} -- name validity is Unicode data.
Hex == Digits \cup {"a", "b", "c", "d", "e", "f", "A", "B", "C", "D", "E", "F"}
RECURSIVE Decodable(_, _, _)
Decodable(b, k, pre) ==     \* b = raw body, k = index into it
  IF k > Len(b) THEN "ok"
  ELSE IF b[k] # "\\" THEN Decodable(b, k + 1, pre)
  ELSE IF k = Len(b) THEN "ok"
  ELSE LET c == b[k + 1]
           hexrun(n) == k + 1 + n <= Len(b) /\ \A j \in (k + 2)..(k + 1 + n) : b[j] \in Hex
       IN CASE c = "x" -> IF hexrun(2) THEN Decodable(b, k + 4, pre) ELSE "lex"
            [] c = "u" /\ ~IsBytes(pre) -> IF hexrun(4) THEN Decodable(b, k + 6, pre) ELSE "lex"
            [] c = "U" /\ ~IsBytes(pre) -> IF hexrun(8) THEN "unk" ELSE "lex"
            [] c = "N" /\ ~IsBytes(pre) ->
                 IF k + 2 <= Len(b) /\ b[k + 2] = "{" /\ \E j \in (k + 3)..Len(b) : b[j] = "}" THEN "unk" ELSE "lex"
            [] OTHER -> Decodable(b, k + 2, pre)
NonAscii == {"é", "λ"}
BodyStatus(b, pre) ==
  IF IsBytes(pre) /\ \E k \in 1..Len(b) : b[k] \in NonAscii THEN "lex"
  ELSE IF IsRaw(pre) THEN "ok" ELSE Decodable(b, 1, pre)

\* Scan the body of a "..." literal from index i (just after the opening quote).
\* esc = a backslash is pending.  In f-mode, stops at a single "{".
\* Returns [st, i, body, why]: why = "closed" (i is after the closing quote),
\* "field" (i is after the "{" that opens a replacement field).
RECURSIVE ScanQ(_, _, _, _, _)
ScanQ(i, esc, pre, fm, named) ==
  LET c == C(i) IN
  IF c = "" THEN [st |-> "eof", i |-> i, why |-> "eof"]
  ELSE IF c = "\\" THEN ScanQ(i + 1, ~esc, pre, fm, named)
  ELSE IF c = "\"" /\ ~esc THEN [st |-> "ok", i |-> i + 1, why |-> "closed"]
  ELSE IF esc /\ ~IsRaw(pre) /\ ~EscOk(c, pre) THEN [st |-> "lex", i |-> i + 1, why |-> "escape"]
  ELSE IF fm # "" /\ c = "{" THEN
       IF ~IsRaw(pre) /\ i >= 3 /\ C(i - 1) = "N" /\ C(i - 2) = "\\"
       THEN ScanQ(i + 1, FALSE, pre, fm, TRUE)                 \* \N{...}
       ELSE IF C(i + 1) = "{" THEN ScanQ(i + 2, FALSE, pre, fm, named)   \* {{
       ELSE [st |-> "ok", i |-> i + 1, why |-> "field"]
  ELSE IF fm # "" /\ c = "}" THEN
       IF named THEN ScanQ(i + 1, FALSE, pre, fm, FALSE)
       ELSE IF C(i + 1) = "}" THEN ScanQ(i + 2, FALSE, pre, fm, named)
       ELSE IF C(i + 1) = "" THEN [st |-> "eof", i |-> i + 1, why |-> "eof"]   \* may still become "}}"
       ELSE [st |-> "lex", i |-> i + 1, why |-> "single }"]
  ELSE ScanQ(i + 1, FALSE, pre, fm, named)

\* bracket strings #[delim[ ... ]delim]: index just after the closing bracket
\* pair, or 0 if the text ends first.  k = characters of "]delim" matched so far
\* (0 = none, 1 = the "]", 1+j = j delimiter characters)
RECURSIVE ScanB(_, _, _, _)
ScanB(i, delim, k, fm) ==
  LET c == C(i) IN
  IF c = "" THEN [st |-> "eof", i |-> i, why |-> "eof"]
  ELSE IF c = "]" THEN
       IF k = Len(delim) + 1 THEN [st |-> "ok", i |-> i + 1, why |-> "closed"]
       ELSE ScanB(i + 1, delim, 1, fm)
  ELSE IF fm # "" /\ c = "{" THEN
       IF C(i + 1) = "{" THEN ScanB(i + 2, delim, 0, fm)
       ELSE [st |-> "ok", i |-> i + 1, why |-> "field"]
  ELSE IF fm # "" /\ c = "}" THEN
       IF C(i + 1) = "}" THEN ScanB(i + 2, delim, 0, fm)
       ELSE IF C(i + 1) = "" THEN [st |-> "eof", i |-> i + 1, why |-> "eof"]
       ELSE [st |-> "lex", i |-> i + 1, why |-> "single }"]
  ELSE IF k >= 1 /\ k <= Len(delim) /\ c = delim[k] THEN ScanB(i + 1, delim, k + 1, fm)
  ELSE ScanB(i + 1, delim, 0, fm)

\* ---------------------------------------------------------------- forms
RECURSIVE TryParse(_), ParseOne(_), SeqUntil(_, _, _), FComponents(_, _, _, _, _, _), Field(_, _, _)

\* parse_one_form: skip handlers that produce nothing
ParseOne(i) ==
  LET r == TryParse(i) IN IF r.st = "none" THEN ParseOne(r.i) ELSE r

\* parse_forms_until(closer): [st, i, ch]
SeqUntil(i, closer, acc) ==
  LET j == SkipSpace(i) IN
  IF closer # "" /\ C(j) = closer THEN [st |-> "ok", i |-> j + 1, ch |-> acc]
  ELSE IF closer = "" /\ C(j) = "" THEN [st |-> "ok", i |-> j, ch |-> acc]
  ELSE LET r == TryParse(j) IN
       IF r.st = "ok" THEN SeqUntil(r.i, closer, Append(acc, r.m))
       ELSE IF r.st = "none" THEN SeqUntil(r.i, closer, IF r.m.t \in {"discard", "comment"} THEN Append(acc, r.m) ELSE acc)
       ELSE [st |-> r.st, i |-> r.i, ch |-> acc]
\* discarded forms are kept while parsing (their spans matter for the truncation
\* law) and removed from the result
RECURSIVE Strip(_), StripM(_)
StripM(m) == [m EXCEPT !.ch = Strip(m.ch)]
Strip(ms) == IF ms = <<>> THEN <<>>
             ELSE IF Head(ms).t \in {"discard", "comment"} THEN Strip(Tail(ms))
             ELSE <<StripM(Head(ms))>> \o Strip(Tail(ms))
RECURSIVE Ghosts(_)
Ghosts(ms) == IF ms = <<>> THEN {}
              ELSE (IF Head(ms).t \in {"discard", "comment"} THEN {Head(ms)} ELSE Ghosts(Head(ms).ch)) \cup Ghosts(Tail(ms))

\* the components of an f-string whose literal text starts at i.
\* kind "q": closed by a double quote; "b": by ]delim]; "s": a format spec closed by "}"
\* Returns [st, i, ch]
RECURSIVE ScanSpec(_)
ScanSpec(i) ==   \* literal part of a format spec: up to "}" (closes) or "{" (nested field)
  LET c == C(i) IN
  IF c = "" THEN [st |-> "eof", i |-> i, why |-> "eof"]
  ELSE IF c = "}" THEN [st |-> "ok", i |-> i + 1, why |-> "closed"]
  ELSE IF c = "{" THEN
       IF C(i + 1) = "{" THEN ScanSpec(i + 2) ELSE [st |-> "ok", i |-> i + 1, why |-> "field"]
  ELSE ScanSpec(i + 1)
FComponents(i, kind, pre, delim, fm, acc) ==
  LET s == IF kind = "q" THEN ScanQ(i, FALSE, pre, fm, FALSE)
           ELSE IF kind = "b" THEN ScanB(i, delim, 0, fm)
           ELSE ScanSpec(i)
  IN IF s.st # "ok" THEN [st |-> s.st, i |-> s.i, ch |-> acc]
     ELSE LET closeLen == IF s.why = "field" THEN 1
                          ELSE IF kind = "b" THEN Len(delim) + 2 ELSE 1
              text == Sub(i, s.i - 1 - closeLen)
              acc2 == IF text = <<>> THEN acc
                      ELSE Append(acc, M("str", text, <<>>, <<>>, <<0, 0>>))
              bs == IF kind = "q" THEN BodyStatus(text, pre) ELSE "ok"
          IN IF bs # "ok" THEN [st |-> bs, i |-> s.i, ch |-> acc]
             ELSE IF s.why = "closed" THEN [st |-> "ok", i |-> s.i, ch |-> acc2]
             ELSE LET f == Field(s.i, pre, fm) IN
                  IF f.st # "ok" THEN [st |-> f.st, i |-> f.i, ch |-> acc2]
                  ELSE FComponents(f.i, kind, pre, delim, fm, acc2 \o f.ch)

\* read_fcomponent: a replacement field whose "{" has just been consumed.
\* Returns [st, i, ch] with one or two components (the = debugging text first)
Field(i, pre, fm) ==
  LET r == ParseOne(i) IN
  IF r.st # "ok" THEN [st |-> r.st, i |-> r.i, ch |-> <<>>]
  ELSE LET j == SkipSpace(r.i)
           dbg == C(j) = "="
           j2 == IF dbg THEN SkipSpace(j + 1) ELSE j
           conv == C(j2) = "!"
           \* the conversion character is whatever follows "!" (end of input: none)
           cv == IF conv THEN (IF C(j2 + 1) = "" THEN <<>> ELSE <<C(j2 + 1)>>) ELSE <<>>
           j3 == SkipSpace(IF conv THEN (IF C(j2 + 1) = "" THEN j2 + 1 ELSE j2 + 2) ELSE j2)
           form == r.m
           dbgc == IF dbg THEN <<M("str", Sub(i, j2 - 1), <<>>, <<>>, <<0, 0>>)>> ELSE <<>>
       IN IF C(j3) = ":" THEN
               LET sp == FComponents(j3 + 1, "s", pre, <<>>, "f", <<>>) IN
               IF sp.st # "ok" THEN [st |-> sp.st, i |-> sp.i, ch |-> <<>>]
               ELSE [st |-> "ok", i |-> sp.i,
                     ch |-> dbgc \o <<M("fcomp", <<>>, cv, <<form>> \o sp.ch, <<0, 0>>)>>]
          ELSE IF C(j3) = "}" THEN
               [st |-> "ok", i |-> j3 + 1,
                ch |-> dbgc \o <<M("fcomp", <<>>, IF dbg /\ ~conv THEN <<"r">> ELSE cv, <<form>>, <<0, 0>>)>>]
          ELSE IF C(j3) = "" THEN
               \* the text ends inside the field: premature end of input (before the fix
               \* for C19 the implementation reported "trailing junk", a LexException)
               [st |-> "eof", i |-> j3, ch |-> <<>>]
          ELSE [st |-> "lex", i |-> j3 + 1, ch |-> <<>>]

\* a "..." literal with the given prefix; a = index of the first character of
\* the whole token, i = index just after the opening quote
QuoteString(a, i, pre) ==
  IF ~PrefixOk(pre) THEN Fail("lex", i)
  ELSE IF FMode(pre) = "" THEN
       LET s == ScanQ(i, FALSE, pre, "", FALSE) IN
       IF s.st # "ok" THEN Fail(s.st, s.i)
       ELSE IF BodyStatus(Sub(i, s.i - 2), pre) # "ok" THEN Fail(BodyStatus(Sub(i, s.i - 2), pre), s.i)
       ELSE R("ok", s.i, M(IF IsBytes(pre) THEN "bytes" ELSE "str", Sub(i, s.i - 2), pre, <<>>, <<a, s.i - 1>>))
  ELSE LET f == FComponents(i, "q", pre, <<>>, FMode(pre), <<>>) IN
       IF f.st # "ok" THEN Fail(f.st, f.i)
       ELSE R("ok", f.i, M("fstr", <<>>, pre, f.ch, <<a, f.i - 1>>))

\* #[delim[ : i = index just after "#["
RECURSIVE DelimEnd(_)
DelimEnd(i) == IF C(i) = "" \/ C(i) = "[" \/ C(i) = "]" THEN i ELSE DelimEnd(i + 1)
BracketString(a, i) ==
  LET e == DelimEnd(i) IN
  IF C(e) = "" THEN Fail("eof", e)
  ELSE IF C(e) = "]" THEN Fail("lex", e + 1)
  ELSE LET delim == Sub(i, e - 1)
           fm == IF delim = <<"f">> \/ (Len(delim) >= 2 /\ delim[1] = "f" /\ delim[2] = "-") THEN "f" ELSE ""
           b0 == e + 1
           b1 == IF C(b0) = "\r" THEN b0 + 1 ELSE b0
           b2 == IF C(b1) = "\n" THEN b1 + 1 ELSE b1      \* one leading newline is dropped
       IN IF fm = "" THEN
               LET s == ScanB(b2, delim, 0, "") IN
               IF s.st # "ok" THEN Fail(s.st, s.i)
               ELSE R("ok", s.i, M("str", Sub(b2, s.i - 1 - (Len(delim) + 2)), <<"#">> \o delim, <<>>, <<a, s.i - 1>>))
          ELSE LET f == FComponents(b2, "b", <<"r">>, delim, fm, <<>>) IN
               IF f.st # "ok" THEN Fail(f.st, f.i)
               ELSE R("ok", f.i, M("fstr", <<>>, <<"#">> \o delim, f.ch, <<a, f.i - 1>>))

Wrap1(head, a, r) ==   \* (head form)
  IF r.st # "ok" THEN r
  ELSE LET p == <<a, r.i - 1>> IN R("ok", r.i, M("expr", <<>>, <<>>, <<SynSym(head, p), r.m>>, p))

SeqModel(t, a, r) ==
  IF r.st # "ok" THEN Fail(r.st, r.i) ELSE R("ok", r.i, M(t, <<>>, <<>>, r.ch, <<a, r.i - 1>>))

\* try_parse_one_form starting at index i
TryParse(i) ==
  LET a == SkipSpace(i)
      c == C(a)
  IN
  CASE c = "" -> Fail("eof", a)
    [] c \in {")", "]", "}"} -> Fail("lex", a + 1)
    [] c = ";" ->
         LET RECURSIVE Eol(_)
             Eol(k) == IF C(k) = "" THEN k ELSE IF C(k) = "\n" THEN k + 1 ELSE Eol(k + 1)
             e == Eol(a + 1)
         IN R("none", e, M("comment", <<>>, <<>>, <<>>, <<a, e - 1>>))
    [] c = ":" ->
         LET e == IdentEnd(a + 1)
             s == Sub(a + 1, e - 1)
         IN IF HasChar(s, ".") THEN Fail("lex", e)
            ELSE R("ok", e, M("kw", s, <<>>, <<>>, <<a, e - 1>>))
    [] c = "\"" -> QuoteString(a, a + 1, <<>>)
    [] c = "'" -> Wrap1(<<"q", "u", "o", "t", "e">>, a, ParseOne(a + 1))
    [] c = "`" -> Wrap1(<<"q", "u", "a", "s", "i", "q", "u", "o", "t", "e">>, a, ParseOne(a + 1))
    [] c = "~" ->
         IF C(a + 1) = "@"
         THEN Wrap1(<<"u", "n", "q", "u", "o", "t", "e", "-", "s", "p", "l", "i", "c", "e">>, a, ParseOne(a + 2))
         ELSE Wrap1(<<"u", "n", "q", "u", "o", "t", "e">>, a, ParseOne(a + 1))
    [] c = "(" -> SeqModel("expr", a, SeqUntil(a + 1, ")", <<>>))
    [] c = "[" -> SeqModel("list", a, SeqUntil(a + 1, "]", <<>>))
    [] c = "{" -> SeqModel("dict", a, SeqUntil(a + 1, "}", <<>>))
    [] c = "#" ->
         IF C(a + 1) = "" \/ IsSpace(C(a + 1)) THEN Fail("eof", a + 1)
         ELSE LET e == IdentEnd(a + 1)
                  tag == IF e = a + 1 THEN <<C(a + 1)>> ELSE Sub(a + 1, e - 1)
                  nx == IF e = a + 1 THEN a + 2 ELSE e
              IN CASE tag = <<"{">> -> SeqModel("set", a, SeqUntil(nx, "}", <<>>))
                   [] tag = <<"(">> -> SeqModel("tuple", a, SeqUntil(nx, ")", <<>>))
                   [] tag = <<"[">> -> BracketString(a, nx)
                   [] tag = <<"_">> ->
                        LET r == ParseOne(nx) IN
                        IF r.st = "ok" THEN R("none", r.i, M("discard", <<>>, <<>>, <<>>, <<a, r.i - 1>>)) ELSE r
                   [] tag = <<"*">> ->
                        Wrap1(<<"u", "n", "p", "a", "c", "k", "-", "i", "t", "e", "r", "a", "b", "l", "e">>, a, ParseOne(nx))
                   [] tag = <<"*", "*">> ->
                        Wrap1(<<"u", "n", "p", "a", "c", "k", "-", "m", "a", "p", "p", "i", "n", "g">>, a, ParseOne(nx))
                   [] tag = <<"^">> ->
                        LET ty == ParseOne(nx) IN
                        IF ty.st # "ok" THEN ty
                        ELSE LET tg == ParseOne(ty.i) IN
                             IF tg.st # "ok" THEN tg
                             ELSE LET p == <<a, tg.i - 1>> IN
                                  R("ok", tg.i, M("expr", <<>>, <<>>,
                                     <<SynSym(<<"a", "n", "n", "o", "t", "a", "t", "e">>, p), tg.m, ty.m>>, p))
                   [] OTHER -> Fail("lex", nx)      \* reader macro is not defined
    [] OTHER ->
         LET e == IdentEnd(a + 1)
             s == Sub(a, e - 1)
         IN IF C(e) = "\"" THEN QuoteString(a, e + 1, s)
            ELSE Ident(s, a, e - 1)

\* hy.read_many: all forms, or the first error
ReadAll ==
  LET r == SeqUntil(1, "", <<>>) IN
  [st |-> r.st, ch |-> IF r.st = "ok" THEN Strip(r.ch) ELSE <<>>,
   raw |-> r.st, ghosts |-> IF r.st = "ok" THEN Ghosts(r.ch) ELSE {}]
=============================================================================
