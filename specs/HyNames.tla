------------------------------- MODULE HyNames -------------------------------
(* One Hy name, one Python identifier, in every construct (the mangle calls   *)
(* spread over hy/core/result_macros.py and hy/compiler.py) -- property C34.  *)
(*                                                                           *)
(* Names are sequences over the character classes of HyMangle (S: a letter,  *)
(* H: hyphen, U: underscore, N: an illegal character such as !).  Every      *)
(* construct that defines or uses a name does so in one of a few namespaces  *)
(* (module variables, macros, attributes of an object, keys of a keyword     *)
(* dictionary, parameters).  The specification is a store: a definition      *)
(* writes the namespace at the identifier of the name, a use reads it there. *)
(* Two names hit the same slot exactly when HyMangle!Mangle gives them the   *)
(* same identifier.                                                          *)
EXTENDS Naturals, Sequences, FiniteSets, TLC, Json

M == INSTANCE HyMangle WITH Classes <- {"S", "H", "U", "N"}, MaxLen <- 3, EscapeQ <- TRUE, s <- <<>>

\* the names used (letters are all the same letter, so the class string determines the name)
NameSet == {<<"S">>, <<"S", "H", "S">>, <<"S", "U", "S">>, <<"S", "H", "N">>, <<"S", "U", "N">>,
            <<"H", "S">>, <<"U", "S">>, <<"S", "H">>, <<"S", "U">>, <<"U", "H", "S">>}
Id(n) == M!Mangle(n)
Same(a, b) == Id(a) = Id(b)

\* ---- constructs: <<name, namespace>>
Definers == {
  <<"setv", "var">>, <<"defn", "var">>, <<"defclass", "var">>, <<"import-as", "var">>, <<"import-module-as", "var">>, <<"for", "var">>,
  <<"with-as", "var">>, <<"setx", "var">>, <<"global-setv", "var">>, <<"let-free-setv", "var">>,
  \* assignments whose value is left in a compiler temporary that is then renamed to the target
  <<"setv-try", "var">>, <<"setv-if-stmt", "var">>, <<"setx-try", "var">>, <<"aug-assign", "var">>, <<"match-capture", "var">>,
  <<"del-then-setv", "var">>, <<"nonlocal-setv", "var">>,
  <<"defmacro", "macro">>,
  <<"param", "param">>,
  <<"kwarg", "key">>, <<"dict-mangled", "key">>,
  <<"setv-dotted", "attr">>, <<"setv-dot-form", "attr">>, <<"class-body", "attr">>, <<"method", "attr">>, <<"setattr", "attr">>}
Users == {
  <<"read", "var">>, <<"call-arg", "var">>, <<"fstring", "var">>, <<"dotted-head", "var">>, <<"global-read", "var">>,
  <<"del", "var">>,
  <<"macro-call", "macro">>,
  <<"kw-call", "param">>,
  <<"keyword-lookup", "key">>, <<"get-mangled", "key">>,
  <<"dotted", "attr">>, <<"dot-form", "attr">>, <<"method-call", "attr">>, <<"dotted-call", "attr">>, <<"dot-form-call", "attr">>, <<"getattr", "attr">>}

VARIABLES d1, d2, u
vars == <<d1, d2, u>>
\* a definition: [c, n, v]; d2 may be absent (c = "none")
NoDef == [c |-> <<"none", "none">>, n |-> <<>>, v |-> 0]
Init == /\ d1 \in {[c |-> c, n |-> n, v |-> 1] : c \in Definers, n \in NameSet}
        /\ d2 = NoDef /\ u = NoDef
\* the second definition is a plain one of the same namespace (the simplest definer of each)
Simple(ns) == CASE ns = "var" -> "setv" [] ns = "macro" -> "defmacro" [] ns = "attr" -> "setv-dotted"
                [] ns = "key" -> "kwarg" [] ns = "param" -> "param"
AddSecond == /\ d2 = NoDef /\ u = NoDef /\ d1.c[2] \in {"var", "macro", "attr"}
             /\ \E n \in NameSet : d2' = [c |-> <<Simple(d1.c[2]), d1.c[2]>>, n |-> n, v |-> 2]
             /\ UNCHANGED <<d1, u>>
AddUse == /\ u = NoDef
          /\ \E c \in Users, n \in NameSet : c[2] = d1.c[2] /\ u' = [c |-> c, n |-> n, v |-> 0]
          /\ UNCHANGED <<d1, d2>>
Next == AddSecond \/ AddUse
Spec == Init /\ [][Next]_vars

\* ---- the store semantics: which value the use sees (0: nothing there)
Expected ==
  IF d2 # NoDef /\ Same(d2.n, u.n) THEN d2.v
  ELSE IF Same(d1.n, u.n) THEN d1.v
  ELSE 0

\* ---- laws
\* hyphens after the first character and underscores are the same; a leading hyphen is not an underscore
HyphenIsUnderscore == /\ Same(<<"S", "H", "S">>, <<"S", "U", "S">>) /\ Same(<<"S", "H", "N">>, <<"S", "U", "N">>)
                      /\ Same(<<"S", "H">>, <<"S", "U">>)
                      /\ ~Same(<<"H", "S">>, <<"U", "S">>) /\ ~Same(<<"S">>, <<"S", "U">>)
\* Same is an equivalence relation on the names (it is equality of identifiers)
Equivalence == \A a, b, c \in NameSet : Same(a, a) /\ (Same(a, b) => Same(b, a)) /\ ((Same(a, b) /\ Same(b, c)) => Same(a, c))
\* the identifier of a name is an identifier no matter what the name looks like
AlwaysIdentifier == \A a \in NameSet : M!FirstTokOk(Id(a)) /\ M!IdentClassString(M!Reabs(Id(a)))

Export == u # NoDef =>
  PrintT(<<"CASE", ToJson([d1 |-> d1, d2 |-> d2, u |-> u, expect |-> Expected])>>)
=============================================================================
