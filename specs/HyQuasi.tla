------------------------------- MODULE HyQuasi -------------------------------
(* quote and quasiquote (hy/core/result_macros.py: render_quoted_form) as a  *)
(* function on model trees: properties C30 and C31.                          *)
(*                                                                           *)
(* A template is a tree [t, v, x, ch] (type, text, extra attributes,         *)
(* children).  (unquote F), (unquote-splice F) and (quasiquote T) are        *)
(* ordinary expressions recognised by their head symbol.  QQ(t, level)       *)
(* gives the model the quasiquote evaluates to: at level 0 an unquote is     *)
(* replaced by the promoted value of its form, an unquote-splice by the      *)
(* promoted elements of (or value []); quasiquote raises the level, unquote  *)
(* lowers it, and everything at deeper levels stays literal.  quote is QQ    *)
(* at a level no unquote can reach.                                          *)
(* Templates and environments come from the harness (CASE_FILE); TLC checks  *)
(* the laws on each and exports the expected result for replay.              *)
EXTENDS Naturals, Sequences, FiniteSets, TLC, Json, IOUtils

Cases == ndJsonDeserialize(IOEnv.CASE_FILE)    \* [tmpl, env]; env: variable name -> value
VARIABLE cid
Init == cid \in 1..Len(Cases)
Next == UNCHANGED cid
Spec == Init /\ [][Next]_cid
Tmpl == Cases[cid].tmpl
EnvOf(name) == Cases[cid].env[name]

SeqTypes == {"expr", "list", "tuple", "set", "dict", "fstr", "fcomp"}
Ops == {"unquote", "unquote-splice", "quasiquote"}
\* a head symbol is recognised up to mangling: unquote_splice is unquote-splice
Canon(name) == IF name = "unquote_splice" THEN "unquote-splice" ELSE name
Op(t) == IF t.t = "expr" /\ Len(t.ch) >= 1 /\ t.ch[1].t = "sym" /\ Canon(t.ch[1].v) \in Ops THEN Canon(t.ch[1].v) ELSE ""
Quote == 99       \* the level of a plain quote: nothing is ever unquoted

M(t, v, x, ch) == [t |-> t, v |-> v, x |-> x, ch |-> ch]
\* ---- values of the environment and their promotion to models (hy.as-model)
\* [py |-> "model", m |-> tree] | [py |-> "int", v |-> digits] | [py |-> "none"|"true"|"false"] |
\* [py |-> "str", v |-> text] | [py |-> "list"|"tuple", items |-> <<values>>]
RECURSIVE Promote(_)
Promote(val) ==
  CASE val.py = "model" -> val.m
    [] val.py = "int" -> M("int", val.v, "", <<>>)
    [] val.py = "none" -> M("sym", "None", "", <<>>)
    [] val.py = "true" -> M("sym", "True", "", <<>>)
    [] val.py = "false" -> M("sym", "False", "", <<>>)
    [] val.py = "str" -> M("str", val.v, "", <<>>)
    [] val.py = "list" -> M("list", "", "", [k \in 1..Len(val.items) |-> Promote(val.items[k])])
    [] val.py = "tuple" -> M("tuple", "", "", [k \in 1..Len(val.items) |-> Promote(val.items[k])])
Falsy(val) ==
  \/ val.py \in {"none", "false"}
  \/ (val.py = "int" /\ val.v = "0")
  \/ (val.py = "str" /\ val.v = "")
  \/ (val.py \in {"list", "tuple"} /\ val.items = <<>>)
  \/ (val.py = "model" /\ val.m.t \in SeqTypes /\ val.m.ch = <<>>)
  \/ (val.py = "model" /\ val.m.t = "kw" /\ val.m.v = "")
\* elements spliced in by ~@val: <<"ok", models>> or <<"typeerror">>
Spliced(val) ==
  IF Falsy(val) THEN <<"ok", <<>>>>
  ELSE IF val.py \in {"list", "tuple"} THEN <<"ok", [k \in 1..Len(val.items) |-> Promote(val.items[k])]>>
  ELSE IF val.py = "model" /\ val.m.t \in SeqTypes THEN <<"ok", val.m.ch>>
  ELSE <<"typeerror">>

\* ---- the quasiquote function.  Result: <<"model", m>> | <<"value", val>> | <<"splice", val>> | <<"error", what>>
RECURSIVE QQ(_, _), QQKids(_, _, _)
QQKids(cs, level, acc) ==     \* children of a sequence: <<"ok", models>> or <<"error", what>>
  IF cs = <<>> THEN <<"ok", acc>>
  ELSE LET r == QQ(Head(cs), level) IN
       CASE r[1] = "model" -> QQKids(Tail(cs), level, Append(acc, r[2]))
         [] r[1] = "value" -> QQKids(Tail(cs), level, Append(acc, Promote(r[2])))
         [] r[1] = "splice" ->
              LET s == Spliced(r[2]) IN
              IF s[1] = "ok" THEN QQKids(Tail(cs), level, acc \o s[2]) ELSE <<"error", "typeerror">>
         [] OTHER -> r
QQ(t, level) ==
  LET op == Op(t) IN
  IF op \in {"unquote", "unquote-splice"} /\ level = 0
  THEN IF Len(t.ch) # 2 THEN <<"error", "arity">>
       ELSE <<IF op = "unquote" THEN "value" ELSE "splice", EnvOf(t.ch[2].v)>>
  ELSE LET lv == IF level = Quote THEN Quote
                 ELSE IF op = "quasiquote" THEN level + 1 ELSE IF op # "" THEN level - 1 ELSE level
       IN IF t.t \in SeqTypes
          THEN LET k == QQKids(t.ch, lv, <<>>) IN
               IF k[1] = "ok" THEN <<"model", [t EXCEPT !.ch = k[2]]>> ELSE k
          ELSE <<"model", t>>

\* the value of (quasiquote Tmpl) / (quote Tmpl)
QuasiResult == QQ(Tmpl, 0)
QuoteResult == QQ(Tmpl, Quote)

\* ---- laws
\* C30: quote reproduces its argument exactly, whatever it contains
QuoteIsIdentity == QuoteResult = <<"model", Tmpl>>
\* a template without unquotes in effect is reproduced by quasiquote too
RECURSIVE HasLive(_, _)
HasLive(t, level) ==
  LET op == Op(t) IN
  IF op \in {"unquote", "unquote-splice"} /\ level = 0 THEN TRUE
  ELSE LET lv == IF op = "quasiquote" THEN level + 1 ELSE IF op # "" THEN level - 1 ELSE level IN
       t.t \in SeqTypes /\ \E k \in 1..Len(t.ch) : HasLive(t.ch[k], lv)
LiteralReproduced == ~HasLive(Tmpl, 0) => QuasiResult = <<"model", Tmpl>>
\* forms inside deeper quasiquote levels stay literal: replacing every level-0 hole of the
\* result's source by itself is the identity outside holes -- stated as: the result has the
\* template's type and, when nothing is spliced at the top, the same number of children
RECURSIVE Size(_)
Size(t) == 1 + (IF t.ch = <<>> THEN 0 ELSE LET S[k \in 0..Len(t.ch)] == IF k = 0 THEN 0 ELSE S[k - 1] + Size(t.ch[k]) IN S[Len(t.ch)])
TopShapeKept == (QuasiResult[1] = "model" /\ Op(Tmpl) = "") => QuasiResult[2].t = Tmpl.t /\ QuasiResult[2].x = Tmpl.x

Export == PrintT(<<"CASE", ToJson([cid |-> cid, quasi |-> QuasiResult, quote |-> QuoteResult])>>)
=============================================================================
