------------------------------ MODULE HyCmdline ------------------------------
(* The option scanner of the `hy` command (property C41), hy/cmdline.py.     *)
(* A command line is generated from its *structure*                          *)
(*     lead options* , ["--"] , program designator , program arguments*      *)
(* and flattened into tokens; the scanner machine below consumes the flat    *)
(* tokens the way cmdline_handler does (one action per item, clustered short *)
(* options character by character).  Invariant: what the scanner decides --  *)
(* mode, Hy options, and the arguments handed to the program -- is exactly   *)
(* the structure the line was built from; in particular nothing after        *)
(* -c CODE / -m MOD / FILE / - is read as a Hy option.                       *)
EXTENDS Naturals, Sequences, FiniteSets, TLC, Json

CONSTANTS MaxLead, MaxRest

\* lead option items: single flags and clusters of flags
LeadItems == {"-B", "-E", "-u", "--spy", "-BE", "-uB", "--unbuffered"}
FlagsOf(item) == CASE item = "-B" -> {"B"} [] item = "-E" -> {"E"} [] item = "-u" -> {"unbuffered"}
                   [] item = "--spy" -> {"spy"} [] item = "-BE" -> {"B", "E"}
                   [] item = "-uB" -> {"unbuffered", "B"} [] item = "--unbuffered" -> {"unbuffered"}
\* designators: how the program is named on the command line
Desigs == {"-c CODE", "-cCODE", "-Bc CODE", "-m MOD", "-mMOD", "FILE", "-", "-- FILE", "-- -"}
ModeOf(d) == CASE d \in {"-c CODE", "-cCODE", "-Bc CODE"} -> "c"
               [] d \in {"-m MOD", "-mMOD"} -> "m"
               [] d \in {"FILE", "-- FILE"} -> "file"
               [] OTHER -> "stdin"
ExtraFlags(d) == IF d = "-Bc CODE" THEN {"B"} ELSE {}
DesigTokens(d) == CASE d = "-c CODE" -> <<"-c", "CODE">> [] d = "-cCODE" -> <<"-cCODE">>
                    [] d = "-Bc CODE" -> <<"-Bc", "CODE">> [] d = "-m MOD" -> <<"-m", "MOD">>
                    [] d = "-mMOD" -> <<"-mMOD">> [] d = "FILE" -> <<"FILE">> [] d = "-" -> <<"-">>
                    [] d = "-- FILE" -> <<"--", "FILE">> [] d = "-- -" -> <<"--", "-">>
\* program arguments, including ones that look like Hy options
RestItems == {"plain", "-B", "--spy", "-c", "-m", "--", "-", "-x", "--foo=bar", "-i"}

SeqsUpTo(S, n) == UNION {[1..k -> S] : k \in 0..n}

VARIABLES lead, desig, rest,     \* the structure
          toks,                  \* remaining flat tokens
          flags, mode, state     \* the scanner
vars == <<lead, desig, rest, toks, flags, mode, state>>

Init == /\ lead \in SeqsUpTo(LeadItems, MaxLead)
        /\ desig \in Desigs
        /\ rest \in SeqsUpTo(RestItems, MaxRest)
        /\ toks = lead \o DesigTokens(desig) \o rest
        /\ flags = {} /\ mode = "none" /\ state = "scan"

IsLong(t) == t \in {"--spy", "--unbuffered"}
\* one scanner step = one item popped from argv (cmdline_handler's while loop)
ScanItem ==
  /\ state = "scan" /\ toks # <<>>
  /\ LET t == Head(toks) IN
     CASE t = "--" ->    \* stop option processing; what follows names the script
            /\ toks' = Tail(toks) /\ state' = "positional" /\ UNCHANGED <<flags, mode>>
       [] IsLong(t) ->
            /\ flags' = flags \cup FlagsOf(t) /\ toks' = Tail(toks) /\ UNCHANGED <<mode, state>>
       [] t \in {"-B", "-E", "-u", "-BE", "-uB"} ->
            /\ flags' = flags \cup FlagsOf(t) /\ toks' = Tail(toks) /\ UNCHANGED <<mode, state>>
       [] t = "-c" -> /\ mode' = "c" /\ toks' = Tail(Tail(toks)) /\ state' = "done" /\ UNCHANGED flags
       [] t = "-cCODE" -> /\ mode' = "c" /\ toks' = Tail(toks) /\ state' = "done" /\ UNCHANGED flags
       [] t = "-Bc" -> /\ mode' = "c" /\ flags' = flags \cup {"B"}
                       /\ toks' = Tail(Tail(toks)) /\ state' = "done"
       [] t = "-m" -> /\ mode' = "m" /\ toks' = Tail(Tail(toks)) /\ state' = "done" /\ UNCHANGED flags
       [] t = "-mMOD" -> /\ mode' = "m" /\ toks' = Tail(toks) /\ state' = "done" /\ UNCHANGED flags
       [] OTHER ->        \* first non-option item: script or "-"
            /\ state' = "positional" /\ UNCHANGED <<toks, flags, mode>>
  /\ UNCHANGED <<lead, desig, rest>>
ScanPositional ==
  /\ state = "positional" /\ toks # <<>>
  /\ mode' = IF Head(toks) = "-" THEN "stdin" ELSE "file"
  /\ toks' = Tail(toks) /\ state' = "done"
  /\ UNCHANGED <<lead, desig, rest, flags>>
Next == ScanItem \/ ScanPositional
Spec == Init /\ [][Next]_vars

RECURSIVE AllFlags(_)
AllFlags(s) == IF s = <<>> THEN {} ELSE FlagsOf(Head(s)) \cup AllFlags(Tail(s))

\* ---- the property, on the scanner
PassThrough == state = "done" => toks = rest
ModeRight == state = "done" => mode = ModeOf(desig)
FlagsRight == state = "done" => flags = AllFlags(lead) \cup ExtraFlags(desig)
\* the scanner always terminates in "done" (every generated line names a program)
Progress == state # "done" => ENABLED Next

Export == state = "done" =>
  PrintT(<<"LINE", ToJson([lead |-> lead, desig |-> desig, rest |-> rest, mode |-> mode,
                           flags |-> flags, pargs |-> toks])>>)
=============================================================================
