----------------------------- MODULE HyEvalApi -----------------------------
(* hy.eval's handling of the caller's `hy` entry (property C39), modelled in *)
(* the implementation's own steps (hy/compiler.py: hy_eval_user):            *)
(*   Entry    remember whether the dict has `hy` and which object            *)
(*   Compile  may raise (syntax error in the model)                          *)
(*   Import   the compiled code's implicit `import hy` rebinds dict["hy"]    *)
(*   Body     user code may assign hy, delete hy, raise                      *)
(*   Finally  restore the remembered object, or remove the implicit entry    *)
(* A history is a sequence of calls on the same dictionary.  The invariant   *)
(* is the property: after every call, however it ended, the dict has a `hy`  *)
(* entry exactly when it had one before that call, holding the same object.  *)
EXTENDS Naturals, Sequences, TLC, Json

CONSTANTS MaxCalls

Progs == {"value", "compile_error", "raise", "assign_value", "assign_raise",
          "del_value", "del_raise", "assign_del_raise"}
\* what the caller's dict holds under "hy": nothing, or one of these objects
Objs == {"orig_truthy", "orig_falsy"}
Absent == "absent"

VARIABLES cur,    \* current dict["hy"]: Absent, an original object, "module", "user"
          pre,    \* dict["hy"] before the current call started
          was,    \* what Entry remembered (Absent = nothing remembered)
          pc, prog, body, outcome, hist
vars == <<cur, pre, was, pc, prog, body, outcome, hist>>

BodyOf(p) == CASE p = "value" -> <<"ret">>
               [] p = "compile_error" -> <<>>
               [] p = "raise" -> <<"raise">>
               [] p = "assign_value" -> <<"assign", "ret">>
               [] p = "assign_raise" -> <<"assign", "raise">>
               [] p = "del_value" -> <<"del", "ret">>
               [] p = "del_raise" -> <<"del", "raise">>
               [] p = "assign_del_raise" -> <<"assign", "del", "raise">>

Init == /\ cur \in Objs \cup {Absent}
        /\ pre = cur /\ was = Absent /\ pc = "idle" /\ prog = "value" /\ body = <<>>
        /\ outcome = "none" /\ hist = <<>>

Call(p) == /\ pc = "idle" /\ Len(hist) < MaxCalls
           /\ prog' = p /\ body' = BodyOf(p) /\ pre' = cur
           /\ pc' = "entry" /\ UNCHANGED <<cur, was, outcome, hist>>
Entry == /\ pc = "entry" /\ was' = cur
         /\ pc' = "compile" /\ UNCHANGED <<cur, pre, prog, body, outcome, hist>>
Compile == /\ pc = "compile"
           /\ IF prog = "compile_error"
                THEN pc' = "finally" /\ outcome' = "raised"
                ELSE pc' = "import" /\ outcome' = outcome
           /\ UNCHANGED <<cur, pre, was, prog, body, hist>>
Import == /\ pc = "import" /\ cur' = "module"
          /\ pc' = "body" /\ UNCHANGED <<pre, was, prog, body, outcome, hist>>
Body == /\ pc = "body" /\ body # <<>>
        /\ LET op == Head(body) IN
             /\ body' = Tail(body)
             /\ CASE op = "assign" -> cur' = "user" /\ pc' = "body" /\ outcome' = outcome
                  [] op = "del" -> cur' = Absent /\ pc' = "body" /\ outcome' = outcome
                  [] op = "raise" -> cur' = cur /\ pc' = "finally" /\ outcome' = "raised"
                  [] op = "ret" -> cur' = cur /\ pc' = "finally" /\ outcome' = "returned"
        /\ UNCHANGED <<pre, was, prog, hist>>
Finally == /\ pc = "finally"
           /\ cur' = was       \* restore the remembered object, or remove the entry
           /\ pc' = "idle"
           /\ hist' = Append(hist, [prog |-> prog, outcome |-> outcome, before |-> pre, after |-> was])
           /\ UNCHANGED <<pre, was, prog, body, outcome>>
Next == (\E p \in Progs : Call(p)) \/ Entry \/ Compile \/ Import \/ Body \/ Finally
Spec == Init /\ [][Next]_vars

\* ---- the property
Restored == pc = "idle" => cur = pre
\* the implicit import is visible to the evaluated code
ImportVisible == (pc = "body" /\ body = BodyOf(prog)) => cur = "module"

\* ---- export complete histories for replay through the real hy.eval
Export == (pc = "idle" /\ Len(hist) = MaxCalls) =>
            PrintT(<<"HIST", ToJson([calls |-> hist, final |-> cur])>>)
=============================================================================
