------------------------------- MODULE HyMatch -------------------------------
(* Structural pattern matching (hy/core/result_macros.py compile_pattern,    *)
(* compile_match_expression) -- property C08.                                *)
(*                                                                           *)
(* Values and patterns are tagged tuples.  Match is Python's match-statement *)
(* semantics (PEP 634): which case is taken, what the pattern's names are    *)
(* bound to; Valid is Python's compile-time restrictions on patterns.        *)
(*                                                                           *)
(*  values    <<"int", n>>  <<"str", s>>  <<"none">>  <<"list", <<v..>>>>     *)
(*            <<"tuple", <<v..>>>>  <<"dict", << <<k, v>> .. >>>>             *)
(*            <<"pt", vx, vy>>  (an instance of a class with                 *)
(*            __match_args__ = ("x", "y"))                                   *)
(*  patterns  <<"lit", v>>  <<"cap", name>>  <<"wild">>  <<"val", v>> (a     *)
(*            dotted name whose value is v)  <<"seq", <<item..>>>> with items *)
(*            patterns or <<"star", name>>  <<"map", << <<k, p>> .. >>, rest>>*)
(*            <<"cls", cname, <<p..>>, << <<attr, p>> .. >>>>                 *)
(*            <<"or", <<p..>>>>  <<"as", p, name>>                            *)
EXTENDS Naturals, Sequences, FiniteSets, TLC, Json, IOUtils

CONSTANTS Mode      \* "enum": one-case programs over small patterns; "file": programs from PROG_FILE

\* ---------------------------------------------------------------- names
RECURSIVE Names(_), NamesSeq(_, _)
NamesSeq(ps, i) == IF i > Len(ps) THEN {} ELSE Names(ps[i]) \cup NamesSeq(ps, i + 1)
Names(p) ==
  CASE p[1] \in {"lit", "wild", "val"} -> {}
    [] p[1] = "cap" -> {p[2]}
    [] p[1] = "star" -> IF p[2] = "_" THEN {} ELSE {p[2]}
    [] p[1] = "seq" -> NamesSeq(p[2], 1)
    [] p[1] = "map" -> NamesSeq([i \in 1..Len(p[2]) |-> p[2][i][2]], 1) \cup (IF p[3] = "" THEN {} ELSE {p[3]})
    [] p[1] = "cls" -> NamesSeq(p[3], 1) \cup NamesSeq([i \in 1..Len(p[4]) |-> p[4][i][2]], 1)
    [] p[1] = "or" -> Names(p[2][1])
    [] p[1] = "as" -> Names(p[2]) \cup {p[3]}

\* ---------------------------------------------------------------- validity (compile time)
RECURSIVE Irrefutable(_), Valid(_), ValidSeq(_, _), CountNames(_, _), CountSeq(_, _, _)
Irrefutable(p) ==
  CASE p[1] \in {"cap", "wild"} -> TRUE
    [] p[1] = "as" -> Irrefutable(p[2])
    [] p[1] = "or" -> \E i \in 1..Len(p[2]) : Irrefutable(p[2][i])
    [] OTHER -> FALSE
\* how often pattern p binds name n (alternatives of an or-pattern count once)
CountSeq(ps, n, i) == IF i > Len(ps) THEN 0 ELSE CountNames(ps[i], n) + CountSeq(ps, n, i + 1)
CountNames(p, n) ==
  CASE p[1] \in {"lit", "wild", "val"} -> 0
    [] p[1] = "cap" -> IF p[2] = n THEN 1 ELSE 0
    [] p[1] = "star" -> IF p[2] = n THEN 1 ELSE 0
    [] p[1] = "seq" -> CountSeq(p[2], n, 1)
    [] p[1] = "map" -> CountSeq([i \in 1..Len(p[2]) |-> p[2][i][2]], n, 1) + (IF p[3] = n THEN 1 ELSE 0)
    [] p[1] = "cls" -> CountSeq(p[3], n, 1) + CountSeq([i \in 1..Len(p[4]) |-> p[4][i][2]], n, 1)
    [] p[1] = "or" -> CountNames(p[2][1], n)
    [] p[1] = "as" -> CountNames(p[2], n) + (IF p[3] = n THEN 1 ELSE 0)
ValidSeq(ps, i) == i > Len(ps) \/ (Valid(ps[i]) /\ ValidSeq(ps, i + 1))
Valid(p) ==
  CASE p[1] \in {"lit", "wild", "val", "cap", "star"} -> TRUE
    [] p[1] = "seq" -> /\ ValidSeq(p[2], 1)
                       /\ Cardinality({i \in 1..Len(p[2]) : p[2][i][1] = "star"}) <= 1
    [] p[1] = "map" -> /\ ValidSeq([i \in 1..Len(p[2]) |-> p[2][i][2]], 1)
                       /\ \A i, j \in 1..Len(p[2]) : i # j => p[2][i][1] # p[2][j][1]      \* no repeated key
    [] p[1] = "cls" -> /\ ValidSeq(p[3], 1) /\ ValidSeq([i \in 1..Len(p[4]) |-> p[4][i][2]], 1)
                       /\ \A i, j \in 1..Len(p[4]) : i # j => p[4][i][1] # p[4][j][1]      \* no repeated keyword
    [] p[1] = "or" -> /\ ValidSeq(p[2], 1)
                      /\ \A i \in 1..Len(p[2]) : Names(p[2][i]) = Names(p[2][1])            \* same names
                      /\ \A i \in 1..(Len(p[2]) - 1) : ~Irrefutable(p[2][i])                \* only the last may be
    [] p[1] = "as" -> Valid(p[2]) /\ p[3] # "_"
\* the whole pattern of a case: valid, and no name bound twice
ValidCasePattern(p) == Valid(p) /\ \A n \in Names(p) : CountNames(p, n) = 1

\* ---------------------------------------------------------------- matching (run time)
Fail == [ok |-> FALSE, env |-> <<>>, err |-> FALSE]
Err == [ok |-> FALSE, env |-> <<>>, err |-> TRUE]
Ok(env) == [ok |-> TRUE, env |-> env, err |-> FALSE]
IsSeqVal(v) == v[1] \in {"list", "tuple"}

RECURSIVE Match(_, _, _), MatchAll(_, _, _, _), MatchOr(_, _, _, _), MatchMap(_, _, _, _), MatchAttrs(_, _, _, _)
\* patterns ps[i..] against values vs[i..] (same length)
MatchAll(ps, vs, env, i) ==
  IF i > Len(ps) THEN Ok(env)
  ELSE LET r == Match(ps[i], vs[i], env) IN IF r.ok THEN MatchAll(ps, vs, r.env, i + 1) ELSE r
MatchOr(ps, v, env, i) ==
  IF i > Len(ps) THEN Fail
  ELSE LET r == Match(ps[i], v, env) IN IF r.ok \/ r.err THEN r ELSE MatchOr(ps, v, env, i + 1)
Lookup(d, k) == IF \E i \in 1..Len(d) : d[i][1] = k THEN <<TRUE, d[CHOOSE i \in 1..Len(d) : d[i][1] = k][2]>> ELSE <<FALSE, <<"none">>>>
MatchMap(kps, d, env, i) ==
  IF i > Len(kps) THEN Ok(env)
  ELSE LET l == Lookup(d, kps[i][1]) IN
       IF ~l[1] THEN Fail
       ELSE LET r == Match(kps[i][2], l[2], env) IN IF r.ok THEN MatchMap(kps, d, r.env, i + 1) ELSE r
\* attribute patterns <<attr, p>> against a point
Attr(v, a) == IF a = "x" THEN <<TRUE, v[2]>> ELSE IF a = "y" THEN <<TRUE, v[3]>> ELSE <<FALSE, <<"none">>>>
MatchAttrs(aps, v, env, i) ==
  IF i > Len(aps) THEN Ok(env)
  ELSE LET l == Attr(v, aps[i][1]) IN
       IF ~l[1] THEN Fail
       ELSE LET r == Match(aps[i][2], l[2], env) IN IF r.ok THEN MatchAttrs(aps, v, r.env, i + 1) ELSE r
MatchArgs == <<"x", "y">>
RECURSIVE AttrScan(_, _, _)
AttrScan(aps, v, i) ==
  IF i > Len(aps) THEN "ok"
  ELSE IF \E j \in 1..(i - 1) : aps[j][1] = aps[i][1] THEN "err"
  ELSE IF ~Attr(v, aps[i][1])[1] THEN "fail"
  ELSE AttrScan(aps, v, i + 1)

Match(p, v, env) ==
  CASE p[1] = "lit" -> IF p[2] = v THEN Ok(env) ELSE Fail
    [] p[1] = "val" -> IF p[2] = v THEN Ok(env) ELSE Fail
    [] p[1] = "wild" -> Ok(env)
    [] p[1] = "cap" -> Ok(Append(env, <<p[2], v>>))
    [] p[1] = "as" -> LET r == Match(p[2], v, env) IN IF r.ok THEN Ok(Append(r.env, <<p[3], v>>)) ELSE r
    [] p[1] = "or" -> MatchOr(p[2], v, env, 1)
    [] p[1] = "seq" ->
         IF ~IsSeqVal(v) THEN Fail
         ELSE LET items == p[2]
                  vs == v[2]
                  n == Len(items)
                  S == {i \in 1..n : items[i][1] = "star"}
              IN IF S = {} THEN (IF Len(vs) = n THEN MatchAll(items, vs, env, 1) ELSE Fail)
                 ELSE LET s == CHOOSE i \in S : TRUE
                          after == n - s
                      IN IF Len(vs) < n - 1 THEN Fail
                         ELSE LET r1 == MatchAll(SubSeq(items, 1, s - 1), SubSeq(vs, 1, s - 1), env, 1) IN
                              IF ~r1.ok THEN r1
                              ELSE LET mid == SubSeq(vs, s, Len(vs) - after)
                                       e2 == IF items[s][2] = "_" THEN r1.env ELSE Append(r1.env, <<items[s][2], <<"list", mid>>>>)
                                   IN MatchAll(SubSeq(items, s + 1, n), SubSeq(vs, Len(vs) - after + 1, Len(vs)), e2, 1)
    [] p[1] = "map" ->
         IF v[1] # "dict" THEN Fail
         ELSE LET r == MatchMap(p[2], v[2], env, 1) IN
              IF ~r.ok \/ p[3] = "" THEN r
              ELSE LET keys == {p[2][i][1] : i \in 1..Len(p[2])}
                       rest == SelectSeq(v[2], LAMBDA kv : kv[1] \notin keys)
                   IN Ok(Append(r.env, <<p[3], <<"dict", rest>>>>))
    [] p[1] = "cls" ->
         IF p[2] = "Pt" THEN
            IF v[1] # "pt" THEN Fail
            ELSE IF Len(p[3]) > Len(MatchArgs) THEN Err          \* TypeError: too many positional sub-patterns
            ELSE LET posattrs == [i \in 1..Len(p[3]) |-> <<MatchArgs[i], p[3][i]>>]
                     all == posattrs \o p[4]
                     \* the attributes are fetched in order first: a repeated attribute is a TypeError, a missing
                     \* one ends the match -- whichever comes first; only then are the sub-patterns matched
                     scan == AttrScan(all, v, 1)
                 IN IF scan = "err" THEN Err ELSE IF scan = "fail" THEN Fail ELSE MatchAttrs(all, v, env, 1)
         ELSE \* int / str / list / dict: builtin classes; one positional sub-pattern matches the subject itself
            LET isinst == (p[2] = "int" /\ v[1] = "int") \/ (p[2] = "str" /\ v[1] = "str")
                          \/ (p[2] = "list" /\ v[1] = "list") \/ (p[2] = "dict" /\ v[1] = "dict")
            IN IF ~isinst THEN Fail
               ELSE IF Len(p[3]) > 1 THEN Err
               ELSE IF Len(p[4]) > 0 THEN Fail                  \* no such attributes on these values
               ELSE IF Len(p[3]) = 1 THEN Match(p[3][1], v, env) ELSE Ok(env)

\* final binding of a name in an environment (the last one wins)
Final(env, n) == env[CHOOSE i \in 1..Len(env) : env[i][1] = n /\ \A j \in (i + 1)..Len(env) : env[j][1] # n][2]

\* ---------------------------------------------------------------- programs
\* a case: [pat, guard]; guards: "none", "T", "F", "stmt-T", "stmt-F" (a guard that needs statements),
\* "x1": (= x <<"int",1>>) -- needs x bound by the pattern; "stmt-x1": the same, needing statements
GuardVal(g, env) ==
  CASE g \in {"none", "T", "stmt-T"} -> TRUE
    [] g \in {"F", "stmt-F"} -> FALSE
    [] g \in {"x1", "stmt-x1"} -> Final(env, "x") = <<"int", 1>>
    \* a guard that needs statements and reads every name the pattern binds (it is true)
    [] g = "stmt-all" -> TRUE
GuardOK(c) == c.guard \in {"x1", "stmt-x1"} => "x" \in Names(c.pat)

ProgValid(prog) ==
  /\ \A i \in 1..Len(prog.cases) : ValidCasePattern(prog.cases[i].pat)
  \* an irrefutable case without a guard must be the last one
  /\ \A i \in 1..(Len(prog.cases) - 1) : ~(Irrefutable(prog.cases[i].pat) /\ prog.cases[i].guard = "none")

RECURSIVE RunFrom(_, _)
RunFrom(prog, i) ==
  IF i > Len(prog.cases) THEN [kind |-> "nomatch", idx |-> 0, binds |-> <<>>]
  ELSE LET c == prog.cases[i]
           r == Match(c.pat, prog.subject, <<>>)
       IN IF r.err THEN [kind |-> "typeerror", idx |-> i, binds |-> <<>>]
          ELSE IF r.ok /\ GuardVal(c.guard, r.env)
               THEN [kind |-> "case", idx |-> i,
                     binds |-> LET ns == Names(c.pat) IN {<<n, Final(r.env, n)>> : n \in ns}]
          ELSE RunFrom(prog, i + 1)
Outcome(prog) == IF ~ProgValid(prog) THEN [kind |-> "syntax", idx |-> 0, binds |-> <<>>] ELSE RunFrom(prog, 1)

\* ---------------------------------------------------------------- enumeration / file
I(n) == <<"int", n>>
S(s) == <<"str", s>>
Subjects == {I(1), I(2), S("a"), <<"none">>, <<"list", <<>>>>, <<"list", <<I(1)>>>>, <<"list", <<I(1), I(2)>>>>,
             <<"tuple", <<I(1), I(2)>>>>, <<"list", <<I(1), I(2), I(1)>>>>,
             <<"dict", <<<<S("k"), I(1)>>>>>>, <<"dict", <<<<S("k"), I(1)>>, <<S("m"), I(2)>>>>>>,
             <<"pt", I(1), I(2)>>, <<"pt", I(2), I(1)>>, <<"list", <<<<"list", <<I(1)>>>>, I(2)>>>>}
Atoms == {<<"lit", I(1)>>, <<"lit", I(2)>>, <<"lit", S("a")>>, <<"lit", <<"none">>>>, <<"cap", "x">>, <<"cap", "y">>,
          <<"wild">>, <<"val", I(1)>>}
SeqItems == Atoms \cup {<<"star", "r">>, <<"star", "_">>}
SeqsUpTo(T, n) == UNION {[1..k -> T] : k \in 0..n}
Level1 ==
  Atoms
  \cup {<<"seq", s>> : s \in SeqsUpTo(SeqItems, 2)}
  \cup {<<"map", <<<<k, a>>>>, r>> : k \in {S("k"), S("m")}, a \in Atoms, r \in {"", "r"}}
  \cup {<<"map", <<>>, r>> : r \in {"", "r"}}
  \cup {<<"cls", "Pt", ps, <<>>>> : ps \in SeqsUpTo(Atoms, 2)}
  \cup {<<"cls", "Pt", ps, <<<<at, a>>>>>> : ps \in SeqsUpTo({<<"cap", "x">>, <<"wild">>}, 1), at \in {"x", "y", "z"}, a \in Atoms}
  \cup {<<"cls", c, ps, <<>>>> : c \in {"int", "str", "list"}, ps \in SeqsUpTo({<<"cap", "x">>, <<"lit", I(1)>>}, 1)}
  \cup {<<"or", <<a, b>>>> : a \in Atoms, b \in Atoms}
  \cup {<<"as", a, "z">> : a \in Atoms}
Guards == {"none", "T", "F", "stmt-T", "stmt-F", "x1", "stmt-x1", "stmt-all"}

FileProgs == IF Mode = "file" THEN ndJsonDeserialize(IOEnv.PROG_FILE) ELSE <<>>
VARIABLE prog
Init == IF Mode = "enum"
        THEN \E v \in Subjects, p \in Level1, g \in Guards :
                prog = [id |-> 0, subject |-> v, cases |-> <<[pat |-> p, guard |-> g]>>]
        ELSE \E i \in 1..Len(FileProgs) : prog = FileProgs[i]
Next == UNCHANGED prog
Spec == Init /\ [][Next]_prog

\* ---------------------------------------------------------------- laws
\* a wildcard or capture case always matches
IrrefutableMatches ==
  \A i \in 1..Len(prog.cases) : Irrefutable(prog.cases[i].pat) /\ ValidCasePattern(prog.cases[i].pat)
      => Match(prog.cases[i].pat, prog.subject, <<>>).ok
\* a successful match binds exactly the names of the pattern
BindsExactlyNames ==
  \A i \in 1..Len(prog.cases) :
     LET c == prog.cases[i] r == Match(c.pat, prog.subject, <<>>) IN
     (ValidCasePattern(c.pat) /\ r.ok) => {r.env[k][1] : k \in 1..Len(r.env)} = Names(c.pat)
\* strings are not sequences
StringsAreNotSequences ==
  \A i \in 1..Len(prog.cases) :
     (prog.subject[1] = "str" /\ prog.cases[i].pat[1] = "seq") => ~Match(prog.cases[i].pat, prog.subject, <<>>).ok

\* a guard that reads x is only meaningful when the pattern binds x
Specified == \A i \in 1..Len(prog.cases) : GuardOK(prog.cases[i])
Export == Specified => PrintT(<<"CASE", ToJson([id |-> prog.id, subject |-> prog.subject, cases |-> prog.cases, out |-> Outcome(prog)])>>)
=============================================================================
