--------------------------- MODULE HyGensymTrace ---------------------------
(* Validates event traces recorded from real threads running hy.gensym       *)
(* (sys.monitoring + lock proxy) against HyGensym.  One TLC run validates a  *)
(* batch: tid picks the trace.  Every event carries its thread, operation    *)
(* and the counter value it saw / wrote, so the search is linear.            *)
EXTENDS HyGensym, IOUtils

Traces == ndJsonDeserialize(IOEnv.TRACE_FILE)   \* each line: [ev |-> <<...>>, rets |-> ...]

VARIABLES tid, l
tvars == <<vars, tid, l>>

Tr == Traces[tid].ev

TInit == /\ tid \in 1..Len(Traces)
         /\ l = 1
         /\ counter = Traces[tid].start
         /\ holder = NoThread
         /\ pc = [t \in Threads |-> 1]
         /\ reg = [t \in Threads |-> 0]
         /\ hist = <<>>

TStep == /\ l <= Len(Tr)
         /\ LET e == Tr[l] IN
              /\ e.t \in Threads
              /\ pc[e.t] < End
              /\ Prog[pc[e.t]] = e.op
              /\ Step(e.t)
              /\ (e.op = "load" => e.val = counter)
              /\ (e.op = "store" => e.val = counter')
         /\ l' = l + 1
         /\ UNCHANGED tid

TSpec == TInit /\ [][TStep]_tvars

\* accepted: whole trace consumed and the numbers the calls returned are the
\* registers of the model
Consumed == l = Len(Tr) + 1
RetsMatch == \A t \in Threads : Done(t) => Traces[tid].rets[t] = reg[t]
Accept == (Consumed /\ RetsMatch) => TLCSet(1, TLCGet(1) \cup {tid})
TDistinct == Distinct
ASSUME TLCSet(1, {})
Post == /\ PrintT(<<"ACCEPTED", ToJson([ids |-> TLCGet(1), n |-> Len(Traces)])>>)
        /\ TRUE
=============================================================================
