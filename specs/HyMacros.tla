------------------------------- MODULE HyMacros -------------------------------
(* Macro namespaces (hy/macros.py: macroexpand, require; defmacro and        *)
(* require in hy/core/result_macros.py) -- property C35.                     *)
(*                                                                           *)
(* A history is a sequence of events in one module:                          *)
(*   Def(n)        (defmacro n ...) at the current scope                     *)
(*   Req(shape)    (require S ...) of a fixed source module S in one of the  *)
(*                 documented shapes, at the current scope                   *)
(*   Enter / Exit  a function scope begins / ends                            *)
(*   Pragma        (pragma :warn-on-core-shadow False) in the current scope  *)
(*   Call(n)       a call of n: which definition does it expand to?          *)
(*   EvalCall(n)   hy.eval of a call of n with a `macros` argument           *)
(*   EvalLocal(n)  hy.eval of code that defines n as a local macro and calls it *)
(* Every definition gets a fresh tag, so a call's expansion identifies the   *)
(* definition that was chosen.  The specification resolves a call in the     *)
(* documented order: hy.eval's macros argument, local macros from innermost  *)
(* to outermost scope, module macros, core macros.                           *)
EXTENDS Naturals, Sequences, FiniteSets, TLC, Json

CONSTANTS MaxEvents,
          Focus     \* "all": every kind of event; "nest": only defmacro / scopes / calls of one name
                    \* (deep nestings with few distinct events)

\* names that may be defined or called.  "when" is a core macro.
DefNames == {"m", "when", "do-mac"}       \* "when", "do-mac": core macros (the second one's name is changed by mangling)
Core == {"when", "do-mac"}
\* the source module S defines a, b, _c; with ExportOnlyA it declares _hy_export_macros = [a]
SrcMacros == {"a", "b", "_c"}
Shapes == {"plain", "as", "list", "star", "plain-exp", "star-exp", "star-empty"}
\* names a require brings in, as (new name, source macro) pairs
Brings(shape) ==
  CASE shape = "plain" -> {<<"S.a", "a">>, <<"S.b", "b">>}             \* exports: no leading underscore
    [] shape = "as" -> {<<"p.a", "a">>, <<"p.b", "b">>}
    [] shape = "list" -> {<<"a", "a">>, <<"bb", "b">>, <<"_c", "_c">>}  \* [a [b :as bb] _c]: named explicitly
    [] shape = "star" -> {<<"a", "a">>, <<"b", "b">>}
    [] shape = "plain-exp" -> {<<"S2.a", "a">>}                         \* S2 has _hy_export_macros = ["a"]
    [] shape = "star-exp" -> {<<"a", "a">>}
    [] shape = "star-empty" -> {}                                      \* S3 has _hy_export_macros = []: nothing
CallNames == {"m", "when", "do-mac", "a", "b", "bb", "_c", "S.a", "S.b", "p.a", "p.b", "S2.a", "S2.b", "S._c"}
SrcTag(s) == CASE s = "a" -> 901 [] s = "b" -> 902 [] s = "_c" -> 903
CoreTag == 999
NoMacro == 0

VARIABLES modM, loc, warnflag, nextTag, hist, warned
vars == <<modM, loc, warnflag, nextTag, hist, warned>>

Empty == [n \in CallNames |-> NoMacro]
Init == /\ modM = Empty /\ loc = <<>> /\ warnflag = <<TRUE>>   \* warnflag[1]: module level; one entry per scope
        /\ nextTag = 1 /\ hist = <<>> /\ warned = <<>>

WarnOn == \* get_local_option: the innermost scope that set the pragma decides
  warnflag[Len(warnflag)]
Bind(name, tag) ==
  IF loc = <<>> THEN /\ modM' = [modM EXCEPT ![name] = tag] /\ UNCHANGED loc
  ELSE /\ loc' = [loc EXCEPT ![Len(loc)][name] = tag] /\ UNCHANGED modM
RECURSIVE BindAll(_, _, _)
\* bind a set of (name, source) pairs in the current table
BindSet(ps) ==
  IF loc = <<>>
  THEN /\ modM' = [n \in CallNames |-> IF \E p \in ps : p[1] = n THEN SrcTag((CHOOSE p \in ps : p[1] = n)[2]) ELSE modM[n]]
       /\ UNCHANGED loc
  ELSE /\ loc' = [loc EXCEPT ![Len(loc)] =
                    [n \in CallNames |-> IF \E p \in ps : p[1] = n THEN SrcTag((CHOOSE p \in ps : p[1] = n)[2]) ELSE @[n]]]
       /\ UNCHANGED modM
BindAll(a, b, c) == TRUE

Def(n) == /\ Bind(n, nextTag)
          /\ nextTag' = nextTag + 1
          /\ warned' = IF n \in Core /\ WarnOn THEN Append(warned, n) ELSE warned
          /\ hist' = Append(hist, [ev |-> "def", n |-> n, tag |-> nextTag, res |-> 0, lvl |-> Len(loc)])
          /\ UNCHANGED warnflag
Req(shape) == /\ BindSet(Brings(shape))
              /\ hist' = Append(hist, [ev |-> "req", n |-> shape, tag |-> 0, res |-> 0, lvl |-> Len(loc)])
              /\ UNCHANGED <<nextTag, warnflag, warned>>      \* none of S's names shadows a core macro
Enter == /\ Len(loc) < 2
         /\ loc' = Append(loc, Empty) /\ warnflag' = Append(warnflag, WarnOn)
         /\ hist' = Append(hist, [ev |-> "enter", n |-> "", tag |-> 0, res |-> 0, lvl |-> Len(loc)])
         /\ UNCHANGED <<modM, nextTag, warned>>
Exit == /\ loc # <<>>
        /\ loc' = SubSeq(loc, 1, Len(loc) - 1) /\ warnflag' = SubSeq(warnflag, 1, Len(warnflag) - 1)
        /\ hist' = Append(hist, [ev |-> "exit", n |-> "", tag |-> 0, res |-> 0, lvl |-> Len(loc)])
        /\ UNCHANGED <<modM, nextTag, warned>>
Pragma == /\ warnflag' = [warnflag EXCEPT ![Len(warnflag)] = FALSE]
          /\ hist' = Append(hist, [ev |-> "pragma", n |-> "", tag |-> 0, res |-> 0, lvl |-> Len(loc)])
          /\ UNCHANGED <<modM, loc, nextTag, warned>>

\* ---- resolution
RECURSIVE LocalLookup(_, _)
LocalLookup(n, i) == IF i = 0 THEN NoMacro ELSE IF loc[i][n] # NoMacro THEN loc[i][n] ELSE LocalLookup(n, i - 1)
Resolve(n) ==
  LET l == LocalLookup(n, Len(loc)) IN
  IF l # NoMacro THEN l ELSE IF modM[n] # NoMacro THEN modM[n] ELSE IF n \in Core THEN CoreTag ELSE NoMacro
\* hy.eval sees the macros argument first, then module and core macros -- never local ones
ExtraTag == 800
ResolveEval(n, hasExtra) ==
  IF hasExtra THEN ExtraTag ELSE IF modM[n] # NoMacro THEN modM[n] ELSE IF n \in Core THEN CoreTag ELSE NoMacro

Call(n) == /\ hist' = Append(hist, [ev |-> "call", n |-> n, tag |-> 0, res |-> Resolve(n), lvl |-> Len(loc)])
           /\ UNCHANGED <<modM, loc, warnflag, nextTag, warned>>
\* (hy.eval runs when the module runs: by then every module-level defmacro of the module has been
\* installed, so the expected expansion is computed from the final module table -- see Final)
EvalCall(n, x) == /\ hist' = Append(hist, [ev |-> IF x THEN "evalx" ELSE "eval", n |-> n, tag |-> 0, res |-> 0, lvl |-> Len(loc)])
                  /\ UNCHANGED <<modM, loc, warnflag, nextTag, warned>>

\* hy.eval of code that itself defines a local macro n (tag InnerTag) in a scope of its own and calls it there:
\* the macros argument is looked up before local macros; without it the local definition is the first found
InnerTag == 700
EvalLocal(n, x) == /\ hist' = Append(hist, [ev |-> IF x THEN "evallocx" ELSE "evalloc", n |-> n, tag |-> 0,
                                             res |-> IF x THEN ExtraTag ELSE InnerTag, lvl |-> Len(loc)])
                   /\ UNCHANGED <<modM, loc, warnflag, nextTag, warned>>

Next == /\ Len(hist) < MaxEvents
        /\ (Len(hist) + Len(loc) < MaxEvents \/ loc # <<>>)     \* leave room to close the open scopes
        /\ IF Focus = "nest"
             THEN Def("m") \/ Enter \/ Exit \/ Call("m") \/ Req("star") \/ Call("a")
             ELSE \/ \E n \in DefNames : Def(n)
                  \/ \E sh \in Shapes : Req(sh)
                  \/ Enter \/ Exit \/ Pragma
                  \/ \E n \in {"m", "when", "do-mac", "a", "bb", "S.a", "p.a", "_c", "S2.a", "S2.b", "S._c", "b"} : Call(n)
                  \/ \E n \in {"m", "when", "a"} : \E x \in BOOLEAN : EvalCall(n, x)
                  \/ \E n \in {"m", "a"} : \E x \in BOOLEAN : EvalLocal(n, x)
Spec == Init /\ [][Next]_vars

\* ---- laws
\* a local definition is invisible once its scope has ended: the tables popped are gone
LocalsPopped == Len(loc) = Len(warnflag) - 1
\* an inner definition shadows an outer one of the same name
InnerShadows ==
  \A n \in CallNames : \A i \in 1..Len(loc) :
     (loc[i][n] # NoMacro /\ \A j \in (i + 1)..Len(loc) : loc[j][n] = NoMacro) => Resolve(n) = loc[i][n]
\* module macros shadow core macros, core macros are always available
CoreAvailable == \A n \in Core : Resolve(n) # NoMacro
\* require never brings in a name that was not asked for: the names bound by a Req are Brings(shape)
RequireBringsExactly ==
  /\ \A sh \in Shapes : \A p \in Brings(sh) : p[1] \in CallNames /\ p[2] \in SrcMacros
  \* without an explicit name list, macros whose name starts with an underscore stay behind
  /\ \A sh \in Shapes \ {"list"} : \A p \in Brings(sh) : p[2] # "_c"
  \* an export list restricts * and the prefixed form
  /\ \A sh \in {"plain-exp", "star-exp"} : \A p \in Brings(sh) : p[2] = "a"

Done == Len(hist) = MaxEvents /\ loc = <<>>
\* The module table that hy.eval sees at run time.  A module-level defmacro / require runs at compile
\* time *and* again when the module runs, in order: a name bound before the hy.eval call has its latest
\* earlier binding; a name bound only later still has what compilation left behind (its last binding).
BoundTag(j, n) ==
  IF hist[j].ev = "def" /\ hist[j].n = n THEN hist[j].tag
  ELSE IF hist[j].ev = "req" /\ \E p \in Brings(hist[j].n) : p[1] = n
       THEN SrcTag((CHOOSE p \in Brings(hist[j].n) : p[1] = n)[2])
  ELSE NoMacro
MaxOf(S) == CHOOSE x \in S : \A y \in S : y <= x
RuntimeModTag(n, i) ==
  LET B == {j \in 1..Len(hist) : hist[j].lvl = 0 /\ BoundTag(j, n) # NoMacro}
      before == {j \in B : j < i}
  IN IF B = {} THEN NoMacro ELSE IF before # {} THEN BoundTag(MaxOf(before), n) ELSE BoundTag(MaxOf(B), n)
EvalTag(i) ==
  IF hist[i].ev = "evalx" THEN ExtraTag
  ELSE IF RuntimeModTag(hist[i].n, i) # NoMacro THEN RuntimeModTag(hist[i].n, i)
  ELSE IF hist[i].n \in Core THEN CoreTag ELSE NoMacro
Final == [i \in 1..Len(hist) |->
            IF hist[i].ev \in {"eval", "evalx"} THEN [hist[i] EXCEPT !.res = EvalTag(i)] ELSE hist[i]]
\* the macros argument of hy.eval wins over everything, local macros of the evaluated code included
ExtraFirst == \A i \in 1..Len(hist) : hist[i].ev \in {"evalx", "evallocx"} => Final[i].res = ExtraTag
Export == (Done /\ \E i \in 1..Len(hist) : hist[i].ev \in {"call", "eval", "evalx", "evalloc", "evallocx"}) =>
             PrintT(<<"HIST", ToJson([h |-> Final, warned |-> warned])>>)
=============================================================================
