---------------------------- MODULE HyReplTrace ----------------------------
(* Validates what a real hy.repl.REPL did, input by input, against HyRepl.   *)
(* A trace: <<[kind, more, stars, e, printed]...>> recorded after each call  *)
(* of runsource (more = it asked for a continuation line).                   *)
EXTENDS HyRepl, IOUtils
Traces == ndJsonDeserialize(IOEnv.TRACE_FILE)
VARIABLES tid, l
tvars == <<vars, tid, l>>
Tr == Traces[tid].steps

TInit == /\ tid \in 1..Len(Traces) /\ l = 1
         /\ stars = <<NoneV, NoneV, NoneV>> /\ e = 0 /\ out = <<>> /\ n = 0 /\ kinds = <<>>

Agree(s) == /\ stars' = s.stars /\ e' = s.e /\ out' = s.printed
TStep == /\ l <= Len(Tr)
         /\ LET s == Tr[l] IN
              IF s.more THEN More /\ stars = s.stars /\ e = s.e /\ out = s.printed
              ELSE /\ CASE s.kind = "ok" -> Ok
                        [] s.kind = "none" -> OkNone
                        [] s.kind = "compilefail" -> Fail("compilefail")
                        [] s.kind = "runfail" -> Fail("runfail")
                        [] s.kind = "printfail" -> PrintFail
                   /\ Agree(s)
         /\ l' = l + 1 /\ UNCHANGED tid
TSpec == TInit /\ [][TStep]_tvars
TNoRepeat == NoRepeat
TRecency == Recency
Accept == (l = Len(Tr) + 1) => PrintT(<<"ACC", ToJson(tid)>>)
=============================================================================
