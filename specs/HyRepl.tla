------------------------------- MODULE HyRepl -------------------------------
(* The REPL's bookkeeping (property C40): *1 *2 *3, *e, printed results.     *)
(* Every complete input has an id 1,2,3,...; a successful input yields a     *)
(* result that is identified with its id (None-valued inputs yield None).    *)
(*   Ok      evaluation succeeded with a non-None value: shifted in, printed *)
(*   OkNone  evaluation succeeded with None: shifted in, nothing printed     *)
(*   Fail    compile-time or run-time failure: *e is the new exception; a    *)
(*           failed input has no result, so *1 *2 *3 keep holding the        *)
(*           results of the latest inputs that had one                       *)
(*   PrintFail  evaluation succeeded but printing the value raised: result   *)
(*           counts (shifted in), *e is the printing exception               *)
(*   More    the accumulated text is incomplete: nothing changes             *)
EXTENDS Naturals, Sequences, FiniteSets, TLC, Json

CONSTANT MaxInputs
NoneV == 0

VARIABLES stars,   \* <<*1, *2, *3>>: input ids or NoneV
          e,       \* input id whose exception is in *e (0 = none yet)
          out,     \* ids of printed results, in order
          n,       \* number of complete inputs so far
          kinds    \* history of input kinds (for export)
vars == <<stars, e, out, n, kinds>>

Init == stars = <<NoneV, NoneV, NoneV>> /\ e = 0 /\ out = <<>> /\ n = 0 /\ kinds = <<>>

Shift(v) == <<v, stars[1], stars[2]>>

Ok == /\ n < MaxInputs /\ n' = n + 1
      /\ stars' = Shift(n + 1) /\ out' = Append(out, n + 1)
      /\ kinds' = Append(kinds, "ok") /\ UNCHANGED e
OkNone == /\ n < MaxInputs /\ n' = n + 1
          /\ stars' = Shift(NoneV) /\ kinds' = Append(kinds, "none") /\ UNCHANGED <<e, out>>
Fail(kind) == /\ n < MaxInputs /\ n' = n + 1
              /\ e' = n + 1
              /\ stars' = stars
              /\ kinds' = Append(kinds, kind) /\ UNCHANGED out
PrintFail == /\ n < MaxInputs /\ n' = n + 1
             /\ e' = n + 1
             /\ stars' = Shift(n + 1)
             /\ kinds' = Append(kinds, "printfail") /\ UNCHANGED out
More == UNCHANGED vars
Next == Ok \/ OkNone \/ Fail("compilefail") \/ Fail("runfail") \/ PrintFail
Spec == Init /\ [][Next]_vars

\* ---- the property
\* no two of *1 *2 *3 hold the result of the same input
NoRepeat == \A i, j \in 1..3 : (i # j /\ stars[i] # NoneV) => stars[i] # stars[j]
\* they are ordered by recency
Recency == \A i, j \in 1..3 : (i < j /\ stars[i] # NoneV /\ stars[j] # NoneV) => stars[i] > stars[j]
\* *1 is never older than the latest successful non-None input... (stated on the trace side)
PrintedInOrder == \A i, j \in 1..Len(out) : i < j => out[i] < out[j]

Export == (n = MaxInputs) => PrintT(<<"HIST", ToJson(kinds)>>)
=============================================================================
