------------------------------- MODULE HyCache -------------------------------
(* Importing a Hy module from source and from cached bytecode (hy/importer.py *)
(* _hy_source_to_code; compile_require's emitted hy.macros.require call;     *)
(* hy.macros.require) -- property C15.                                       *)
(*                                                                           *)
(* A module M (in package P, next to macro modules S and S2) is a sequence   *)
(* of forms.  Every form has a compile-time effect (on the macro and reader  *)
(* tables of the module being compiled, and on the code emitted) and a       *)
(* run-time effect (of the emitted code).  Two histories:                    *)
(*   source   : compile (all forms), then run the emitted code in the module *)
(*              whose tables the compilation already filled                  *)
(*   cached   : run the emitted code in a fresh module                       *)
(* The property: both end in the same values, the same macro table and the   *)
(* same reader-macro table.                                                  *)
(*                                                                           *)
(* Also: which files are Hy source (IsHySource).                             *)
EXTENDS Naturals, Sequences, FiniteSets, TLC, Json

CONSTANTS MaxForms, Exts, PySuffixes,
          RuntimeMirrors     \* TRUE: the emitted run-time require mirrors the compile-time one (as
                             \* implemented); FALSE: it forgets the prefix (negative control)

\* ---- the macro modules.  S defines a, b, _c and reader macros r, s; S2 defines a, b and exports a only
SrcTag(s) == CASE s = "a" -> 901 [] s = "b" -> 902 [] s = "_c" -> 903
Shapes == {"plain", "as", "list", "star", "rel-list", "rel-as", "rel-star-exp", "exp-as", "pkg-list", "rel-pkg", "both"}
\* names a require brings in, as <<new name, source macro>> pairs ("P" stands for the package name)
Brings(shape) ==
  CASE shape = "plain" -> {<<"P.S.a", "a">>, <<"P.S.b", "b">>}            \* (require P.S): exports only
    [] shape = "as" -> {<<"p.a", "a">>, <<"p.b", "b">>}                   \* (require P.S :as p)
    [] shape = "list" -> {<<"a", "a">>, <<"bb", "b">>, <<"_c", "_c">>}    \* (require P.S [a b :as bb _c])
    [] shape = "star" -> {<<"a", "a">>, <<"b", "b">>}                     \* (require P.S *)
    [] shape = "rel-list" -> {<<"a", "a">>}                               \* (require .S [a])
    [] shape = "rel-as" -> {<<"q.a", "a">>, <<"q.b", "b">>}               \* (require .S :as q)
    [] shape = "rel-star-exp" -> {<<"a", "a">>}                           \* (require .S2 *): export list
    [] shape = "exp-as" -> {<<"e.a", "a">>}                               \* (require P.S2 :as e)
    \* a name list naming a submodule brings all of its macros under that prefix (as implemented:
    \* "ALL", not the exports)
    [] shape = "pkg-list" -> {<<"S.a", "a">>, <<"S.b", "b">>, <<"S._c", "_c">>}  \* (require P [S])
    [] shape = "rel-pkg" -> {<<"S2.a", "a">>, <<"S2.b", "b">>}            \* (require . [S2])
    [] shape = "both" -> {<<"a", "a">>}                                   \* (require P.S :macros [a] :readers [r])
ReaderShapes == {"rd-list", "rd-star", "both"}
BringsReaders(shape) ==
  CASE shape = "rd-list" -> {"r"} [] shape = "rd-star" -> {"r", "s"} [] shape = "both" -> {"r"} [] OTHER -> {}
\* what the run-time require brings if the emitted call forgot the prefix (negative control)
BringsAtRuntime(shape) ==
  IF RuntimeMirrors THEN Brings(shape)
  ELSE {<<p[2], p[2]>> : p \in Brings(shape)}

MacNames == {"m", "a", "b", "bb", "_c", "p.a", "p.b", "q.a", "q.b", "e.a", "P.S.a", "P.S.b", "S.a", "S.b", "S._c", "S2.a", "S2.b"}
UseNames == {"m", "a", "bb", "_c", "p.a", "q.b", "e.a", "P.S.a", "S._c", "S2.b", "b"}
NoMacro == 0
CallV == 1   \* baked: a run-time call of an undefined name
CErr == 2    \* baked: compilation fails
NoneV == 3

\* ---- forms
Forms ==
  {<<"set", "x", 1>>, <<"set", "x", 2>>, <<"set", "y", 1>>}
  \* values of other kinds (3: a keyword, 4: a quoted form, 5: the result of calling a function defined
  \* here, 6: an attribute of a class defined here): what matters is only that both histories agree
  \cup {<<"set", "y", k>> : k \in 3..6}
  \cup {<<"def", n, 0>> : n \in {"m", "a"}}
  \cup {<<"req", sh, 0>> : sh \in Shapes \cup {"rd-list", "rd-star"}}
  \cup {<<"use", n, 0>> : n \in UseNames}
  \cup {<<"rdr", r, 0>> : r \in {"r", "s"}}                  \* (setv uI #r): a reader macro use
  \cup {<<"lreq", sh, 0>> : sh \in {"list", "as", "star"}}   \* a function with a local require, called
  \cup {<<"eval", n, 0>> : n \in {"m", "a", "p.a"}}          \* (setv uI (hy.eval '(n)))

SeqsUpTo(S, n) == UNION {[1..k -> S] : k \in 0..n}
VARIABLE prog
Init == prog = <<>>
Grow == Len(prog) < MaxForms /\ \E f \in Forms : prog' = Append(prog, f)
Spec == Init /\ [][Grow]_prog

EmptyMac == [n \in MacNames |-> NoMacro]
BindPairs(mac, ps) ==
  [n \in MacNames |-> IF \E p \in ps : p[1] = n THEN SrcTag((CHOOSE p \in ps : p[1] = n)[2]) ELSE mac[n]]

\* ---- compile time: macro table and reader table after forms 1..i
RECURSIVE CMac(_, _), CRdr(_, _)
CMac(p, i) ==
  IF i = 0 THEN EmptyMac
  ELSE LET f == p[i] prev == CMac(p, i - 1) IN
       IF f[1] = "def" THEN [prev EXCEPT ![f[2]] = 100 + i]
       ELSE IF f[1] = "req" /\ f[2] \in Shapes THEN BindPairs(prev, Brings(f[2]))
       ELSE prev
CRdr(p, i) ==
  IF i = 0 THEN {}
  ELSE IF p[i][1] = "req" THEN CRdr(p, i - 1) \cup BringsReaders(p[i][2]) ELSE CRdr(p, i - 1)

\* the local macro table inside the function of an lreq form
LocalBrings(sh) == Brings(sh)
LocalUse(sh) == CASE sh = "list" -> "bb" [] sh = "as" -> "p.b" [] sh = "star" -> "a"

\* ---- what compilation bakes into the code of form i: a value, or "call" (a run-time function call
\* of an undefined name), or a compile-time error
Baked(p, i) ==
  LET f == p[i] IN
  IF f[1] = "use" THEN (IF CMac(p, i - 1)[f[2]] # NoMacro THEN CMac(p, i - 1)[f[2]] ELSE CallV)
  ELSE IF f[1] = "rdr" THEN (IF f[2] \in CRdr(p, i - 1) THEN (IF f[2] = "r" THEN 951 ELSE 952) ELSE CErr)
  ELSE IF f[1] = "lreq" THEN SrcTag((CHOOSE q \in LocalBrings(f[2]) : q[1] = LocalUse(f[2]))[2])
  ELSE NoneV
CompileFails(p) == \E i \in 1..Len(p) : Baked(p, i) = CErr

\* ---- run time: state after executing the code of forms 1..i starting from macro table m0, readers r0
\* state = [vals, mac, rdr, err]
RunStep(p, i, st) ==
  LET f == p[i] IN
  IF st.err # "" THEN st
  ELSE IF f[1] = "set" THEN [st EXCEPT !.vals = [@ EXCEPT ![f[2]] = f[3]]]
  ELSE IF f[1] = "def" THEN [st EXCEPT !.mac = [@ EXCEPT ![f[2]] = 100 + i]]
  ELSE IF f[1] = "req" THEN [st EXCEPT !.mac = IF f[2] \in Shapes THEN BindPairs(@, BringsAtRuntime(f[2])) ELSE @,
                                       !.rdr = @ \cup BringsReaders(f[2])]
  ELSE IF f[1] \in {"use", "rdr", "lreq"} THEN
       (IF Baked(p, i) = CallV THEN [st EXCEPT !.err = "NameError"]
        ELSE [st EXCEPT !.uvals = [@ EXCEPT ![i] = Baked(p, i)]])
  ELSE \* eval: expand against the module's macro table as it is now
       (IF st.mac[f[2]] # NoMacro THEN [st EXCEPT !.uvals = [@ EXCEPT ![i] = st.mac[f[2]]]]
        ELSE [st EXCEPT !.err = "NameError"])
RECURSIVE Run(_, _, _)
Run(p, i, st0) == IF i = 0 THEN st0 ELSE RunStep(p, i, Run(p, i - 1, st0))
Start(m0, r0) == [vals |-> [v \in {"x", "y"} |-> 0], uvals |-> [i \in 1..MaxForms |-> 0], mac |-> m0, rdr |-> r0, err |-> ""]

Source(p) == Run(p, Len(p), Start(CMac(p, Len(p)), CRdr(p, Len(p))))
Cached(p) == Run(p, Len(p), Start(EmptyMac, {}))

\* hy.eval of a name that the module binds only later: from source it finds what compilation left in
\* the table, from bytecode it does not -- inherent to defining macros at compile time; not specified
EvalAmbiguous(p) ==
  \E i \in 1..Len(p) : p[i][1] = "eval" /\ Run(p, i - 1, Start(EmptyMac, {})).mac[p[i][2]]
                                               # Run(p, i - 1, Start(CMac(p, Len(p)), {})).mac[p[i][2]]

Obs(st) == IF st.err # "" THEN [err |-> st.err] ELSE [err |-> "", vals |-> st.vals, uvals |-> st.uvals, mac |-> st.mac, rdr |-> st.rdr]

\* ---- the property on the specification
SourceEqualsCached == (~CompileFails(prog) /\ ~EvalAmbiguous(prog)) => Obs(Source(prog)) = Obs(Cached(prog))
\* the run-time part re-establishes everything compilation put into the tables
RuntimeReestablishes == (~CompileFails(prog) /\ Cached(prog).err = "") =>
                           /\ Cached(prog).mac = CMac(prog, Len(prog))
                           /\ Cached(prog).rdr = CRdr(prog, Len(prog))
\* a require never brings an underscore name unless asked for by name, and an export list restricts
UnderscoreStaysBehind == \A sh \in Shapes \ {"list", "pkg-list"} : \A q \in Brings(sh) : q[2] # "_c"

Export == (Len(prog) >= 1 /\ ~EvalAmbiguous(prog)) =>
  PrintT(<<"PROG", ToJson([prog |-> prog,
                           cfail |-> CompileFails(prog),
                           obs |-> IF CompileFails(prog) THEN [err |-> "compile"] ELSE Obs(Source(prog))])>>)

\* ---- which files are compiled as Hy: exactly those whose extension is not one of Python's other
\* source suffixes
IsHySource(ext, pySuffixes) == ext \notin (pySuffixes \ {".hy"})
ExtExport == prog = <<>> => PrintT(<<"EXT", ToJson([e \in Exts |-> IsHySource(e, PySuffixes)])>>)
HyIsHy == IsHySource(".hy", PySuffixes) /\ IsHySource("", PySuffixes)
=============================================================================
