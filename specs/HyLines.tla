------------------------------- MODULE HyLines -------------------------------
(* Source positions of compiled code (hy/compiler.py Asty, HyReader.fill_pos,*)
(* Object.replace) -- property C17.                                          *)
(*                                                                           *)
(* A program is a prelude followed by one top-level form: a chain of         *)
(* enclosing constructs c1 .. cn, each a multi-line template with a hole on  *)
(* a line of its own, and in the innermost hole a raising form.  The         *)
(* specification lays the program out (which lines each construct and the    *)
(* raising form occupy) and states the property: the innermost traceback     *)
(* frame that belongs to the module reports a line inside the raising form's *)
(* span.                                                                     *)
EXTENDS Naturals, Sequences, FiniteSets, TLC, Json

CONSTANTS MaxDepth, PreludeLines

\* enclosing constructs: <<name, lines before the hole line, lines after the hole line>>
Constructs == {
  <<"do", 2, 0>>, <<"setv-do", 2, 0>>, <<"if", 1, 1>>, <<"when", 1, 0>>, <<"cond", 2, 0>>,
  <<"lfor", 1, 0>>, <<"lfor-do", 1, 0>>, <<"gfor", 1, 0>>, <<"dfor", 2, 0>>,
  <<"fn-call", 2, 0>>, <<"defn-call", 1, 1>>, <<"return", 2, 0>>, <<"defclass", 1, 0>>,
  <<"try-finally", 1, 1>>, <<"try-except", 2, 2>>, <<"with", 1, 0>>, <<"while", 1, 1>>, <<"for", 1, 0>>,
  <<"let", 1, 0>>, <<"call-arg", 1, 0>>, <<"list", 1, 0>>, <<"dict-value", 2, 0>>, <<"and", 1, 0>>, <<"setx", 1, 0>>,
  <<"match", 2, 0>>, <<"id-macro", 1, 0>>, <<"wrap-macro", 1, 0>>, <<"fstring", 1, 1>>,
  <<"kwarg", 2, 0>>, <<"op-add", 1, 0>>, <<"if-test", 1, 2>>
}
\* raising forms: <<name, number of lines>>
Raisers == {<<"call", 1>>, <<"call3", 3>>, <<"div2", 2>>, <<"index2", 2>>, <<"attr2", 2>>, <<"name", 1>>,
            <<"raise2", 2>>, <<"assert", 1>>, <<"unpack2", 2>>,
            \* forms the compiler rewrites before compiling them
            <<"aug3", 2>>, <<"cmp2", 2>>, <<"chainc2", 2>>, <<"kwcall2", 2>>, <<"cut2", 2>>,
            \* inline Python, whose nodes get their positions from the Hy form
            <<"py-compr-if", 1>>, <<"py-compr-iter", 1>>, <<"py-lambda-default", 1>>, <<"pys-with", 1>>, <<"py-call", 1>>,
            \* code that a macro call generates (the raising code sits at depth 0..3 of the expansion): it has no
            \* source text of its own, its span is the span of the call that produced it
            <<"gen-d0", 2>>, <<"gen-d1", 2>>, <<"gen-d2", 2>>, <<"gen-d3", 2>>, <<"rgen-d2", 1>>, <<"domac-d2", 2>>,
            \* ... in the replacement field, and in the nested format-spec field, of a generated f-string; and
            \* macros whose expansion is a collection display rather than an expression
            <<"gen-fstr", 2>>, <<"gen-fspec", 2>>, <<"gen-list", 2>>, <<"gen-dict", 2>>}

VARIABLES chain, raiser
vars == <<chain, raiser>>
Init == chain = <<>> /\ raiser \in Raisers
Grow == /\ Len(chain) < MaxDepth /\ \E c \in Constructs : chain' = Append(chain, c)
        /\ UNCHANGED raiser
Spec == Init /\ [][Grow]_vars

\* ---- layout
RECURSIVE SumPre(_), SumPost(_)
SumPre(i) == IF i = 0 THEN 0 ELSE chain[i][2] + SumPre(i - 1)
SumPost(i) == IF i = 0 THEN 0 ELSE chain[i][3] + SumPost(i - 1)
\* first line of construct i (the top-level form starts right after the prelude)
StartOf(i) == PreludeLines + 1 + SumPre(i - 1)
RaiseStart == PreludeLines + 1 + SumPre(Len(chain))
RaiseEnd == RaiseStart + raiser[2] - 1
\* last line of construct i: everything nested in it, then its own trailing lines
EndOf(i) == RaiseEnd + (SumPost(Len(chain)) - SumPost(i - 1))
TotalLines == IF chain = <<>> THEN RaiseEnd ELSE EndOf(1)

\* ---- laws of the layout
\* the raising form lies inside every enclosing construct, and constructs nest
Nesting == \A i \in 1..Len(chain) : StartOf(i) <= RaiseStart /\ RaiseEnd <= EndOf(i)
             /\ (i > 1 => (StartOf(i - 1) < StartOf(i) /\ EndOf(i) <= EndOf(i - 1)))
\* every construct puts its hole on a line after its head: the raising form never shares a line
\* with the head of an enclosing construct
OwnLines == \A i \in 1..Len(chain) : StartOf(i) < RaiseStart

\* the property, for a reported line number ln
Holds(ln) == RaiseStart <= ln /\ ln <= RaiseEnd

Export == PrintT(<<"PROG", ToJson([chain |-> [i \in 1..Len(chain) |-> chain[i][1]], raiser |-> raiser[1],
                                   lo |-> RaiseStart, hi |-> RaiseEnd, total |-> TotalLines])>>)
=============================================================================
