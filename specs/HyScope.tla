------------------------------- MODULE HyScope -------------------------------
(* nonlocal / global across nested functions, classes and let forms          *)
(* (hy/scoping.py ResolveOuterVars, ScopeLet/ScopeFn.define_nonlocal,        *)
(* compile_global_or_nonlocal) -- property C07.                              *)
(*                                                                           *)
(* A program is a chain of nested scopes: level 0 is the module, level i > 0 *)
(* is a function, a class or a let form nested in level i-1.  Each level may *)
(* define the names x and y before the nested level (setv, or a let          *)
(* binding).  The innermost level declares a set of names nonlocal or global *)
(* (or nothing) and then assigns x := 99, y := 98.  The specification says   *)
(* which binding each assignment reaches, or that the program is a syntax    *)
(* error, or that it is not specified.                                       *)
EXTENDS Naturals, Sequences, FiniteSets, TLC, Json

CONSTANTS MaxDepth,
          MaxMid     \* how many levels may carry an intermediate declaration

Names == {"x", "y"}
LevelKinds == {"fn", "class", "let"}
Decls == {"none", "nonlocal", "global"}

VARIABLES ks,     \* ks[i]: kind of level i (1..D)
          ds,     \* ds[i+1]: names defined at level i (0..D)
          gs,     \* gs[i]: "none", or level i (a function or class, not the innermost level) starts with
                  \* (global x) / (nonlocal x)
          decl, dn
vars == <<ks, ds, gs, decl, dn>>

Init == /\ ks = <<>> /\ gs = <<>> /\ ds \in {<<d>> : d \in SUBSET Names}
        /\ decl \in Decls /\ dn \in SUBSET Names
        /\ (decl = "none") = (dn = {})
Grow == /\ Len(ks) < MaxDepth
        /\ \E k \in LevelKinds, d \in SUBSET Names, g \in {"none", "global", "nonlocal"} :
              /\ (g # "none" => (k # "let" /\ Cardinality({i \in 1..Len(gs) : gs[i] # "none"}) < MaxMid))
              /\ ks' = Append(ks, k) /\ ds' = Append(ds, d) /\ gs' = Append(gs, g)
        /\ UNCHANGED <<decl, dn>>
Spec == Init /\ [][Grow]_vars

D == Len(ks)
Kind(i) == IF i = 0 THEN "module" ELSE ks[i]
AllDefs(i) == ds[i + 1]
\* a level that declared x global or nonlocal does not bind x: its (setv x ..) writes the declared variable
L(i) == IF i \in 1..D THEN gs[i] ELSE "none"
G(i) == L(i) = "global"
Defs(i) == IF L(i) # "none" THEN AllDefs(i) \ {"x"} ELSE AllDefs(i)
\* the Python scope a level belongs to: let forms live in the scope around them
RECURSIVE PyScope(_)
PyScope(i) == IF Kind(i) = "let" THEN PyScope(i - 1) ELSE i
P == PyScope(D)

\* ---- resolution of one assigned name n
\* lets of the declaring Python scope that enclose the declaration and bind n, innermost first
SameScopeLets(n) == {j \in 1..D : Kind(j) = "let" /\ PyScope(j) = P /\ n \in Defs(j)}
MaxOf(S) == CHOOSE m \in S : \A o \in S : o <= m

\* walking outwards from level j: the nearest binding a `nonlocal` can mean.  Classes are passed over
\* (as in Python, a class's variables are not visible to the scopes nested in it).
Syntax == 100      \* declared after use: a Hy syntax error
NoBinding == 101   \* nothing to refer to: a syntax error (Hy's or Python's)
RECURSIVE Outward(_, _)
Outward(n, j) ==
  IF j < 0 THEN NoBinding
  \* a function that declared the name global makes it the module's variable for the scopes nested in it
  \* as well (Python's rule for free variables); a class's declaration concerns its own body only
  ELSE IF n = "x" /\ G(j) /\ Kind(j) = "fn" THEN 0
  ELSE IF n \in Defs(j) /\ Kind(j) \in {"let", "fn", "module"} THEN j
  ELSE Outward(n, j - 1)

\* what x means in the own code of a level that declared it (an intermediate nonlocal is resolved like
\* the innermost one; nested scopes simply walk past the level, since it does not bind x itself)
Res(i) == IF G(i) THEN 0 ELSE Outward("x", i - 1)

\* a name is "used" in the declaring Python scope before the declaration if that scope itself assigns
\* it first (our levels define before they nest)
UsedBefore(n) == Kind(P) # "let" /\ n \in Defs(P)

Target(n) ==
  LET lets == {j \in SameScopeLets(n) : j < D} IN
  IF n \notin dn THEN
       \* no declaration: the nearest let binding of this Python scope, else this scope's own variable
       (IF SameScopeLets(n) # {} THEN MaxOf(SameScopeLets(n)) ELSE IF n = "x" /\ L(P) # "none" THEN Res(P) ELSE P)
  \* nonlocal of a name bound by an enclosing let of the same function: just that variable
  ELSE IF decl = "nonlocal" /\ lets # {} THEN MaxOf(lets)
  ELSE IF UsedBefore(n) THEN Syntax
  ELSE IF decl = "global" THEN 0
  ELSE Outward(n, P - 1)

\* ---- what the specification leaves open
Specified ==
  /\ D >= 1
  \* the innermost level carries the declaration under test, not an extra one
  /\ gs[D] = "none"
  \* a name declared twice in one Python scope is not tried
  /\ ~(L(P) # "none" /\ "x" \in dn)
  \* intermediate global declarations are only tried when the module defines x itself
  /\ ((\E i \in 1..D : G(i)) => "x" \in AllDefs(0))
  \* nonlocal at module level is not Python; global at module level is a no-op we do not test
  /\ (decl # "none" => P # 0)
  \* declaring nonlocal a name that the declaring let form itself binds is not specified
  \* (a global declaration there is: the name means the module's variable from then on)
  /\ ~(Kind(D) = "let" /\ decl = "nonlocal" /\ dn \cap Defs(D) # {})

Outcome == IF \/ \E n \in Names : Target(n) \in {Syntax, NoBinding}
              \/ \E i \in 1..D : L(i) = "nonlocal" /\ Res(i) = NoBinding
           THEN "syntax" ELSE "ok"
Init0(i, n) == (IF n = "x" THEN 10 ELSE 20) + i
Assigned(n) == IF n = "x" THEN 99 ELSE 98
\* ---- final values.  Writes to a binding happen in program order, which is level order (a level
\* defines before it nests), the innermost assignment last.
\* levels whose (setv x ..) writes binding b of x: b's own definition and the levels that declared x
WritersX(b) == {j \in 0..(D - 1) : "x" \in AllDefs(j) /\ ((L(j) = "none" /\ j = b) \/ (L(j) # "none" /\ Res(j) = b))}
BindingValX(b) == IF Target("x") = b THEN Assigned("x")
                  ELSE IF WritersX(b) = {} THEN 0 ELSE Init0(MaxOf(WritersX(b)), "x")
\* module-level value at the end: 0 means no such global
GlobalAfter(n) == IF n = "x" THEN BindingValX(0)
                  ELSE IF Target(n) = 0 THEN Assigned(n) ELSE IF n \in AllDefs(0) THEN Init0(0, n) ELSE 0
\* the binding the name x denotes at level i (which mentions x in a definition)
\* (a global declaration holds for the whole Python scope from then on: a let of that scope that binds
\* the name no longer hides the module's variable once the nested form has declared it global)
RefX(i) == IF L(i) # "none" THEN Res(i)
           ELSE IF "x" \in dn /\ decl = "global" /\ Kind(i) = "let" /\ PyScope(i) = P THEN 0
           ELSE i
\* value of n seen at level i (which defines n) after everything ran
Seen(i, n) == IF n = "x" THEN BindingValX(RefX(i))
              ELSE IF i = 0 THEN GlobalAfter(n)
              ELSE IF Target(n) = i THEN Assigned(n)
              ELSE IF n \in dn /\ decl = "global" /\ Kind(i) = "let" /\ PyScope(i) = P THEN Assigned(n)
              ELSE Init0(i, n)

\* ---- laws
\* global always reaches the module
GlobalIsModule == \A n \in dn : (decl = "global" /\ Target(n) # Syntax) => Target(n) = 0
\* nonlocal never reaches a class's variable, and never the declaring scope's own
NonlocalSkipsClasses == \A n \in dn : (decl = "nonlocal" /\ Target(n) \in 0..D) =>
                           (Kind(Target(n)) # "class" /\ (Target(n) # P \/ Kind(P) = "let"))
\* exactly one binding changes per name
OneBindingChanges == Outcome = "ok" => \A n \in Names : Cardinality({i \in 0..D : Target(n) = i}) = 1
\* a nonlocal name resolves to the nearest candidate: nothing between the target and the declaration
\* binds the name in a let or a function
Nearest == \A n \in dn : (decl = "nonlocal" /\ Target(n) \in 0..D) =>
              \A j \in (Target(n) + 1)..(D - 1) :
                 (n \in Defs(j) /\ Kind(j) \in {"let", "fn"}) =>
                    \* ... unless a function nearer to the declaration made the name global
                    (n = "x" /\ \E g \in (j + 1)..(D - 1) : G(g) /\ Kind(g) = "fn")

Export == Specified =>
  PrintT(<<"PROG", ToJson([ks |-> ks, gs |-> gs, ds |-> [i \in 1..Len(ds) |-> [n \in Names |-> n \in ds[i]]],
                           decl |-> decl, dn |-> [n \in Names |-> n \in dn],
                           outcome |-> Outcome,
                           target |-> [n \in Names |-> IF Target(n) \in 0..D THEN Target(n) ELSE 99],
                           res |-> [i \in 1..D |-> IF L(i) = "nonlocal" /\ Res(i) \in 0..D THEN Res(i) ELSE 99],
                           glob |-> [n \in Names |-> GlobalAfter(n)],
                           seen |-> [i \in 1..Len(ds) |-> [n \in Names |-> IF n \in ds[i] THEN Seen(i - 1, n) ELSE 0]]])>>)
=============================================================================
