------------------------------ MODULE HyGensym ------------------------------
(* hy.gensym's shared counter under threads (property C38).                  *)
(*                                                                           *)
(* Each thread runs the same straight-line program Prog over the visible     *)
(* operations of hy/core/util.hy:gensym:                                     *)
(*   "acq"   _gensym_lock.acquire()      "rel"  _gensym_lock.release()       *)
(*   "load"  LOAD_GLOBAL _gensym_counter (into the thread's register)        *)
(*   "store" STORE_GLOBAL _gensym_counter := register + Delta                *)
(* The number a call returns is its register when the program ends.  Prog    *)
(* is not hard-wired: the harness extracts it from the bytecode of the       *)
(* gensym in /repo's working tree, so TLC checks the interleavings of the    *)
(* code that is actually there.                                              *)
EXTENDS Naturals, Sequences, FiniteSets, TLC, Json

CONSTANTS Threads,   \* e.g. {1,2,3}
          Prog,      \* e.g. <<"acq","load","store","load","rel">>
          Delta,     \* store writes register + Delta
          Start      \* initial counter

VARIABLES counter, holder, pc, reg, hist
vars == <<counter, holder, pc, reg, hist>>
View == <<counter, holder, pc, reg>>

NoThread == 0
End == Len(Prog) + 1

Init == /\ counter = Start
        /\ holder = NoThread
        /\ pc = [t \in Threads |-> 1]
        /\ reg = [t \in Threads |-> 0]
        /\ hist = <<>>

Acq(t) == /\ Prog[pc[t]] = "acq"
          /\ holder = NoThread
          /\ holder' = t
          /\ UNCHANGED <<counter, reg>>

\* threading.Lock may be released by any thread; releasing a free lock raises,
\* which the harness would see as a crashed call -- not modelled as enabled.
Rel(t) == /\ Prog[pc[t]] = "rel"
          /\ holder # NoThread
          /\ holder' = NoThread
          /\ UNCHANGED <<counter, reg>>

Load(t) == /\ Prog[pc[t]] = "load"
           /\ reg' = [reg EXCEPT ![t] = counter]
           /\ UNCHANGED <<counter, holder>>

Store(t) == /\ Prog[pc[t]] = "store"
            /\ counter' = reg[t] + Delta
            /\ reg' = [reg EXCEPT ![t] = reg[t] + Delta]
            /\ UNCHANGED holder

Step(t) == /\ pc[t] < End
           /\ (Acq(t) \/ Rel(t) \/ Load(t) \/ Store(t))
           /\ pc' = [pc EXCEPT ![t] = pc[t] + 1]
           /\ hist' = Append(hist, t)

Next == \E t \in Threads : Step(t)
Spec == Init /\ [][Next]_vars

Done(t) == pc[t] = End
AllDone == \A t \in Threads : Done(t)

\* ---- the property: numbers returned by finished calls are pairwise distinct
Distinct == \A a, b \in Threads : (a # b /\ Done(a) /\ Done(b)) => reg[a] # reg[b]

\* ---- design-level: every counter access happens under the lock, and the
\* lock is held by at most the thread that took it (mutual exclusion)
AccessUnderLock ==
  [][\A t \in Threads : (pc[t] # pc'[t] /\ Prog[pc[t]] \in {"load","store"})
        => holder = t]_vars

\* every call finishes with a number larger than the initial counter
Fresh == \A t \in Threads : Done(t) => reg[t] > Start
\* the counter never decreases (numbers are never re-issued later)
Monotone == [][counter' >= counter]_vars

\* ---- exports
\* counterexample schedule when Distinct fails (printed, then the invariant fails)
DistinctOrExport ==
  Distinct \/ ~PrintT(<<"CEX", ToJson([sched |-> hist, regs |-> reg])>>)
\* one schedule per distinct terminal state, for replay into the real threads
ExportTerminal ==
  AllDone => PrintT(<<"TERM", ToJson([sched |-> hist, regs |-> reg, counter |-> counter])>>)
=============================================================================
