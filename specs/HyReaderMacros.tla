---------------------------- MODULE HyReaderMacros ----------------------------
(* Reader macros in stream order and per module (hy/reader/hy_reader.py:     *)
(* tag_dispatch, hy/core/macros.hy: defreader, hy/macros.py: require_reader) *)
(* -- property C37.  Two modules A and B are processed one after the other,  *)
(* each from a stream of top-level items:                                    *)
(*   <<"def", r>>      (defreader r TAG)          TAG is fresh per definition *)
(*   <<"defnone", r>>  (defreader r None)         #r then produces no form   *)
(*   <<"use", r>>      a form containing #r                                  *)
(*   <<"both", r>>     one top-level form that defines r and then uses #r    *)
(*                     (the use is read before the definition is evaluated)  *)
(*   <<"req", r>>      (require A :readers [r])   only in module B           *)
(* Reading and evaluating alternate strictly: item i+1 is read only after    *)
(* item i has been evaluated.  Each module has its own reader table.         *)
EXTENDS Naturals, Sequences, FiniteSets, TLC, Json, SequencesExt

CONSTANTS MaxA, MaxB
Names == {"r", "q"}
ItemsA == {<<k, n>> : k \in {"def", "defnone", "use", "both"}, n \in Names}
ItemsB == {<<k, n>> : k \in {"def", "use", "req"}, n \in Names}
SeqsUpTo(S, n) == UNION {[1..k -> S] : k \in 0..n}

VARIABLES sa, sb
vars == <<sa, sb>>
Init == sa \in SeqsUpTo(ItemsA, MaxA) /\ sb \in SeqsUpTo(ItemsB, MaxB)
Next == UNCHANGED vars
Spec == Init /\ [][Next]_vars

NoTag == 0
NoneTag == 1          \* a reader macro that returns None
\* Process a stream.  tab: name -> NoTag | NoneTag | tag;  out: results of the uses so far, one per
\* evaluated use item: <<index, value>> (value 0 = the reader macro produced no form).
\* src: the other module's table (for req).  Returns [tab, out, err] (err = index of the item
\* whose reading failed, 0 = none).
RECURSIVE Run(_, _, _, _, _, _)
Run(s, i, tab, out, src, base) ==
  IF i > Len(s) THEN [tab |-> tab, out |-> out, err |-> 0]
  ELSE LET k == s[i][1]
           n == s[i][2]
           tag == base + i + 1
       IN CASE k = "def" -> Run(s, i + 1, [tab EXCEPT ![n] = tag], out, src, base)
            [] k = "defnone" -> Run(s, i + 1, [tab EXCEPT ![n] = NoneTag], out, src, base)
            [] k = "use" ->
                 IF tab[n] = NoTag THEN [tab |-> tab, out |-> out, err |-> i]
                 ELSE Run(s, i + 1, tab, Append(out, <<i, IF tab[n] = NoneTag THEN 0 ELSE tab[n]>>), src, base)
            [] k = "both" ->      \* the whole form is read first: #n must already be known, and is the old one
                 IF tab[n] = NoTag THEN [tab |-> tab, out |-> out, err |-> i]
                 ELSE Run(s, i + 1, [tab EXCEPT ![n] = tag],
                          Append(out, <<i, IF tab[n] = NoneTag THEN 0 ELSE tab[n]>>), src, base)
            [] k = "req" ->       \* requiring a reader the source module does not have is an error
                 IF src[n] = NoTag THEN [tab |-> tab, out |-> out, err |-> i]
                 ELSE Run(s, i + 1, [tab EXCEPT ![n] = src[n]], out, src, base)
Empty == [n \in Names |-> NoTag]
ResA == Run(sa, 1, Empty, <<>>, Empty, 100)
ResB == Run(sb, 1, Empty, <<>>, ResA.tab, 200)

\* ---- laws
\* a use succeeds iff the name was defined (or required) by an earlier item of the same module
UseNeedsEarlierDef ==
  \A i \in 1..Len(sa) :
     (sa[i][1] \in {"use", "both"} /\ (ResA.err = 0 \/ i <= ResA.err)) =>
        ((ResA.err = i) = ~(\E j \in 1..(i - 1) : sa[j][1] \in {"def", "defnone", "both"} /\ sa[j][2] = sa[i][2]))
\* nothing defined in A is visible in B unless B requires it
ModulesIsolated ==
  \A i \in 1..Len(sb) :
     (sb[i][1] = "use" /\ (ResB.err = 0 \/ i <= ResB.err)) =>
        ((ResB.err = i) = ~(\E j \in 1..(i - 1) : sb[j][1] \in {"def", "req"} /\ sb[j][2] = sb[i][2]))
\* items before a failing one have been evaluated (their results are there), later ones not
StrictAlternation ==
  ResA.err # 0 => \A x \in 1..Len(ResA.out) : ResA.out[x][1] < ResA.err

\* A further stream read by a *fresh* reader and evaluated in module B, after B has been loaded (as hy.read /
\* hy.eval with a new reader do): the table belongs to the reader, not to the module, so the new reader starts
\* empty whatever B's stream defined or required, and a require brings in the named macros only.
ContStreams == {<<<<"use", n>>>> : n \in Names}
                 \cup {<<<<"req", m>>, <<"use", n>>>> : m \in Names, n \in Names}
                 \cup {<<<<"def", n>>, <<"use", n>>>> : n \in Names}
ResC(sc) == Run(sc, 1, Empty, <<>>, ResA.tab, 300)
\* a fresh reader sees a name only if its own stream defined it or required exactly it
FreshReaderStartsEmpty ==
  \A sc \in ContStreams : \A i \in 1..Len(sc) :
     (sc[i][1] = "use" /\ (ResC(sc).err = 0 \/ i <= ResC(sc).err)) =>
        ((ResC(sc).err = i) = ~(\E j \in 1..(i - 1) : sc[j][1] \in {"def", "req"} /\ sc[j][2] = sc[i][2]))
ContSeq == SetToSeq(ContStreams)
Export == (Len(sa) + Len(sb) > 0) =>
  PrintT(<<"CASE", ToJson([sa |-> sa, sb |-> sb, ra |-> ResA, rb |-> ResB,
                           cont |-> [i \in 1..Cardinality(ContStreams) |-> [sc |-> ContSeq[i], rc |-> ResC(ContSeq[i])]]])>>)
=============================================================================
