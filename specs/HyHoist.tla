------------------------------- MODULE HyHoist -------------------------------
(* defn inside let: "defn or defclass will assign the function or class in   *)
(* the Python scope, even if it shares the name of a let binding"            *)
(* (docs/api.rst, let; hy/scoping.py ScopeLet.define) -- part of property C06.*)
(*                                                                           *)
(* A program is a chain of nested levels under the module, each a function   *)
(* or a let that may bind g; the innermost level contains (defn g [] 7).     *)
(* After the nested part has run, every level reads g.  The specification    *)
(* says what each read sees.                                                 *)
EXTENDS Naturals, Sequences, FiniteSets, TLC, Json

CONSTANTS MaxDepth

VARIABLES ks,   \* ks[i] \in {"fn", "let"}
          bs    \* bs[i]: level i is a let that binds g (to the value 10 + i)
vars == <<ks, bs>>
Init == ks = <<>> /\ bs = <<>>
Grow == /\ Len(ks) < MaxDepth
        /\ \E k \in {"fn", "let"}, b \in BOOLEAN : (b => k = "let") /\ ks' = Append(ks, k) /\ bs' = Append(bs, b)
Spec == Init /\ [][Grow]_vars

D == Len(ks)
Kind(i) == IF i = 0 THEN "module" ELSE ks[i]
Binds(i) == i >= 1 /\ bs[i]
RECURSIVE PyScope(_)
PyScope(i) == IF Kind(i) = "let" THEN PyScope(i - 1) ELSE i
\* the Python scope that receives the function
P == PyScope(D)
Fn == 7

\* what a read of g at level i sees after the nested levels have run
\* - inside the Python scope of the defn (the scope itself and its lets): the function -- a let of that
\*   scope that bound g no longer does, the name has been defined in the Python scope
\* - outside: the nearest enclosing let binding of g; nothing otherwise (not read)
RECURSIVE Nearest(_)
Nearest(i) == IF i = 0 THEN 0 ELSE IF Binds(i) THEN 10 + i ELSE Nearest(i - 1)
Reads(i) == IF PyScope(i) = P /\ i >= P THEN Fn ELSE Nearest(i)
\* levels whose read is meaningful (0 = g is not bound there: no read is generated)
Readable(i) == Reads(i) # 0

\* ---- laws
\* the function lands in a Python scope, never in a let
HoistedToPythonScope == Kind(P) # "let"
\* let bindings outside that Python scope are untouched
OuterLetsUntouched == \A i \in 1..D : (Binds(i) /\ PyScope(i) # P) => Reads(i) = 10 + i
\* inside the scope everybody sees the function
InsideSeesFunction == \A i \in P..D : PyScope(i) = P => Reads(i) = Fn

Export == D >= 1 =>
  PrintT(<<"PROG", ToJson([ks |-> ks, bs |-> bs, p |-> P, reads |-> [i \in 1..(D + 1) |-> Reads(i - 1)]])>>)
=============================================================================
