-------------------------------- MODULE HyBind -------------------------------
(* Lambda lists and calls (hy/core/result_macros.py compile_lambda_list,      *)
(* compile_function_def; hy/compiler.py _compile_collect for call arguments) *)
(* -- property C05.                                                          *)
(*                                                                           *)
(* A signature is a sequence of parameters in Python's order: positional-    *)
(* only, ordinary, then #* args or a bare *, keyword-only, #** kwargs; the   *)
(* j-th parameter is named pj.  A call is a sequence of items: a positional  *)
(* argument, a keyword argument, #* of a list, #** of a dict -- in any       *)
(* order, as Hy allows.  Bind is Python's argument-binding algorithm; it     *)
(* yields the value of every parameter or "rejected" (TypeError, or a        *)
(* SyntaxError for a repeated keyword).                                      *)
EXTENDS Naturals, Sequences, FiniteSets, TLC, Json

CONSTANTS MaxParams, MaxItems

Kinds == {"po", "n", "va", "bs", "ko", "vk"}
\* po: positional-only; n: ordinary; va: #* args; bs: bare *; ko: keyword-only; vk: #** kwargs
Rank(k) == CASE k = "po" -> 1 [] k = "n" -> 2 [] k \in {"va", "bs"} -> 3 [] k = "ko" -> 4 [] k = "vk" -> 5
Name(j) == "p" \o ToString(j)
AllNames == {Name(j) : j \in 1..MaxParams} \cup {"zz"}

VARIABLES sig, call, phase
vars == <<sig, call, phase>>

Last(s) == s[Len(s)]
\* may a parameter of kind k (with default d) follow the signature so far?
CanAdd(k, d) ==
  /\ Len(sig) < MaxParams
  /\ (sig # <<>> => \/ Rank(Last(sig).k) < Rank(k)
                    \/ (Rank(Last(sig).k) = Rank(k) /\ k \in {"po", "n", "ko"}))
  \* among positional parameters, once there is a default every later one has a default
  /\ (k \in {"po", "n"} => (\A i \in 1..Len(sig) : (sig[i].k \in {"po", "n"} /\ sig[i].d) => d))
  /\ (k \in {"va", "bs", "vk"} => ~d)
  \* keyword-only parameters need #* args or a bare * before them
  /\ (k = "ko" => \E i \in 1..Len(sig) : sig[i].k \in {"va", "bs"})
\* a bare * must be followed by a keyword-only parameter
Complete == \A i \in 1..Len(sig) : sig[i].k = "bs" => (i < Len(sig) /\ sig[i + 1].k = "ko")

SeqsUpTo(S, n) == UNION {[1..k -> S] : k \in 0..n}
Items ==
  {[t |-> "pos", name |-> "", len |-> 0, names |-> <<>>]}
  \cup {[t |-> "kw", name |-> nm, len |-> 0, names |-> <<>>] : nm \in {Name(j) : j \in 1..Len(sig)} \cup {"zz"}}
  \cup {[t |-> "star", name |-> "", len |-> l, names |-> <<>>] : l \in 0..2}
  \cup {[t |-> "dstar", name |-> "", len |-> 0, names |-> ns] :
          ns \in {<<>>} \cup {<<nm>> : nm \in {Name(j) : j \in 1..Len(sig)} \cup {"zz"}}
                 \cup (IF Len(sig) >= 2 THEN {<<Name(Len(sig)), Name(1)>>, <<Name(1), "zz">>} ELSE {})}

Init == sig = <<>> /\ call = <<>> /\ phase = "sig"
AddParam == /\ phase = "sig"
            /\ \E k \in Kinds, d \in BOOLEAN : CanAdd(k, d) /\ sig' = Append(sig, [k |-> k, d |-> d])
            /\ UNCHANGED <<call, phase>>
StartCall == /\ phase = "sig" /\ Complete /\ phase' = "call" /\ UNCHANGED <<sig, call>>
AddItem == /\ phase = "call" /\ Len(call) < MaxItems
           /\ \E it \in Items : call' = Append(call, it)
           /\ UNCHANGED <<sig, phase>>
Next == AddParam \/ StartCall \/ AddItem
Spec == Init /\ [][Next]_vars

\* ---- the values a call supplies
RECURSIVE PosVals(_), KwPairs(_)
PosVals(i) ==
  IF i > Len(call) THEN <<>>
  ELSE (CASE call[i].t = "pos" -> <<10 * i>>
          [] call[i].t = "star" -> [j \in 1..call[i].len |-> 10 * i + j]
          [] OTHER -> <<>>) \o PosVals(i + 1)
KwPairs(i) ==
  IF i > Len(call) THEN <<>>
  ELSE (CASE call[i].t = "kw" -> <<<<call[i].name, 10 * i>>>>
          [] call[i].t = "dstar" -> [j \in 1..Len(call[i].names) |-> <<call[i].names[j], 10 * i + j>>]
          [] OTHER -> <<>>) \o KwPairs(i + 1)

\* ---- Python's binding
Idx(kinds) == {j \in 1..Len(sig) : sig[j].k \in kinds}
\* positional parameters in order
PosParams == LET S == Idx({"po", "n"}) IN [i \in 1..Cardinality(S) |-> CHOOSE j \in S : Cardinality({m \in S : m < j}) = i - 1]
HasVa == Idx({"va"}) # {}
HasVk == Idx({"vk"}) # {}
Unbound == 0
Default(j) == 900 + j

Bind ==
  LET pv == PosVals(1)
      kp == KwPairs(1)
      pp == PosParams
      npos == Len(pp)
      \* step 1: positional values
      b1 == [j \in 1..Len(sig) |->
               IF \E i \in 1..npos : pp[i] = j /\ i <= Len(pv) THEN pv[CHOOSE i \in 1..npos : pp[i] = j] ELSE Unbound]
      extra == IF Len(pv) > npos THEN SubSeq(pv, npos + 1, Len(pv)) ELSE <<>>
      tooMany == Len(pv) > npos /\ ~HasVa
      \* step 2: keywords
      dupKw == \E i, m \in 1..Len(kp) : i # m /\ kp[i][1] = kp[m][1]
      byName(nm) == {j \in Idx({"n", "ko"}) : Name(j) = nm}
      \* a keyword that names an ordinary / keyword-only parameter binds it; any other goes to #** kwargs
      kwBad == \E i \in 1..Len(kp) :
                 IF byName(kp[i][1]) # {} THEN b1[CHOOSE j \in byName(kp[i][1]) : TRUE] # Unbound
                 ELSE ~HasVk
      b2 == [j \in 1..Len(sig) |->
               IF b1[j] # Unbound THEN b1[j]
               ELSE IF \E i \in 1..Len(kp) : byName(kp[i][1]) = {j} THEN kp[CHOOSE i \in 1..Len(kp) : byName(kp[i][1]) = {j}][2]
               ELSE Unbound]
      kwargs == {kp[i] : i \in {i \in 1..Len(kp) : byName(kp[i][1]) = {}}}
      \* step 3: defaults
      missing == \E j \in Idx({"po", "n", "ko"}) : b2[j] = Unbound /\ ~sig[j].d
      b3 == [j \in 1..Len(sig) |-> IF sig[j].k \in {"po", "n", "ko"} /\ b2[j] = Unbound THEN Default(j) ELSE b2[j]]
  IN IF tooMany \/ dupKw \/ kwBad \/ missing THEN [ok |-> FALSE, b |-> <<>>, args |-> <<>>, kwargs |-> {}]
     ELSE [ok |-> TRUE, b |-> b3, args |-> extra, kwargs |-> kwargs]

\* ---- laws of the binding
\* a positional-only parameter never takes a keyword's value
PosOnlyNeverByKeyword ==
  (phase = "call" /\ Bind.ok) =>
     \A j \in Idx({"po"}) : Bind.b[j] = Default(j) \/ \E i \in 1..Len(PosVals(1)) : PosVals(1)[i] = Bind.b[j]
\* keyword-only parameters never take positional values
KwOnlyNeverPositional ==
  (phase = "call" /\ Bind.ok) =>
     \A j \in Idx({"ko"}) : ~\E i \in 1..Len(PosVals(1)) : PosVals(1)[i] = Bind.b[j]
\* every supplied value ends up somewhere exactly once
NothingLost ==
  (phase = "call" /\ Bind.ok) =>
     LET supplied == {PosVals(1)[i] : i \in 1..Len(PosVals(1))} \cup {KwPairs(1)[i][2] : i \in 1..Len(KwPairs(1))}
         placed == {Bind.b[j] : j \in Idx({"po", "n", "ko"})} \cup {Bind.args[i] : i \in 1..Len(Bind.args)}
                   \cup {p[2] : p \in Bind.kwargs}
     IN supplied \subseteq placed

Export == phase = "call" =>
  PrintT(<<"CASE", ToJson([sig |-> sig, call |-> call, ok |-> Bind.ok, b |-> Bind.b, args |-> Bind.args,
                           kwargs |-> Bind.kwargs])>>)

\* ---- docstrings and implicit return (small tables)
\* body shapes -> <<docstring?, value returned>>
BodyShapes == {"str", "str-then-form", "form-then-str", "expr-str-then-form", "fstr-then-form", "empty"}
DocOf(s) == s = "str-then-form"
\* implicit return of the last body form: everything except asynchronous generators
FnKinds == {"fn", "defn", "async-defn", "generator", "async-generator"}
ReturnsLast(k) == k # "async-generator"
\* where the yield of a generator may sit without changing what kind of function it is: anywhere in the
\* function's own Python scope (let, if, for, with, try are not scopes), not in a nested function
YieldPlaces == {"body", "let", "let-let", "if", "when", "for", "with", "try", "do", "setv-value"}
IsGeneratorWithYieldAt(place) == place \in YieldPlaces
=============================================================================
