-------------------------- MODULE HyEvalApiTrace --------------------------
(* Validates the sequence of writes to the "hy" key that a logging mapping   *)
(* observed during real hy.eval calls against HyEvalApi.  One trace = one    *)
(* call: [init, prog, ev |-> <<[op, val]...>>, outcome].                     *)
EXTENDS HyEvalApi, IOUtils

Traces == ndJsonDeserialize(IOEnv.TRACE_FILE)
VARIABLES tid, l
tvars == <<vars, tid, l>>
Tr == Traces[tid]

TInit == /\ tid \in 1..Len(Traces) /\ l = 1
         /\ cur = Traces[tid].init /\ pre = cur /\ was = Absent
         /\ pc = "entry" /\ prog = Traces[tid].prog /\ body = BodyOf(Traces[tid].prog)
         /\ outcome = "none" /\ hist = <<>>

\* silent steps of the implementation (no write to the key)
Silent == Entry \/ Compile \/ (pc = "body" /\ body # <<>> /\ Head(body) \in {"raise", "ret"} /\ Body)
\* steps that write the key consume one logged event and must agree with it
Logged == /\ l <= Len(Tr.ev)
          /\ LET e == Tr.ev[l] IN
               \/ (e.op = "set" /\ pc = "import" /\ Import /\ e.val = "module")
               \/ (e.op = "set" /\ pc = "body" /\ body # <<>> /\ Head(body) = "assign" /\ Body /\ e.val = "user")
               \/ (e.op = "del" /\ pc = "body" /\ body # <<>> /\ Head(body) = "del" /\ Body)
               \/ (e.op = "set" /\ pc = "finally" /\ Finally /\ was # Absent /\ e.val = was)
               \/ (e.op = "del" /\ pc = "finally" /\ Finally /\ was = Absent)
          /\ l' = l + 1 /\ UNCHANGED tid
\* removing an entry that is already gone writes nothing
SilentFinally == pc = "finally" /\ was = Absent /\ cur = Absent /\ Finally
TNext == (Silent /\ UNCHANGED <<tid, l>>) \/ Logged \/ (SilentFinally /\ UNCHANGED <<tid, l>>)
TSpec == TInit /\ [][TNext]_tvars

TRestored == Restored
Accept == (pc = "idle" /\ l = Len(Tr.ev) + 1 /\ outcome = Tr.outcome /\ cur = Tr.final)
             => PrintT(<<"ACC", ToJson(tid)>>)
=============================================================================
