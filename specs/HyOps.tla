-------------------------------- MODULE HyOps --------------------------------
(* Operator macros (hy/core/result_macros.py compile_maths_expression,        *)
(* compile_compare_op_expression, compile_unary_operator,                    *)
(* compile_augassign_expression), the functions of hy.pyops and the Python   *)
(* expansion the documentation gives for each -- property C03.               *)
(*                                                                           *)
(* For every operator and number of arguments the specification says whether *)
(* the form is allowed and, if so, which Python expression over x1 .. xn it  *)
(* means.  The expression is produced as Python text; CPython evaluates it.  *)
EXTENDS Integers, Sequences, FiniteSets, TLC, Json

CONSTANTS MaxArity

Arith == {"+", "-", "*", "/", "//", "%", "**", "@", "<<", ">>", "&", "|", "^"}
Unary == {"bnot", "not"}
Cmp == {"=", "!=", "<", "<=", ">", ">=", "is", "is-not", "in", "not-in"}
Ops == Arith \cup Unary \cup Cmp

PyOp(op) == CASE op = "=" -> "==" [] op = "is-not" -> "is not" [] op = "not-in" -> "not in"
              [] op = "bnot" -> "~" [] OTHER -> op
Inf == 99
MinAr(op) == CASE op \in {"+", "*", "|"} -> 0
               [] op \in {"-", "/", "&", "@"} -> 1
               [] op \in {"**", "//", "<<", ">>", "%", "^"} -> 2
               [] op \in Unary -> 1
               [] op \in {"=", "is", "<", "<=", ">", ">="} -> 1
               [] op \in {"!=", "is-not", "in", "not-in"} -> 2
MaxAr(op) == CASE op \in {"%", "^"} -> 2 [] op \in Unary -> 1 [] OTHER -> Inf
Allowed(op, n) == MinAr(op) <= n /\ n <= MaxAr(op)

\* ---- expansions as trees: <<"var", i>>, <<"const", text>>, <<"un", op, X>>, <<"bin", op, L, R>>,
\* <<"chain", op, n>> (x1 op x2 op ... xn, one chained comparison)
Var(i) == <<"var", i>>
RECURSIVE LeftFold(_, _), RightFold(_, _, _)
LeftFold(op, n) == IF n = 1 THEN Var(1) ELSE <<"bin", op, LeftFold(op, n - 1), Var(n)>>
RightFold(op, i, n) == IF i = n THEN Var(n) ELSE <<"bin", op, Var(i), RightFold(op, i + 1, n)>>

\* the documented meaning of (op x1 ... xn)
Expansion(op, n) ==
  IF n = 0 THEN (CASE op = "+" -> <<"const", "0">> [] op = "*" -> <<"const", "1">> [] op = "|" -> <<"const", "0">>)
  ELSE IF op \in Unary THEN <<"un", op, Var(1)>>
  ELSE IF op \in Cmp THEN (IF n = 1 THEN <<"const", "True">> ELSE <<"chain", op, n>>)
  ELSE IF n = 1 THEN (CASE op = "+" -> <<"un", "+", Var(1)>> [] op = "-" -> <<"un", "-", Var(1)>>
                        [] op = "/" -> <<"bin", "/", <<"const", "1">>, Var(1)>>
                        [] op \in {"*", "&", "|", "@"} -> Var(1))
  ELSE IF op = "**" THEN RightFold(op, 1, n)
  ELSE LeftFold(op, n)

\* Python text of a tree
RECURSIVE Show(_), ShowChain(_, _)
ShowChain(op, n) == IF n = 1 THEN "x1" ELSE ShowChain(op, n - 1) \o " " \o PyOp(op) \o " x" \o ToString(n)
Show(t) ==
  CASE t[1] = "var" -> "x" \o ToString(t[2])
    [] t[1] = "const" -> t[2]
    [] t[1] = "un" -> "(" \o PyOp(t[2]) \o " " \o Show(t[3]) \o ")"
    [] t[1] = "bin" -> "(" \o Show(t[3]) \o " " \o PyOp(t[2]) \o " " \o Show(t[4]) \o ")"
    [] t[1] = "chain" -> "(" \o ShowChain(t[2], t[3]) \o ")"

\* augmented assignment: (op= t x1 ... xn) with n >= 1 values; more than one value only for operators
\* with an aggregator, whose expansion over the values is the right-hand side
Agg(op) == CASE op \in {"+", "-", "<<", ">>"} -> "+" [] op \in {"*", "/", "//"} -> "*"
             [] op = "**" -> "**" [] op = "|" -> "|" [] op = "&" -> "&" [] op = "@" -> "@"
             [] op \in {"%", "^"} -> "none"
AugAllowed(op, n) == op \in Arith /\ n >= 1 /\ (n = 1 \/ Agg(op) # "none")
AugValue(op, n) == IF n = 1 THEN Var(1) ELSE Expansion(Agg(op), n)
AugExpansion(op, n) == "t " \o PyOp(op) \o "= " \o Show(AugValue(op, n))

\* ---- integer semantics of the trees, to state laws about folds and aggregators
IntOps == {"+", "-", "*", "//", "**", "<<", ">>"}
Apply(op, a, b) == CASE op = "+" -> a + b [] op = "-" -> a - b [] op = "*" -> a * b
                     [] op = "//" -> a \div b [] op = "**" -> a ^ b
                     [] op = "<<" -> a * (2 ^ b) [] op = ">>" -> a \div (2 ^ b)
RECURSIVE Eval(_, _)
Eval(t, xs) == CASE t[1] = "var" -> xs[t[2]]
                 [] t[1] = "bin" -> Apply(t[2], Eval(t[3], xs), Eval(t[4], xs))

VARIABLES op, n, aug
vars == <<op, n, aug>>
Init == op \in Ops /\ n = 0 /\ aug \in BOOLEAN /\ (aug => op \in Arith)
Grow == n < MaxArity /\ n' = n + 1 /\ UNCHANGED <<op, aug>>
Spec == Init /\ [][Grow]_vars

\* ---- laws of the table
\* a nullary form exists exactly for the operators with an identity element
NullaryIsIdentity == \A o \in Ops : Allowed(o, 0) = (o \in {"+", "*", "|"})
\* every operator taking more than two arguments has an aggregator for augmented assignment
AggWhenNary == \A o \in Arith : (MaxAr(o) = Inf) = (Agg(o) # "none")
AugNeedsValue == \A o \in Arith : ~AugAllowed(o, 0)
\* fold direction: 10 - 3 - 2 = 5 (left), 2 ** 3 ** 2 = 512 (right)
FoldDirection == /\ Eval(Expansion("-", 3), <<10, 3, 2>>) = 5
                 /\ Eval(Expansion("**", 3), <<2, 3, 2>>) = 512
                 /\ Eval(Expansion("//", 3), <<100, 7, 2>>) = 7
\* the aggregator is the right one: (op= t a b) means the same as t = (op t a b), on small integers
AggregatorConsistent ==
  \A o \in IntOps : \A t \in (IF o = "**" THEN 2..3 ELSE 40..42) : \A a \in 1..(IF o = "**" THEN 2 ELSE 4), b \in 1..2 :
     Apply(o, t, Eval(AugValue(o, 2), <<a, b>>)) = Eval(Expansion(o, 3), <<t, a, b>>)

Export == PrintT(<<"ROW", ToJson([op |-> op, n |-> n, aug |-> aug,
                                  allowed |-> IF aug THEN AugAllowed(op, n) ELSE Allowed(op, n),
                                  py |-> IF aug THEN (IF AugAllowed(op, n) THEN AugExpansion(op, n) ELSE "")
                                         ELSE (IF Allowed(op, n) THEN Show(Expansion(op, n)) ELSE "")])>>)
=============================================================================
