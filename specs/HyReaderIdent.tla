---------------------------- MODULE HyReaderIdent ----------------------------
(* Classification of identifier text (hy_reader.as_identifier and the        *)
(* numeric model constructors) -- property C22, and the Symbol part of C26.  *)
(*                                                                           *)
(* Three-valued: for a text s (a sequence of characters, no whitespace or    *)
(* delimiters) the specification says                                        *)
(*   "int" / "float" / "complex"  s MUST read as that numeric model          *)
(*   "sym" / "dotted" / "lex"     s MUST read as a symbol / dotted form /    *)
(*                                be rejected (malformed dotted identifier)  *)
(*   "open"                       the documentation does not decide          *)
(* The MUST-number grammar is Python's numeric literal syntax plus the       *)
(* documented extensions: separators _ and , anywhere after the first        *)
(* character, decimal integers with leading zeros, an optional sign,         *)
(* case-sensitive NaN / Inf / -Inf, and complex(...)-style a+bj.             *)
(* Texts outside that grammar that CPython's int()/float()/complex()         *)
(* constructors would nevertheless accept ("Infinity", "1+j", "+NaN", ...)   *)
(* are "open": the harness decides that set with CPython itself.             *)
EXTENDS Naturals, Sequences, FiniteSets, TLC, Json, IOUtils

CONSTANTS Alphabet, MaxLen, Mode      \* Mode "enum": all texts <= MaxLen; "file": texts from TEXT_FILE

Dig == {"0", "1", "2", "3", "4", "5", "6", "7", "8", "9"}
HexDig == Dig \cup {"a", "b", "c", "d", "e", "f", "A", "B", "C", "D", "E", "F"}
OctDig == {"0", "1", "2", "3", "4", "5", "6", "7"}
BinDig == {"0", "1"}
Sep == {"_", ","}

\* separators are dropped everywhere except in first position
StripSep(s) == IF Len(s) <= 1 THEN s
               ELSE <<s[1]>> \o SelectSeq(Tail(s), LAMBDA c : c \notin Sep)

AllIn(s, S) == \A k \in 1..Len(s) : s[k] \in S
NonEmptyIn(s, S) == s # <<>> /\ AllIn(s, S)
Unsign(s) == IF s # <<>> /\ s[1] \in {"+", "-"} THEN Tail(s) ELSE s

\* ---- integers (after separator removal, sign removed)
IsDecInt(t) == NonEmptyIn(t, Dig)
IsRadixInt(t) ==
  /\ Len(t) >= 3 /\ t[1] = "0"
  /\ \/ (t[2] \in {"x", "X"} /\ AllIn(SubSeq(t, 3, Len(t)), HexDig))
     \/ (t[2] \in {"o", "O"} /\ AllIn(SubSeq(t, 3, Len(t)), OctDig))
     \/ (t[2] \in {"b", "B"} /\ AllIn(SubSeq(t, 3, Len(t)), BinDig))
IsInt(t) == IsDecInt(t) \/ IsRadixInt(t)

\* ---- floats: digits [. digits] [exp] | . digits [exp]   with at least a "." or an exponent
\* split t at the first e/E
ExpPos(t) == IF \E k \in 1..Len(t) : t[k] \in {"e", "E"}
             THEN CHOOSE k \in 1..Len(t) : t[k] \in {"e", "E"} /\ \A j \in 1..(k - 1) : t[j] \notin {"e", "E"}
             ELSE 0
IsExpPart(x) == LET y == Unsign(x) IN NonEmptyIn(y, Dig)      \* after the e: [+-] digits
DotPos(m) == IF \E k \in 1..Len(m) : m[k] = "." THEN CHOOSE k \in 1..Len(m) : m[k] = "." /\ \A j \in 1..(k - 1) : m[j] # "." ELSE 0
\* mantissa with a dot: digits* . digits*  with at least one digit
IsPointMantissa(m) ==
  LET d == DotPos(m) IN
  d > 0 /\ AllIn(SubSeq(m, 1, d - 1), Dig) /\ AllIn(SubSeq(m, d + 1, Len(m)), Dig) /\ Len(m) >= 2
IsFloat(t) ==
  LET e == ExpPos(t) IN
  IF e = 0 THEN IsPointMantissa(t)
  ELSE LET m == SubSeq(t, 1, e - 1) IN
       (IsPointMantissa(m) \/ NonEmptyIn(m, Dig)) /\ IsExpPart(SubSeq(t, e + 1, Len(t)))
IsReal(t) == IsFloat(t) \/ IsDecInt(t)

\* ---- complex: <real> j | <real> [+-] <real> j      (j or J)
IsImag(t) == Len(t) >= 2 /\ t[Len(t)] \in {"j", "J"} /\ IsReal(SubSeq(t, 1, Len(t) - 1))
\* a + or - that is not part of an exponent splits real and imaginary part
SplitPoints(t) == {k \in 2..(Len(t) - 1) : t[k] \in {"+", "-"} /\ t[k - 1] \notin {"e", "E"}}
IsComplexPair(t) ==
  \E k \in SplitPoints(t) : IsReal(SubSeq(t, 1, k - 1)) /\ IsImag(SubSeq(t, k + 1, Len(t)))

\* ---- the MUST-number classification of an undotted-or-dotted text
Special(s) == s \in {<<"N", "a", "N">>, <<"I", "n", "f">>, <<"-", "I", "n", "f">>}
NumType(s) ==
  LET t == Unsign(StripSep(s)) IN
  IF Special(s) THEN "float"
  ELSE IF s = <<>> \/ s[1] \in Sep THEN "no"
  ELSE IF IsInt(t) THEN "int"
  ELSE IF IsFloat(t) THEN "float"
  ELSE IF IsImag(t) \/ IsComplexPair(t) THEN "complex"
  ELSE "no"

\* the literal text CPython evaluates to obtain the expected value
RECURSIVE DropZeros(_)
DropZeros(t) == IF Len(t) > 1 /\ t[1] = "0" THEN DropZeros(Tail(t)) ELSE t
Canon(s) ==
  LET st == StripSep(s)
      sign == IF st # <<>> /\ st[1] \in {"+", "-"} THEN <<st[1]>> ELSE <<>>
      t == Unsign(st)
  IN IF Special(s) THEN s ELSE IF IsDecInt(t) THEN sign \o DropZeros(t) ELSE sign \o t

\* ---- dotted identifiers of non-numbers (as in HyReader!Ident)
AllDots(s) == \A k \in 1..Len(s) : s[k] = "."
HasDot(s) == \E k \in 1..Len(s) : s[k] = "."
RECURSIVE LeadDots(_), SplitDot(_, _)
LeadDots(s) == IF s # <<>> /\ Head(s) = "." THEN 1 + LeadDots(Tail(s)) ELSE 0
SplitDot(s, acc) == IF s = <<>> THEN <<acc>>
                    ELSE IF Head(s) = "." THEN <<acc>> \o SplitDot(Tail(s), <<>>)
                    ELSE SplitDot(Tail(s), Append(acc, Head(s)))
\* "maybe": CPython's constructors might accept the text although the grammar above does not
\* (decided by the harness); here: anything made only of characters that can occur in numbers
NumChars == Dig \cup Sep \cup {".", "e", "E", "j", "J", "+", "-", "x", "X", "o", "O", "b", "B", "a", "c", "d", "f",
                               "A", "C", "D", "F", "n", "N", "i", "I", "t", "y"}
Classify(s) ==
  LET nt == NumType(s) IN
  IF nt # "no" THEN nt
  ELSE IF ~HasDot(s) THEN "sym"
  ELSE IF AllDots(s) THEN "sym"
  ELSE LET parts == SplitDot(SubSeq(s, LeadDots(s) + 1, Len(s)), <<>>) IN
       IF \E k \in 1..(Len(parts) - 1) : parts[k] = <<>> THEN "lex"
       ELSE IF parts[Len(parts)] = <<>> THEN "lex"
       ELSE IF \E k \in 1..Len(parts) : NumType(parts[k]) # "no" THEN "lex"
       ELSE "dotted"

\* ---------------------------------------------------------------- checking
VARIABLE s
Texts == IF Mode = "file" THEN ndJsonDeserialize(IOEnv.TEXT_FILE) ELSE <<>>
Init == IF Mode = "enum" THEN s = <<>> ELSE \E k \in 1..Len(Texts) : s = Texts[k].s
Grow == Mode = "enum" /\ Len(s) < MaxLen /\ \E c \in Alphabet : s' = Append(s, c)
Spec == Init /\ [][Grow]_s

Numeric(x) == NumType(x) # "no"
\* adding separators after the first character never changes the classification
SeparatorsTransparent ==
  (s # <<>> /\ s[1] \notin Sep) =>
     \A k \in 1..Len(s) : \A sp \in Sep :
        LET s2 == SubSeq(s, 1, k) \o <<sp>> \o SubSeq(s, k + 1, Len(s)) IN
        \* (NaN / Inf / -Inf are words, not digit strings: no separators inside them)
        ((Numeric(s) \/ Numeric(s2)) /\ ~Special(s)) => (NumType(s2) = NumType(s) /\ Canon(s2) = Canon(s))
\* a sign does not change the type of a number
SignSymmetric ==
  (Numeric(s) /\ s[1] \notin {"+", "-"} /\ ~Special(s)) =>
     NumType(<<"-">> \o s) = NumType(s) /\ NumType(<<"+">> \o s) = NumType(s)
\* a leading separator makes a symbol (e.g. _1 is a Python name)
LeadingSeparatorIsSymbol == (s # <<>> /\ s[1] \in Sep) => Classify(s) \in {"sym", "dotted", "lex"}
\* the three numeric classes are disjoint by construction of the grammar
ClassesDisjoint ==
  LET t == Unsign(StripSep(s)) IN
  Cardinality({c \in {"i", "f", "c"} : (c = "i" /\ IsInt(t)) \/ (c = "f" /\ IsFloat(t))
                                       \/ (c = "c" /\ (IsImag(t) \/ IsComplexPair(t)))}) <= 1

Export == PrintT(<<"ROW", ToJson([s |-> s, c |-> Classify(s), canon |-> Canon(s)])>>)
=============================================================================
