#!/bin/sh
# setup_cmd: offline sanity checks; SANY-parse all specs.
set -e
cd "$(dirname "$0")"
command -v java >/dev/null
test -f /opt/veriftools/tla/tla2tools.jar
/venv/bin/python -c "import hy, hypothesis" 
mkdir -p .work evidence/replays
fail=0
W="$(pwd)/.work"
for f in specs/*.tla; do
  if ! (cd specs && tla-sany "$(basename "$f")") >"$W/sany.log" 2>&1; then echo "SANY failed: $f"; cat .work/sany.log; fail=1; fi
done
[ $fail = 0 ] && echo "setup ok: $(ls specs/*.tla | wc -l) TLA+ modules parse"
exit $fail
